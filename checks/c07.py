"""C07 — routing: is_supported_file == (get_extractor returns); the lower-cased trailing extension decides.

Monitor shape
-------------
* Oracle: a routing table written by hand **from the README "Supported Formats" tables** (extension or
  alias -> name of the documented extractor function), never read from ``router.py``.  The router's own
  tables, ``mimetypes.types_map`` and ``MIME_TYPE_MAPPING`` are used as *workload* only (so that every
  extension anybody knows about is asked), never to decide.
* The worker replaces every ``read_*`` function on its *defining* module (the router resolves extractors by
  a lazy ``getattr(module, name)``; ``read_file`` calls ``get_extractor`` and then the returned object) with a
  recording stub and re-binds identical objects found in other ``sharepoint2text`` modules.  "Which extractor
  is this" is therefore decided by identity of the stub, or — for a callable that is not a stub — by calling
  it and recording which stub it reaches.  The documented public names (``sharepoint2text.read_docx`` …,
  ``archive_extractor.read_archive``) are resolved the same way: the documented extractor of ``.docx`` is
  whatever ``sharepoint2text.read_docx`` runs.
* ``mimetypes`` state is process-global, so every MIME configuration (default, emptied, three hostile ones)
  has its own worker processes (``pool.run_cases(..., init=<config>)``); the verdict is computed in the parent
  from observations, including the cross-configuration comparison.
* In-process *sequences* of MIME-database changes (``k == "seq"`` cases, own worker processes): the same path strings are
  asked again after every change of the database — whole configurations swapped in both directions (types appear,
  types vanish) and single ``add_type`` / removal steps — and every answer pair is judged like any other: the two entry
  points must agree in *every* state of the process, not only in a fresh one, and documented extensions must not move.
* ``read_file`` dispatch: a real tiny temp file per routed extension (case variants, dotted / spaced /
  unicode names), ``list(read_file(p))`` with the stubs armed; the stub hit is compared with the table and
  with what ``get_extractor(str(p))`` returned.

What the oracle demands (and what it does not)
----------------------------------------------
For every path and every MIME configuration: ``is_supported_file`` returns, ``get_extractor`` returns or raises
``ExtractionFileFormatNotSupportedError`` and nothing else, and the two agree.  For a path whose lower-cased
trailing extension (compound ``.tar.gz/.tar.bz2/.tar.xz`` first) is in the README table: supported, the
documented extractor, in every MIME configuration, alias == base, any case.  For every other path the MIME
fallback legitimately decides; only agreement, the exception type and case-invariance within a configuration
are demanded.  Dot-files whose whole name is the extension (``.pdf``, ``dir/.tar.gz``) are treated as "no
promise" as well: the README does not say whether such a name has an extension.
"""
from __future__ import annotations

import io
import itertools
import os
import threading

LEVEL = "exploration"
TASK = "checks.c07:work"
BATCH = 400

# --------------------------------------------------------------------------------------------------
# Hand-written from /repo/README.md, section "Supported Formats" (tables) and "API Reference" (names).
# --------------------------------------------------------------------------------------------------
DOC_TABLE = {
    # Legacy Microsoft Office
    "doc": "read_doc", "dot": "read_doc",
    "xls": "read_xls", "xlt": "read_xls",
    "ppt": "read_ppt", "pot": "read_ppt", "pps": "read_ppt",
    "rtf": "read_rtf",
    # Modern Microsoft Office
    "docx": "read_docx", "docm": "read_docx", "dotx": "read_docx", "dotm": "read_docx",
    "xlsx": "read_xlsx", "xlsm": "read_xlsx", "xltx": "read_xlsx", "xltm": "read_xlsx",
    "pptx": "read_pptx", "pptm": "read_pptx", "potx": "read_pptx", "potm": "read_pptx",
    "ppsx": "read_pptx", "ppsm": "read_pptx",
    # OpenDocument
    "odt": "read_odt", "ott": "read_odt",
    "odp": "read_odp", "otp": "read_odp",
    "ods": "read_ods", "ots": "read_ods",
    "odg": "read_odg", "odf": "read_odf",
    # Email
    "eml": "read_email__eml_format", "msg": "read_email__msg_format", "mbox": "read_email__mbox_format",
    # Plain text
    "txt": "read_plain_text", "md": "read_plain_text", "csv": "read_plain_text",
    "tsv": "read_plain_text", "json": "read_plain_text",
    # PDF, HTML / Web
    "pdf": "read_pdf",
    "html": "read_html", "htm": "read_html",
    "mhtml": "read_mhtml", "mht": "read_mhtml",
    "epub": "read_epub",
    # Archives
    "zip": "read_archive", "7z": "read_archive", "tar": "read_archive",
    "tar.gz": "read_archive", "tgz": "read_archive", "gz": "read_archive",
    "tar.bz2": "read_archive", "tbz2": "read_archive", "bz2": "read_archive",
    "tar.xz": "read_archive", "txz": "read_archive", "xz": "read_archive",
}
# README "Extension Aliases" paragraph + the "(template)" / "(show)" / second-extension table rows: alias -> base
ALIAS_OF = {
    "dot": "doc", "xlt": "xls", "pot": "ppt", "pps": "ppt",
    "dotx": "docx", "dotm": "docm", "xltx": "xlsx", "xltm": "xlsm",
    "potx": "pptx", "potm": "pptm", "ppsx": "pptx", "ppsm": "pptm",
    "ott": "odt", "otp": "odp", "ots": "ods",
    "htm": "html", "mht": "mhtml",
    "tar.gz": "tgz", "gz": "tgz", "tar.bz2": "tbz2", "bz2": "tbz2", "tar.xz": "txz", "xz": "txz",
}
COMPOUND = ("tar.gz", "tar.bz2", "tar.xz")
PUBLIC = sorted(set(DOC_TABLE.values()))          # the 21 documented extractor functions
README_ARCHIVE_MODULE = "sharepoint2text.parsing.extractors.archive_extractor"   # README "Archive Processing"

# MIME types somebody may plausibly have in a MIME database; unioned with the keys of MIME_TYPE_MAPPING
HAND_MIME = [
    "application/pdf", "application/zip", "text/plain", "text/html", "message/rfc822", "application/msword",
    "application/x-7z-compressed", "application/xml", "text/xml", "application/octet-stream", "image/png",
    "application/vnd.ms-excel", "application/x-tar", "application/gzip", "text/markdown", "text/csv",
    "application/x-verif-unknown",
]
# what a MIME type "would route to" if the MIME database were consulted (hand-written; used to pick shadows that differ)
MIME_FAMILY = {
    "application/pdf": "read_pdf", "application/zip": "read_archive", "text/plain": "read_plain_text",
    "text/html": "read_html", "message/rfc822": "read_email__eml_format", "application/msword": "read_doc",
    "application/x-verif-unknown": None,
}


def model(path: str):
    """(class, ext, hidden) of a path from its lower-cased trailing extension, compound first."""
    low = path.lower()
    comp = low.rsplit("/", 1)[-1]
    for c in COMPOUND:
        if low.endswith("." + c):
            return "compound", c, comp[: -(len(c) + 1)].strip(".") == ""
    i = comp.rfind(".")
    if i < 0 or i == len(comp) - 1:
        return "none", "", False
    ext = comp[i + 1:]
    hidden = comp[:i].strip(".") == ""
    if ext in DOC_TABLE:
        return ("alias" if ext in ALIAS_OF else "base"), ext, hidden
    return "unrouted", ext, hidden


def _casekind(path: str, ext: str) -> str:
    tail = path[-len(ext):] if ext else ""
    if tail == ext:
        return "lower"
    if tail == ext.upper():
        return "upper"
    return "mixed"


# --------------------------------------------------------------------------------------------------
# worker side
# --------------------------------------------------------------------------------------------------
_S: dict = {}


def _apply_mime_config(cfg: dict) -> None:
    import mimetypes

    mimetypes.init()
    db = mimetypes._db
    if cfg.get("clear"):
        for d in (db.types_map[True], db.types_map[False], db.types_map_inv[True], db.types_map_inv[False],
                  db.suffix_map, db.encodings_map):
            d.clear()
    for typ, ext in cfg.get("add", []):
        mimetypes.add_type(typ, ext)
    for k, v in cfg.get("suffix", {}).items():
        mimetypes._db.suffix_map[k] = v
    for k, v in cfg.get("enc", {}).items():
        mimetypes._db.encodings_map[k] = v


def _apply_mime_step(step: dict) -> None:
    """One change of the process-wide MIME database: a whole configuration, or single types added / removed."""
    import mimetypes

    if "cfg" in step:
        _apply_mime_config(step["cfg"])
        return
    for typ, ext in step.get("add", []):
        mimetypes.add_type(typ, ext)
    db = mimetypes._db
    for ext in step.get("remove", []):
        for strict in (True, False):
            typ = db.types_map[strict].pop(ext, None)
            if typ is not None and ext in db.types_map_inv[strict].get(typ, []):
                db.types_map_inv[strict][typ].remove(ext)


def work_init(init: dict) -> None:
    import atexit
    import importlib
    import inspect
    import logging
    import mimetypes
    import pkgutil
    import shutil
    import sys
    import tempfile

    _apply_mime_config(init)
    lg = logging.getLogger("sharepoint2text")
    lg.addHandler(logging.NullHandler())
    lg.propagate = False
    lg.setLevel(logging.CRITICAL)

    if init.get("lazy"):
        # first-use cases: nothing but the package itself is imported; the extractor modules stay unloaded until the router asks for them
        import sharepoint2text
        from sharepoint2text.parsing.exceptions import ExtractionFileFormatNotSupportedError
        _S.update(cfg=init, lazy=True, sp=sharepoint2text, NotSupported=ExtractionFileFormatNotSupportedError, mimetypes=mimetypes)
        return

    import sharepoint2text
    import sharepoint2text.parsing.extractors as E
    from sharepoint2text.parsing import router
    from sharepoint2text.parsing.exceptions import ExtractionFileFormatNotSupportedError

    hits: list = []
    stubs: dict = {}        # ident -> stub
    originals: dict = {}    # id(original function) -> (ident, original)   (kept alive)

    def make_stub(ident: str, name: str):
        def stub(*a, **k):
            hits.append(ident)
            return iter(())
        stub.__name__ = name
        stub.__qualname__ = name
        stub.__verif_stub__ = ident
        return stub

    import_failures = []
    for m in pkgutil.walk_packages(E.__path__, E.__name__ + "."):
        try:
            mod = importlib.import_module(m.name)
        except Exception as e:  # reported, judged by the thresholds in the parent
            import_failures.append(f"{m.name}: {type(e).__name__}")
            continue
        for k, v in list(vars(mod).items()):
            if k.startswith("read_") and inspect.isfunction(v) and v.__module__ == mod.__name__:
                ident = f"{mod.__name__}:{k}"
                originals[id(v)] = (ident, v)
                stubs[ident] = make_stub(ident, k)
                setattr(mod, k, stubs[ident])
    rebinds = 0
    for name, mod in list(sys.modules.items()):
        if mod is None or not name.startswith("sharepoint2text"):
            continue
        for k, v in list(vars(mod).items()):
            if inspect.isfunction(v) and id(v) in originals and originals[id(v)][1] is v:
                setattr(mod, k, stubs[originals[id(v)][0]])
                rebinds += 1
            elif type(v) is dict:       # a registry that holds function objects bound at import time
                for dk, dv in list(v.items()):
                    if inspect.isfunction(dv) and id(dv) in originals and originals[id(dv)][1] is dv:
                        v[dk] = stubs[originals[id(dv)][0]]
                        rebinds += 1

    # resolve the documented public names behaviourally: which stub does the documented function run?
    doc = {}
    for pub in PUBLIC:
        if pub == "read_archive":
            try:
                f = getattr(importlib.import_module(README_ARCHIVE_MODULE), "read_archive")
            except Exception:
                f = None
        else:
            f = getattr(sharepoint2text, pub, None)
        if f is None:
            doc[pub] = "MISSING"
            continue
        del hits[:]
        try:
            r = f(io.BytesIO(b""), "probe.bin")
            if r is not None:
                list(r)
        except BaseException as e:
            doc[pub] = "RAISED:" + type(e).__name__
            continue
        hs = sorted(set(hits))
        doc[pub] = hs[0] if len(hs) == 1 else ("AMBIGUOUS:" + ",".join(hs))
    del hits[:]

    tmp = tempfile.mkdtemp(prefix="c07-")
    atexit.register(shutil.rmtree, tmp, True)
    _S.update(
        cfg=init, hits=hits, stubs=stubs, originals=originals, doc=doc, rebinds=rebinds, tmp=tmp,
        NotSupported=ExtractionFileFormatNotSupportedError, sp=sharepoint2text, router=router,
        import_failures=import_failures, mimetypes=mimetypes,
        same_entry=(sharepoint2text.get_extractor is router.get_extractor
                    and sharepoint2text.is_supported_file is router.is_supported_file),
    )


def _ident(f, path: str) -> str:
    s = getattr(f, "__verif_stub__", None)
    if s is not None and _S["stubs"].get(s) is f:
        return "S>" + s
    o = _S["originals"].get(id(f))
    if o is not None and o[1] is f:
        return "O>" + o[0]          # the real function: the stub was bypassed, identity still decides
    hits = _S["hits"]
    del hits[:]
    try:
        r = f(io.BytesIO(b""), path)
        if r is not None:
            list(r)
    except BaseException as e:
        hs = sorted(set(hits))
        del hits[:]
        return ("U>" + ",".join(hs)) if hs else ("U:raised:" + type(e).__name__)
    hs = sorted(set(hits))
    del hits[:]
    return ("U>" + ",".join(hs)) if hs else ("U:nohit:" + str(getattr(f, "__qualname__", type(f).__name__))[:60])


def _route_one(p: str):
    sp = _S["sp"]
    try:
        s = 1 if sp.is_supported_file(p) else 0
    except BaseException as e:
        s = "E:" + type(e).__name__
    _S["n_sup"] = _S.get("n_sup", 0) + 1
    try:
        f = sp.get_extractor(p)
    except _S["NotSupported"]:
        e = "N"
    except BaseException as ex:
        e = "E:" + type(ex).__name__
    else:
        e = _ident(f, p)
    _S["n_get"] = _S.get("n_get", 0) + 1
    return s, e


def _first_use(case: dict) -> dict:
    """n threads released together ask the router about paths of formats whose extractor module this process has never imported."""
    import sys
    import threading

    sp = _S["sp"]
    paths = case["paths"]
    n = len(paths)
    before = sorted(m for m in sys.modules if m.startswith("sharepoint2text.parsing.extractors."))
    bar = threading.Barrier(n)
    res: list = [None] * n
    objs: list = [None] * n

    def body(i):
        p = paths[i]
        bar.wait()
        try:
            f = sp.get_extractor(p)
            objs[i] = f
            g = "R>" + str(getattr(f, "__module__", "?")) + ":" + str(getattr(f, "__name__", "?"))
        except _S["NotSupported"]:
            g = "N"
        except BaseException as e:
            g = "E:" + type(e).__name__ + ":" + str(e)[:80]
        try:
            s_ = 1 if sp.is_supported_file(p) else 0
        except BaseException as e:
            s_ = "E:" + type(e).__name__
        res[i] = [s_, g]
    old = sys.getswitchinterval()
    sys.setswitchinterval(1e-5)
    ts = [threading.Thread(target=body, args=(i,)) for i in range(n)]
    try:
        for t in ts:
            t.start()
        for t in ts:
            t.join(120)
    finally:
        sys.setswitchinterval(old)
    # reference: the same question asked again, alone, now that everything is loaded (which extractor is the documented one is judged by the
    # stubbed worker pools; here only "the concurrent first answer is the answer")
    for i, p in enumerate(paths):
        if res[i] is None:
            continue
        try:
            ref = sp.get_extractor(p)
            res[i] += [(ref is objs[i]) if objs[i] is not None else None, str(getattr(ref, "__module__", "?"))]
        except BaseException as e:
            res[i] += ["E:" + type(e).__name__, None]
    return {"first": res, "loaded_before": before, "lazy": bool(_S.get("lazy")), "pid": os.getpid()}


def work(case: dict) -> dict:
    from pathlib import Path

    k = case["k"]
    if k == "firstuse":
        return _first_use(case)
    base = {"doc": _S["doc"], "nstubs": len(_S["stubs"]), "rebinds": _S["rebinds"], "same_entry": _S["same_entry"],
            "import_failures": _S["import_failures"], "pid": os.getpid()}
    if k == "probe":
        mt = _S["mimetypes"]
        base["canary"] = {n: mt.guess_type(n)[0] for n in case["names"]}
        base["ntypes"] = len(mt.types_map)
        return base
    if k == "route":
        table: dict = {}
        out = []
        n0s, n0g = _S.get("n_sup", 0), _S.get("n_get", 0)
        for p in case["paths"]:
            s, e = _route_one(p)
            out.append([s, table.setdefault(e, len(table))])
        base["r"] = out
        base["t"] = [x for x, _ in sorted(table.items(), key=lambda kv: kv[1])]
        base["n_sup"] = _S["n_sup"] - n0s
        base["n_get"] = _S["n_get"] - n0g
        return base
    if k == "dispatch":
        sp = _S["sp"]
        hits = _S["hits"]
        out = []
        for it in case["items"]:
            d = Path(_S["tmp"]) / it["sub"] if it.get("sub") else Path(_S["tmp"])
            d.mkdir(parents=True, exist_ok=True)
            fp = d / it["name"]
            made = []
            if it.get("link"):
                _S["n_link"] = _S.get("n_link", 0) + 1
                tgt = d / f"t{_S['n_link']}" / it["link"]
                tgt.parent.mkdir(parents=True, exist_ok=True)
                tgt.write_bytes(b"x\n")
                made.append(tgt)
                src = tgt if it.get("abs") else Path(os.path.relpath(tgt, d))
                if it.get("chain"):
                    mid = d / f"t{_S['n_link']}" / "hop"
                    mid.symlink_to(Path(os.path.relpath(tgt, mid.parent)) if not it.get("abs") else tgt)
                    made.append(mid)
                    src = mid if it.get("abs") else Path(os.path.relpath(mid, d))
                if fp.is_symlink() or fp.exists():
                    fp.unlink()
                fp.symlink_to(src)
            elif it.get("dirlink"):
                _S["n_link"] = _S.get("n_link", 0) + 1
                real = d / f"r{_S['n_link']}" / it["dirlink"]
                real.mkdir(parents=True, exist_ok=True)
                (real / it["name"]).write_bytes(b"x\n")
                made.append(real / it["name"])
                ld = d / f"linked{_S['n_link']}.docx"
                ld.symlink_to(real, target_is_directory=True)
                made.append(ld)
                fp = ld / it["name"]
            else:
                fp.write_bytes(CONTENT_MAGICS[it["content"]].encode("latin-1") if it.get("content") is not None else b"x\n")
            arg = fp if it.get("pathobj") else str(fp)
            cwd0 = None
            if it.get("rel"):
                # the same file, named relative to the current directory
                cwd0 = os.getcwd()
                (d / "inner").mkdir(exist_ok=True)
                rel = {"bare": it["name"], "dot": "./" + it["name"], "sub": it["name"], "updir": "../" + d.name + "/" + it["name"]}[it["rel"]]
                os.chdir(d if it["rel"] != "sub" else d.parent)
                if it["rel"] == "sub":
                    rel = d.name + "/" + it["name"]
                arg = Path(rel) if it.get("pathobj") else rel
            del hits[:]
            try:
                n = len(list(sp.read_file(arg)))
                res = f"ok:{n}"
            except _S["NotSupported"]:
                res = "N"
            except BaseException as ex:
                res = "E:" + type(ex).__name__ + (":" + type(ex.__cause__).__name__ if ex.__cause__ is not None else "")
            finally:
                if cwd0 is not None:
                    os.chdir(cwd0)
            h = list(hits)
            del hits[:]
            s, e = _route_one(str(arg))
            for f_ in [fp] + made:
                try:
                    f_.unlink()
                except OSError:
                    pass
            out.append({"res": res, "hits": h, "sup": s, "get": e})
        base["d"] = out
        return base
    if k == "seq":
        mt = _S["mimetypes"]
        out = []
        try:
            for step in case["steps"]:
                _apply_mime_step(step)
                table = {}
                r = []
                for p in case["paths"]:
                    s_, e_ = _route_one(p)
                    r.append([s_, table.setdefault(e_, len(table))])
                out.append({"r": r, "t": [x for x, _ in sorted(table.items(), key=lambda kv: kv[1])],
                            "canary": {n: mt.guess_type(n)[0] for n in step.get("canary", {})}})
        finally:
            _apply_mime_config(_S["cfg"])
        base["seq"] = out
        return base
    return {"_harness_error": "unknown case kind " + str(k)}


# --------------------------------------------------------------------------------------------------
# parent side: workload
# --------------------------------------------------------------------------------------------------
DIRS = [
    "", "dir/", "/abs/path/", "./", "../up/", "dir.with.dots/", "dir.pdf/", "archive.tar.gz/", "my dir/",
    "каталог/文件夹/", "C:\\Users\\me\\", "\\\\server\\share\\", "http://host/site/",
    "https://contoso.sharepoint.com/sites/Team%20Site/Shared%20Documents/", "file:///tmp/", "ftp://u:p@h:21/",
    "//host/share/", "q?a=b/", "f#frag/", "data:text/plain,", "data:application/pdf;base64,", "data:,",
    "data:application/zip,", "sites/Team Site/Shared Documents/General/", "a/./b/../", "~/", ".hidden/", "x.docx/y.pdf/",
    "http://[::1]:8080/", "mailto:", "urn:x:",
]
STEMS = [
    "report", "my report", "a.b.c", "archive.tar", "x.pdf", "v1.0-final (2)", "ünïcödé", "文件", "отчёт", "emoji😀",
    "q?x=1", "a#b", "100%25", "x.", "-", " ", "a b.c d", "UPPER", "x.tar.gz", "résumé.docx", "tab\there",
    "semi;colon,comma", "a:b", "COM1", "x\u200b", "İstanbul", "x.zip.html", "..x", "x..", "'q\"",
    # names other programs leave next to documents (owner / lock / backup / resource-fork / temp files) and stems with special first or last characters:
    # the extension still decides
    "~$report", "~$", "~WRL0001", ".~lock.report", "._report", "#report#", ".#report", "report~", "~report", "$report", "$RECYCLE", "Thumbs", "desktop",
    " lead", "trail ", ".lead", "-rf", "@eaDir", "%TEMP%", "&amp;", "report (conflicted copy 2024-01-01)", "!important", "+plus", "=eq", "^caret", "`tick", "{brace}", "[1]",
]
SUFFIXES = [
    "/", "\\", "?dl=1", "#page=2", " ", ".", "\n", "\x00", ".txt", ".bak", "~", ":Zone.Identifier", "/.", "/..",
    "%00", ";v=1", ".gz", ".tar.gz", ".", "..", ",", "\t", "\u200b", ".\u0130",
]
NEAR_COMPOUND = [
    "x.tar.gz", "x.gz", "x.tar.GZ", "x.TAR.gz", "X.Tar.Gz", "a.tar.gz.txt", ".tar.gz", "tar.gz", ".gz", "gz", "x.tar.gzip",
    "x.tar .gz", "x.tar..gz", "x.targz", "xtar.gz", "x.tar.bz", "x.tgz.tar", "x.tar.gz.", "x.tar.gz/", "x.tar/gz",
    "x.tar.gz ", "x.t\u0430r.gz", "x.tar.g\u017f", "x.tar.bz2", "x.tar.BZ2", "x.bz2", "x.tar.xz", "x.tar.XZ", "x.xz",
    "x.tar.zst", "x.tar.lz", "x.tar.Z", "x.tar.z", "x.taz", "x.tz", "x.tbz", "x.tb2", "x.tlz", "x.tar.7z", "x.7z.tar",
    "x.zip.gz", "x.pdf.gz", "x.docx.xz", "x.gz.pdf", "x.tar.gz.docx", "x.tar.tar.gz", "x.tar.gz.tar.gz", ".tar.gz.tar.gz",
    "tar", ".tar", "x.tar", "x.TAR", "x.tar.", "x..tar.gz", "x.tar.gz\\", "x.tar.gz?x", "x.tar.gz#f", "x.tgz", "x.TGZ",
    "x.tbz2", "x.txz", "x.7z", "x.7Z", "x.zip", "x.ZIP", "...tar.gz", "a/.tar.xz", "a/b.tar.bz2/",
]
FUZZ_TOKENS = [
    ".", "..", "/", "\\", " ", "x", "é", "?", "#", ":", "data:", "http://", ",", ";", "%2e", "\ud800", "\x00", "\n",
    "\u0130", "\u212a", "ß", "tar", "-", "_", "~", "a", "Z", "0", "=", "&", "@", "[", "]", "(", ")", "\u202e", "\ufeff",
]


def _case_variants(ext: str):
    """Every upper/lower assignment of the letters of ``ext`` (at most 2**6)."""
    idx = [i for i, ch in enumerate(ext) if ch.isalpha()]
    for mask in range(1 << len(idx)):
        s = list(ext)
        for b, i in enumerate(idx):
            if mask >> b & 1:
                s[i] = s[i].upper()
        yield "".join(s)


# ASCII letter (or letter pair) -> characters that lower(), upper(), casefold() or compatibility normalisation map to it
CASELESS_EQUIVALENTS = {
    "s": ["\u017f"], "k": ["\u212a"], "i": ["\u0130", "\u0131"], "ss": ["\u00df", "\u1e9e"], "fi": ["\ufb01"], "fl": ["\ufb02"], "st": ["\ufb06", "\ufb05"], "ff": ["\ufb00"],
    "a": ["\uff41", "\u00e5", "\u212b"], "d": ["\uff44"], "o": ["\uff4f"], "c": ["\uff43", "\u217d"], "x": ["\uff58", "\u2179"], "m": ["\uff4d", "\u217f"], "l": ["\uff4c", "\u217c"],
    "p": ["\uff50"], "t": ["\uff54"], "e": ["\uff45"], "g": ["\uff47"], "z": ["\uff5a"], "v": ["\u2174"], "h": ["\uff48"], "j": ["\uff4a"], "n": ["\uff4e"], "r": ["\uff52"], "b": ["\uff42"],
    "u": ["\uff55"], "2": ["\uff12", "\u00b2"], "7": ["\uff17"], ".": ["\uff0e", "\u2024"],
}


def _caseless_variants(ext: str):
    """ext with one letter (or letter pair) replaced by each of its Unicode caseless / compatibility equivalents."""
    out = []
    for key, subs in CASELESS_EQUIVALENTS.items():
        start = 0
        while True:
            i = ext.find(key, start)
            if i < 0:
                break
            for ch in subs:
                out.append(ext[:i] + ch + ext[i + len(key):])
            start = i + 1
    return list(dict.fromkeys(out))


def _mix(rng, ext: str) -> str:
    return "".join(ch.upper() if rng.random() < 0.5 else ch.lower() for ch in ext)


class Workload:
    def __init__(self, run, universe: list[str], mime_keys: list[str], extra_exts: list[str]):
        rng = run.rng
        self.paths: list[str] = []
        self.group: list[str] = []
        self.alias_pairs: list[tuple[int, int]] = []
        self.case_groups: list[tuple[int, ...]] = []
        self.n_case_variants = 0
        add = self._add
        routed = sorted(DOC_TABLE)

        # A. every case variant of every documented extension
        for ext in routed:
            for var in _case_variants(ext):
                self.n_case_variants += 1
                for _ in range(run.n(3, 40)):
                    add(rng.choice(DIRS) + rng.choice(STEMS) + "." + var, "A")
        # B. every documented extension under every directory / stem / suffix form
        for ext in routed:
            for rep in range(run.n(1, 16)):
                for d in DIRS:
                    e = rng.choice((ext, ext.upper(), _mix(rng, ext)))
                    add(d + rng.choice(STEMS) + "." + e, "B-dir")
                for s in STEMS:
                    e = rng.choice((ext, ext.upper(), _mix(rng, ext)))
                    add(rng.choice(DIRS) + s + "." + e, "B-stem")
                for suf in SUFFIXES:
                    add(rng.choice(DIRS) + rng.choice(STEMS) + "." + ext + suf, "B-suffix")
                add("." + ext, "B-hidden")
                add(rng.choice(DIRS) + "." + ext.upper(), "B-hidden")
                add(rng.choice(DIRS) + ".." + ext, "B-hidden")
                add(ext, "B-bare")
                add(rng.choice(DIRS) + ext.upper(), "B-bare")
        # C. every extension anybody knows (router tables, README, mimetypes, near misses): lower / UPPER / mixed
        for ext in universe:
            for _ in range(run.n(3, 30)):
                pre = rng.choice(DIRS) + rng.choice(STEMS) + "."
                suf = rng.choice(SUFFIXES) if rng.random() < 0.12 else ""
                g = tuple(add(pre + v + suf, "C") for v in (ext.lower(), ext.upper(), _mix(rng, ext)) if v.lower() == ext.lower())
                self.case_groups.append(g)
        # D. compound and near-compound forms
        for name in NEAR_COMPOUND:
            for d in DIRS if not run.quick else [""] + rng.sample(DIRS, 6):
                add(d + name, "D")
        # E. alias / base twins
        for alias, basee in sorted(ALIAS_OF.items()):
            for _ in range(run.n(6, 120)):
                pre = rng.choice(DIRS) + rng.choice(STEMS) + "."
                up = rng.random() < 0.4
                ia = add(pre + (alias.upper() if up else alias), "E")
                ib = add(pre + (basee.upper() if up else basee), "E")
                self.alias_pairs.append((ia, ib))
        # F. fuzz: random concatenations of separators, dots, unicode and extension tokens
        toks = FUZZ_TOKENS + ["." + e for e in routed] + ["." + e.upper() for e in routed] + routed
        for _ in range(run.n(12000, 250000)):
            add("".join(rng.choice(toks) for _ in range(rng.randint(1, 7))), "F")
        # U. Unicode characters that some caseless comparison (lower / upper / casefold / NFKC) identifies with an ASCII letter, put in place of
        #    that letter in every documented extension: the two entry points must still agree, whatever they make of such a spelling
        for ext in routed:
            for var in _caseless_variants(ext):
                for _ in range(run.n(1, 4)):
                    g = (add(rng.choice(DIRS) + rng.choice(STEMS) + "." + var, "U"), add(rng.choice(DIRS[:6]) + "f." + var.upper(), "U"))
        # S. degenerate strings
        for p in ["", " ", ".", "..", "...", "/", "//", "\\", ":", "data:", "data:,", "data:;base64,", "http://", "?", "#", "\x00", "\n",
                  "./", "../", "~", "-", "a", "A.", ".a", "a/", "a/.", "a/..", ".\ud800", "x" * 5000 + ".pdf", "x." + "y" * 5000,
                  "." * 300 + "pdf", "/" * 300 + "a.docx", "a.docx" + "/" * 300, ("a.pdf/" * 400) + "b.zip"]:
            add(p, "S")
        # G. names that only a MIME database can decide (incl. the extensions the hostile configurations add)
        for ext in extra_exts:
            for d, s in itertools.product(["", "dir/", "my dir.pdf/", "http://h/"], ["f", "a.b", "x.docx"]):
                g = tuple(add(d + s + v, "G") for v in (ext, ext.upper()))
                self.case_groups.append(g)
        # H. data: URLs for every MIME type of the fallback table (the data: branch of guess_type ignores the database)
        for mt in mime_keys:
            for form in ("data:%s,abc", "data:%s;base64,QUJD", "DATA:%s;charset=utf-8,x", "data:%s,x.zzz", "data:%s,x.docx"):
                add(form % mt, "H")
                add(form % mt.upper(), "H")

    def _add(self, p: str, g: str) -> int:
        self.paths.append(p)
        self.group.append(g)
        return len(self.paths) - 1


def _universe(run):
    import mimetypes

    mimetypes.init()
    exts = set(DOC_TABLE)
    n_router = 0
    router_only = []
    try:
        from sharepoint2text.parsing import router
        rt = set(getattr(router, "_EXTRACTOR_REGISTRY", {})) | set(getattr(router, "_EXTENSION_ALIASES", {}))
        rt |= {e.lstrip(".") for e in getattr(router, "_COMPOUND_EXTENSIONS", {})}
        rt |= {e.lstrip(".") for e in getattr(router, "_SUPPORTED_EXTENSIONS", ())}
        rt |= set(getattr(router, "_EXTENSION_ALIASES", {}).values())
        n_router = len(rt)
        router_only = sorted(e for e in rt if e.lower() not in DOC_TABLE)
        exts |= {e.lower() for e in rt}
    except Exception as e:  # workload only; the threshold below makes the run inconclusive
        run.extras["router_tables_unreadable"] = repr(e)
    mt = {k.lstrip(".").lower() for k in list(mimetypes.types_map) + list(mimetypes.common_types)
          + list(mimetypes.suffix_map) + list(mimetypes.encodings_map)}
    exts |= mt
    near = set()
    for e in DOC_TABLE:
        near |= {e + "x", e[:-1], e + " ", " " + e, e + "~", e + "1", "x" + e, e + e}
    near |= {"", "xhtml", "xht", "shtml", "text", "markdown", "mdown", "yaml", "yml", "xml", "jsonl", "ndjson", "log",
             "ini", "jpeg", "png", "exe", "rar", "zst", "lz", "zipx", "jar", "war", "docb", "xlsb", "xlam", "ppam",
             "one", "vsdx", "pub", "mpp", "pages", "numbers", "key", "fodt", "fods", "fodp", "otg", "sxw", "wps", "wpd",
             "emlx", "oft", "pst", "ost", "mbx", "ics", "vcf", "azw", "mobi", "tex", "rst", "py", "c", "h", "bat"}
    exts |= near
    exts.discard("")
    try:
        from sharepoint2text.parsing.mime_types import MIME_TYPE_MAPPING
        keys = list(MIME_TYPE_MAPPING)
        vals = sorted({str(v) for v in MIME_TYPE_MAPPING.values()})
    except Exception as e:
        run.extras["mime_mapping_unreadable"] = repr(e)
        keys, vals = [], []
    exts |= {v.lower() for v in vals}
    mime_keys = sorted(set(keys) | set(HAND_MIME))
    return sorted(exts), mime_keys, len(keys), n_router, router_only, len(mt)


def _spellings(t: str) -> list[str]:
    """Non-canonical spellings of a media type."""
    major, _, minor = t.partition("/")
    out = [t.upper(), major.capitalize() + "/" + minor.upper(), t + "; charset=utf-8", t + ";q=0.9", t + " ", " " + t, t + "\t", t.replace("/", " / "), t + ";"]
    return [x for x in dict.fromkeys(out) if x != t]


def _configs(mime_keys: list[str]):
    shadow = []
    pool = [t for t in MIME_FAMILY]
    singles = sorted(e for e in DOC_TABLE if "." not in e)
    for i, ext in enumerate(singles):
        for j in range(len(pool)):
            t = pool[(i + j) % len(pool)]
            if MIME_FAMILY[t] != DOC_TABLE[ext]:
                shadow.append([t, "." + ext])
                break
    shadow += [["text/plain", ".zzz"], ["application/x-verif-unknown", ".yyy"], ["application/pdf", ".gzx"]]
    keys_add = [[k, f".vq{i}"] for i, k in enumerate(mime_keys)]
    # the same media types as a host database / registry may spell them: other case, parameters, padding (a spelling that is not a key of the
    # fallback table must be refused by both entry points, or accepted by both)
    keys_add += [[sp, f".vs{i}x{j}"] for i, k in enumerate(mime_keys) for j, sp in enumerate(_spellings(k))]
    cfgs = [
        {"name": "default"},
        {"name": "empty", "clear": True},
        {"name": "hostile_shadow", "add": shadow, "suffix": {".vsfx": ".zzz", ".xlsx": ".txt", ".tgz": ".pdf"},
         "enc": {".venc": "gzip", ".pptx": "compress", ".odt": "gzip"}},
        {"name": "hostile_keys", "add": keys_add},
        {"name": "hostile_only", "clear": True, "add": shadow + keys_add},
    ]
    extra = [".zzz", ".yyy", ".gzx", ".vsfx", ".venc", ".pdf.venc", ".docx.venc"] + [e for _, e in keys_add]
    canary = {
        "default": {"x.txt": "text/plain", "x.zzz": None},
        "empty": {"x.txt": None, "x.pdf": None, "x.zzz": None},
        "hostile_shadow": {"x.zzz": "text/plain", "x.vsfx": "text/plain"},
        "hostile_keys": {"x.vq0": mime_keys[0], "x.txt": "text/plain"},
        "hostile_only": {"x.zzz": "text/plain", "x.png": None, "x.vq0": mime_keys[0]},
    }
    for t, e in shadow[:len(singles)]:
        if e not in (".pptx", ".odt", ".xlsx", ".tgz", ".tbz2", ".txz", ".gz", ".bz2", ".xz"):   # suffix/encoding maps of hostile_shadow, stock encodings
            canary["hostile_shadow"]["x" + e] = t
        canary["hostile_only"]["x" + e] = t
    return cfgs, extra, canary


DISPATCH_STEMS = ["report", "my report", "a.b.c", "x.pdf", "ünïcödé 文件", "q?x=1#f", "archive.tar", "UPPER.DOCX", "x.", "~$report", "._report", "#report#", "report~", " lead",
                  "~WRL0003", "~draft", "~", "$HOME", "%TEMP%", "-rf", "..x"]
# what a symbolic link may point to (the link's own name is what was asked for; the target's name must not matter)
# leading bytes of real formats: a file's content must never decide which extractor read_file runs (the name does, exactly as for get_extractor)
CONTENT_MAGICS = {
    "rtf": "{\\rtf1\\ansi\\deff0 x}", "pdf": "%PDF-1.4\n%\u00e2\u00e3\n", "zip": "PK\x03\x04\x14\x00\x00\x00\x08\x00", "ole": "\u00d0\u00cf\x11\u00e0\u00a1\u00b1\x1a\u00e1" + "\x00" * 24,
    "html": "<!DOCTYPE html><html><body>x</body></html>", "xml": "<?xml version=\"1.0\"?><a/>", "mbox": "From a@b Mon Jan  2 03:04:05 2023\nSubject: x\n\nx\n",
    "eml": "Received: by x\nFrom: a@b\nSubject: x\nMIME-Version: 1.0\n\nx\n", "gzip": "\x1f\u008b\x08\x00\x00\x00\x00\x00", "7z": "7z\u00bc\u00af\x27\x1c\x00\x04",
    "bz2": "BZh91AY&SY", "xz": "\u00fd7zXZ\x00", "tar": "x" * 257 + "ustar\x0000", "json": "{\"a\": 1}", "csv": "a,b\n1,2\n", "utf16": "\u00ff\u00fex\x00", "empty": "",
    "mhtml": "MIME-Version: 1.0\nContent-Type: multipart/related; boundary=\"b\"\n\n--b\nContent-Type: text/html\n\n<p>x</p>\n--b--\n", "epub": "PK\x03\x04\n\x00\x00\x00\x00\x00mimetypeapplication/epub+zip",
}
LINK_TARGETS = ["store/3f2a9c1d7e", "blob", "target.html", "target.pdf", "target.docx", "target.txt", "target.zzz", "target.tar.gz", "TARGET.ZIP", "dir.pdf/noext", "x."]
DISPATCH_SUBS = ["", "dir.with.dots", "my dir.pdf", "a.tar.gz"]


def _dispatch_items(run):
    rng = run.rng
    items = []
    for ext in sorted(DOC_TABLE):
        forms = [ext, ext.upper(), _mix(rng, ext)]
        for f in forms:
            for _ in range(run.n(2, 8)):
                items.append({"name": rng.choice(DISPATCH_STEMS) + "." + f, "sub": rng.choice(DISPATCH_SUBS),
                              "pathobj": rng.random() < 0.5})
        items.append({"name": "." + ext, "sub": "", "pathobj": False})
    for ext in ["zzz", "yyy", "exe", "png", "xhtml", "text", "markdown", "bat", "xml", "docxx", "pd", "vq0", "vq3", "vsfx",
                "tar.zst", "gzx", "doc x", "pdf~", "7zip"]:
        for f in (ext, ext.upper()):
            items.append({"name": rng.choice(DISPATCH_STEMS) + "." + f, "sub": rng.choice(DISPATCH_SUBS), "pathobj": rng.random() < 0.5})
    for n in ["noext", "trailingdot.", "README", "x.tar.gz.txt", "x.txt.tar.gz", "x.tar.gz.bak"]:
        items.append({"name": n, "sub": "", "pathobj": False})
    # read_file through symbolic links: a link with a routed / unrouted / no extension to a target named differently (relative or absolute link,
    # link chains, a linked directory on the way): the name that was asked for decides, exactly as for get_extractor
    exts = sorted(DOC_TABLE)
    for ext in (exts if not run.quick else rng.sample(exts, 20)):
        for tgt in rng.sample(LINK_TARGETS, run.n(2, 6)):
            items.append({"name": rng.choice(DISPATCH_STEMS[:6]) + "." + rng.choice((ext, ext.upper())), "sub": rng.choice(DISPATCH_SUBS), "pathobj": rng.random() < 0.5,
                          "link": tgt, "abs": rng.random() < 0.5, "chain": rng.random() < 0.25})
    for name in ["latest", "noext", "link.zzz", "link.", "x.tar.gz.bak", "current.text"]:
        for tgt in ("target.docx", "target.pdf", "target.txt", "target.tar.gz", "blob"):
            items.append({"name": name, "sub": "", "pathobj": rng.random() < 0.5, "link": tgt, "abs": rng.random() < 0.5, "chain": False})
    for ext in rng.sample(exts, run.n(6, 30)):
        items.append({"name": "f." + ext, "sub": "", "pathobj": False, "dirlink": rng.choice(("real.dir.pdf", "realdir", "real.zip"))})
    # the path as a caller in that directory would give it: relative (bare name, ./name, sub/name, ../dir/name) instead of absolute; every dispatch
    # stem (names starting with ~, $, %, - included) x a sample of extensions
    for stem in DISPATCH_STEMS:
        for ext in rng.sample(exts, run.n(3, 12)):
            for rel in ("bare", "dot", "sub", "updir"):
                items.append({"name": stem + "." + rng.choice((ext, ext.upper())), "sub": "rel dir", "pathobj": rng.random() < 0.5, "rel": rel})
    # content of one format under the name of another: every routed extension x leading bytes of every real format, also for unrouted and missing extensions
    magics = sorted(CONTENT_MAGICS)
    for ext in exts:
        for m in magics:
            items.append({"name": rng.choice(DISPATCH_STEMS[:5]) + "." + rng.choice((ext, ext.upper(), _mix(rng, ext))), "sub": rng.choice(DISPATCH_SUBS), "pathobj": rng.random() < 0.5, "content": m})
    for name in ("noext", "x.zzz", "x.text", "README", "x.doc.bak"):
        for m in rng.sample(magics, run.n(4, len(magics))):
            items.append({"name": name, "sub": "", "pathobj": False, "content": m})
    return items


SEQ_TYPES = ["text/plain", "application/pdf", "text/html", "application/zip", "message/rfc822", "application/x-verif-unknown",
             "Text/HTML", "APPLICATION/PDF", "text/plain; charset=utf-8", "application/zip ", " message/rfc822", "Text/Plain;format=flowed", "application/PDF;"]


def _sequence_cases(run, cfgs, canary, wl, universe):
    """In-process sequences: the same path strings asked after every change of the MIME database (both directions)."""
    import mimetypes

    rng = run.rng
    by_name = {c["name"]: {k: v for k, v in c.items() if not k.startswith("_")} for c in cfgs}
    idx: dict = {}
    for i, g in enumerate(wl.group):
        idx.setdefault(g, []).append(i)

    def pick(g, n):
        lst = idx.get(g, [])
        return rng.sample(lst, min(n, len(lst)))
    mapped = {k.lstrip(".").lower() for k in list(mimetypes.suffix_map) + list(mimetypes.encodings_map)} | {"vsfx", "venc"}
    for c in cfgs:
        mapped |= {k.lstrip(".") for k in c.get("suffix", {})} | {k.lstrip(".") for k in c.get("enc", {})}
    unrouted = [e for e in universe if e not in DOC_TABLE and e.isascii() and e.isalnum() and len(e) <= 8 and e not in mapped]
    cases = []
    for sid in range(run.n(6, 24)):
        sel = (pick("G", run.n(60, 200)) + pick("C", run.n(150, 500)) + pick("A", 30) + pick("B-dir", 30) + pick("E", 20) + pick("H", 20)
               + pick("F", 40) + pick("D", 20))
        paths = [wl.paths[i] for i in sel]
        inc = []
        for e in rng.sample(unrouted, min(5, len(unrouted))) + [f"sq{sid}n{j}" for j in range(2)]:
            names = ["f." + e, "dir.pdf/a.b." + e, "my report." + e.upper()]
            paths += names
            inc.append((rng.choice(SEQ_TYPES), "." + e, names[0]))
        order = [rng.choice(sorted(by_name)) for _ in range(rng.randint(4, 7))]
        # both directions at least once per sequence: types present -> emptied -> present again
        order[rng.randrange(len(order))] = "empty"
        order = [rng.choice(("default", "hostile_keys"))] + order + [rng.choice(("default", "hostile_only", "hostile_keys"))]
        steps = []
        for name in order:
            steps.append({"name": name, "cfg": by_name[name], "canary": canary[name]})
            live = []
            for _ in range(rng.randint(0, 3)):
                if live and rng.random() < 0.5:
                    t, e, probe = live.pop(rng.randrange(len(live)))
                    steps.append({"name": "type-removed", "remove": [e], "canary": {probe: None}})
                else:
                    t, e, probe = rng.choice(inc)
                    if any(x[1] == e for x in live):
                        continue
                    live.append((t, e, probe))
                    steps.append({"name": "type-added", "add": [[t, e]], "canary": {probe: t}})
        cases.append({"k": "seq", "id": f"s{sid}", "steps": steps, "paths": paths})
    return cases


def _first_use_cases(run):
    """One fresh process per documented extractor (+ mixed pairs): 8 threads released together ask for spellings of names that route to it."""
    rng = run.rng
    by_fn: dict = {}
    for ext, fn in sorted(DOC_TABLE.items()):
        by_fn.setdefault(fn, []).append(ext)
    cases = []

    def names(fn, n):
        out = []
        for _ in range(n):
            ext = rng.choice(by_fn[fn])
            out.append(rng.choice(DIRS[:8]) + rng.choice(STEMS[:10]) + "." + rng.choice((ext, ext.upper(), _mix(rng, ext))))
        return out
    fns = sorted(by_fn)
    for rep in range(run.n(1, 4)):
        for fn in fns:
            cases.append({"k": "firstuse", "id": f"f{len(cases)}", "paths": names(fn, 8), "fns": [fn]})
        for _ in range(run.n(4, 20)):
            a, b = rng.sample(fns, 2)
            cases.append({"k": "firstuse", "id": f"f{len(cases)}", "paths": names(a, 4) + names(b, 4), "fns": [a, b]})
        # formats whose extractor modules live in one sub-package (read from the router's registry, as workload only): 2-4 of them at once
        try:
            from sharepoint2text.parsing import router
            by_pkg: dict = {}
            for _ft, (mod, fn) in sorted(getattr(router, "_EXTRACTOR_REGISTRY", {}).items()):
                if fn in by_fn:
                    by_pkg.setdefault(mod.rpartition(".")[0], set()).add(fn)
            for pkg, members in sorted(by_pkg.items()):
                members = sorted(members)
                if len(members) < 2:
                    continue
                for _ in range(run.n(6, 12)):
                    pick = rng.sample(members, min(len(members), rng.randint(2, 4)))
                    ps = [n_ for f_ in pick for n_ in names(f_, 8 // len(pick))]
                    cases.append({"k": "firstuse", "id": f"f{len(cases)}", "paths": ps, "fns": pick})
        except Exception as e:  # workload only
            run.extras["router_registry_unreadable_for_first_use"] = repr(e)
    return cases


def _judge_first_use(run, cases, res):
    n_threads = n_cold = 0
    for c in cases:
        o = res.get(c["id"])
        if not o or "first" not in o or not o.get("lazy"):
            run.inconclusive_cases += 1
            run.extras.setdefault("bad_observations", []).append({"config": "first-use", "case": c["id"], "obs": str(o)[:300]})
            continue
        cold = True
        # which modules the case makes the process import: one; two of one sub-package (whose __init__ imports its siblings); two of different ones
        mods = sorted({r[3] for r in o["first"] if r is not None and len(r) > 3 and r[3]})
        how = "concurrent-first-use"
        if len(mods) > 1:
            how += "-of-sibling-modules" if len({m.rpartition(".")[0] for m in mods}) < len(mods) else "-of-two-formats"
        for p, r in zip(c["paths"], o["first"]):
            if r is None:
                run.inconclusive_cases += 1
                continue
            s_, g = r[0], r[1]
            same = r[2] if len(r) > 2 else None
            cls, ext, hidden = model(p)
            want = DOC_TABLE[ext]
            n_threads += 1
            feat = f"{cls}-ext+{how}"
            rep = {"kind": "firstuse", "case": c, "path": p, "obs": r}
            mod = g[2:].split(":")[0] if g.startswith("R>") else None
            if mod and mod in o["loaded_before"]:
                cold = False
            if isinstance(s_, str):
                run.violation(f"C07:router:{feat}:is-supported-file-raises", f"is_supported_file({p!r}) raised {s_[2:]} while {len(c['paths'])} threads used the format for the first time", rep)
            if g.startswith("E:"):
                run.violation(f"C07:router:{feat}:get-extractor-raises-other-than-not-supported",
                              f"get_extractor({p!r}) raised {g[2:]} while {len(c['paths'])} threads asked for {c['fns']} for the first time in the process (is_supported_file -> {s_})", rep)
            elif g == "N":
                run.violation(f"C07:router:{feat}:documented-extension-not-routed", f"get_extractor({p!r}) raises not-supported on first concurrent use; README documents .{ext} -> {want}", rep)
            elif same is not True:
                run.violation(f"C07:router:{feat}:differs-from-the-answer-given-alone", f"get_extractor({p!r}) -> {g[2:]} on first concurrent use, another object ({same}) when asked again alone", rep)
            if s_ == 0:
                run.violation(f"C07:router:{feat}:documented-extension-unsupported", f"is_supported_file({p!r}) is False on first concurrent use", rep)
            run.case(f"firstuse|{','.join(c['fns'])}|{cls}|{s_}|{g[:2]}")
        n_cold += 1 if cold else 0
    run.count("first_use_thread_observations", n_threads)
    run.count("first_use_cases_with_unloaded_extractor_module", n_cold)
    run.require("first_use_thread_observations", n_threads, int(0.85 * 8 * len(cases)))
    run.require("first_use_cases_with_unloaded_extractor_module", n_cold, int(0.9 * len(cases)))


def _judge_sequences(run, seq_cases, res, ctx):
    """Every (state, path) observation of a sequence is judged like a fresh one; flips of the decision between consecutive
    states are counted as evidence that the sequences really moved the MIME fallback in both directions."""
    n_steps = n_eval = up = down = 0
    for c in seq_cases:
        o = res.get(c["id"])
        if not o or "seq" not in o or len(o["seq"]) != len(c["steps"]):
            run.inconclusive_cases += 1
            run.extras.setdefault("bad_observations", []).append({"config": "sequence", "case": c["id"], "obs": str(o)[:400]})
            continue
        inv_doc: dict = {}
        for pub, ident in o["doc"].items():
            if ":" in ident and ident.split(":")[0] not in ("RAISED", "AMBIGUOUS"):
                inv_doc.setdefault(ident, pub)
        prev = None
        prev_name = "start"
        for j, (step, so) in enumerate(zip(c["steps"], o["seq"])):
            wrong = {n: (so["canary"].get(n), w) for n, w in step.get("canary", {}).items() if so["canary"].get(n) != w}
            if wrong:
                run.inconclusive(f"sequence {c['id']} step {j} ({step['name']}): MIME change not in force: {wrong}")
                prev = None
                continue
            n_steps += 1
            cfg_like = {"name": step["name"], "seq_steps": [{k: v for k, v in st.items() if k != "canary"} for st in c["steps"][: j + 1]]}
            cur = []
            for pi, (p, (s_, ti)) in enumerate(zip(c["paths"], so["r"])):
                e = so["t"][ti]
                cls, ext, hidden, strong, d = _judge_route(run, cfg_like, p, (s_, e), inv_doc, ctx, where="router-after-mime-change")
                cur.append(d)
                n_eval += 1
                flip = "="
                if prev is not None and prev[pi][0] != d[0] and not strong:
                    flip = "+" if d[0] == 1 else "-"
                    up += 1 if d[0] == 1 else 0
                    down += 1 if d[0] == 0 else 0
                run.case(f"seq|{prev_name}>{step['name']}|{cls}|{hidden}|{flip}|{d[0]}|{d[1]}")
            prev = cur
            prev_name = step["name"]
    run.count("sequence_steps", n_steps)
    run.count("sequence_route_evaluations", n_eval)
    run.count("sequence_decisions_flipped_to_supported", up)
    run.count("sequence_decisions_flipped_to_unsupported", down)
    run.require("sequence_steps", n_steps, run.n(40, 150))
    run.require("sequence_route_evaluations", n_eval, run.n(10000, 60000))
    run.require("sequence_decisions_flipped_to_supported", up, run.n(50, 500))
    run.require("sequence_decisions_flipped_to_unsupported", down, run.n(50, 500))


# --------------------------------------------------------------------------------------------------
# parent side: oracle
# --------------------------------------------------------------------------------------------------
def _reached(e: str):
    """idents reached by the object get_extractor returned (None when it raised)."""
    if e[:2] in ("S>", "O>", "U>"):
        return e[2:].split(",")
    if e.startswith("U:"):
        return []
    return None


_INTERN: dict = {}


class Ctx:
    def __init__(self):
        self.counters: dict = {}
        self.covered: set = set()      # documented extensions read_file dispatched correctly
        self.samples: dict = {}

    def bump(self, k, n=1):
        self.counters[k] = self.counters.get(k, 0) + n

    def sample(self, tag, obj):
        if tag not in self.samples:
            self.samples[tag] = dict(obj, kind=tag)


def _judge_route(run, cfg, path, obs, inv_doc, ctx, where="router"):
    """Judge one (config, path) observation; returns the decision tuple used for cross comparisons."""
    sup, e = obs
    cname = cfg["name"]
    cls, ext, hidden = model(path)
    strong = cls in ("base", "alias", "compound") and not hidden
    feat = (f"{cls}-ext" if strong else ("dotfile" if hidden else cls)) + "@" + cname
    rep = {"kind": "route", "config": cfg, "path": path, "obs": [sup, e], "model": [cls, ext, hidden]}
    reached = _reached(e)
    returned = reached is not None
    pubs = sorted({inv_doc.get(i, "?" + i) for i in reached}) if returned else []
    if isinstance(sup, str):
        run.violation(f"C07:{where}:{feat}:is-supported-file-raises", f"[{cname}] is_supported_file({path!r}) raised {sup[2:]}", rep)
    if e.startswith("E:"):
        run.violation(f"C07:{where}:{feat}:get-extractor-raises-other-than-not-supported",
                      f"[{cname}] get_extractor({path!r}) raised {e[2:]} (is_supported_file -> {sup})", rep)
    elif not isinstance(sup, str):
        if sup == 1 and not returned:
            run.violation(f"C07:{where}:{feat}:supported-but-get-extractor-raises",
                          f"[{cname}] is_supported_file({path!r}) is True but get_extractor raises ExtractionFileFormatNotSupportedError", rep)
        elif sup == 0 and returned:
            run.violation(f"C07:{where}:{feat}:unsupported-but-get-extractor-returns",
                          f"[{cname}] is_supported_file({path!r}) is False but get_extractor returns {pubs or e}", rep)
    if returned and len(reached) != 1:
        run.violation(f"C07:{where}:{feat}:returned-callable-is-not-one-extractor",
                      f"[{cname}] get_extractor({path!r}) returned {e}: it reaches {len(reached)} extractor functions", rep)
    if e.startswith("O>"):
        ctx.bump("stub_bypassed")
    if e.startswith("U>"):
        ctx.bump("wrapper_returned")
    if strong:
        want = DOC_TABLE[ext]
        if sup == 0:
            run.violation(f"C07:{where}:{feat}:documented-extension-unsupported",
                          f"[{cname}] is_supported_file({path!r}) is False; README documents .{ext} -> {want}", rep)
        if returned and pubs != [want]:
            run.violation(f"C07:{where}:{feat}:wrong-extractor",
                          f"[{cname}] get_extractor({path!r}) -> {pubs or e}; README documents .{ext} -> {want}", rep)
        if e == "N":
            run.violation(f"C07:{where}:{feat}:documented-extension-not-routed",
                          f"[{cname}] get_extractor({path!r}) raises not-supported; README documents .{ext} -> {want}", rep)
    else:
        if returned and sup == 1:
            ctx.bump("mime_fallback_supported@" + cname)
            ctx.sample("mime-fallback@" + cname, {"config": cname, "path": path, "is_supported_file": sup, "get_extractor": e})
    dec = (sup, ",".join(pubs) if returned else e)
    dec = _INTERN.setdefault(dec, dec)
    return cls, ext, hidden, strong, dec


def _run_config(cfg, cases, results, errors):
    from vlib import pool

    try:
        for c, obs in pool.run_cases(TASK, cases, workers=cfg["_workers"], deadline_s=180, fresh_worker_per_case=bool(cfg.get("_fresh")),
                                     init={k: v for k, v in cfg.items() if not k.startswith("_")}):
            results[c["id"]] = obs
    except Exception as e:  # pragma: no cover - harness failure
        errors.append(f"{cfg['name']}: {type(e).__name__}: {e}")


def main(run):
    from vlib import core, pool  # noqa: F401  (pool imported here so that the per-config threads do not race on the import)

    run.rule = ("case = (MIME configuration, generator group, extension class, case kind, outcome), or (MIME-database change previous>current inside one "
                "process, extension class, decision flipped?, outcome) for the in-process sequences; non-trivial = both "
                "is_supported_file and get_extractor were evaluated on the path in a worker of that configuration and the "
                "returned object was identified through the recording stubs")
    run.assumptions = [
        "the README 'Supported Formats' tables are the specification of extension -> extractor (hand-transcribed in DOC_TABLE)",
        "a dot-file whose whole name is an extension (.pdf, dir/.tar.gz) carries no promise; only agreement is checked",
        "for paths whose trailing extension is not in the README table the MIME fallback may decide; only agreement, "
        "exception type and case-invariance inside one MIME configuration are checked",
    ]
    universe, mime_keys, n_repo_keys, n_router, router_only, n_mt = _universe(run)
    cfgs, extra_exts, canary = _configs(mime_keys)
    wl = Workload(run, universe, mime_keys, extra_exts)
    ditems = _dispatch_items(run)
    run.extras["router_exts_not_in_readme"] = router_only
    run.extras["mime_configurations"] = [c["name"] for c in cfgs]

    per = max(1, core.NCPU // len(cfgs))
    results: dict = {c["name"]: {} for c in cfgs}
    errors: list = []
    threads = []
    nbatches = (len(wl.paths) + BATCH - 1) // BATCH
    for cfg in cfgs:
        cfg["_workers"] = per
        cases = [{"k": "probe", "id": "probe", "names": sorted(canary[cfg["name"]])}]
        # dispatch batches first and last so that both workers of a configuration see some
        dchunks = [ditems[i:i + 60] for i in range(0, len(ditems), 60)]
        for j, ch in enumerate(dchunks):
            cases.append({"k": "dispatch", "id": f"d{j}", "items": ch})
        for b in range(nbatches):
            cases.append({"k": "route", "id": f"r{b}", "paths": wl.paths[b * BATCH:(b + 1) * BATCH]})
        t = threading.Thread(target=_run_config, args=(cfg, cases, results[cfg["name"]], errors), daemon=True)
        t.start()
        threads.append(t)
    first_cases = _first_use_cases(run)
    first_res: dict = {}
    t = threading.Thread(target=_run_config, args=({"name": "default", "lazy": True, "_workers": 4, "_fresh": True}, first_cases, first_res, errors), daemon=True)
    t.start()
    threads.append(t)
    seq_cases = _sequence_cases(run, cfgs, canary, wl, universe)
    seq_res: dict = {}
    t = threading.Thread(target=_run_config, args=({"name": "default", "_workers": 2}, seq_cases, seq_res, errors), daemon=True)
    t.start()
    threads.append(t)
    for t in threads:
        t.join()
    for e in errors:
        run.inconclusive("worker pool failed: " + e)

    ctx = Ctx()
    decisions: dict = {}      # config -> list aligned with wl.paths of decision tuples (or None)
    strong_flags = [None] * len(wl.paths)
    ext_cov_route: set = set()
    idents_seen: set = set()
    n_sup = n_get = 0
    bad_obs = 0
    for cfg in cfgs:
        cname = cfg["name"]
        res = results[cname]
        # ---------------------------------------------------------------- the configuration really was in force
        pr = res.get("probe")
        if not pr or "canary" not in pr:
            run.inconclusive(f"no probe observation for MIME configuration {cname}: {str(pr)[:300]}")
            continue
        wrong = {n: (pr["canary"].get(n), w) for n, w in canary[cname].items() if pr["canary"].get(n) != w}
        if wrong:
            run.inconclusive(f"MIME configuration {cname} not in force in the worker: {wrong}")
        run.count("mime_config_in_force@" + cname, 0 if wrong else 1)
        if not pr.get("same_entry"):
            run.inconclusive("sharepoint2text.get_extractor / is_supported_file are no longer the router's functions; "
                             "only the public names are monitored")
        doc = pr["doc"]
        unresolved = {p: i for p, i in doc.items() if ":" not in i or i.split(":")[0] in ("RAISED", "AMBIGUOUS") or i == "MISSING"}
        run.count("documented_names_resolved@" + cname, len(doc) - len(unresolved))
        if unresolved:
            run.extras.setdefault("documented_names_unresolved", {})[cname] = unresolved
        inv_doc: dict = {}
        for pub, ident in doc.items():
            if pub not in unresolved:
                inv_doc.setdefault(ident, pub)
        if len(set(doc[p] for p in doc if p not in unresolved)) != len(doc) - len(unresolved):
            run.extras["documented_names_share_an_extractor"] = True
        run.extras["stubs_installed"] = pr.get("nstubs")
        run.extras["stub_rebinds_in_other_modules"] = pr.get("rebinds")
        if pr.get("import_failures"):
            run.extras["extractor_import_failures"] = pr["import_failures"]

        # ---------------------------------------------------------------- routing observations
        dec = [None] * len(wl.paths)
        for b in range(nbatches):
            o = res.get(f"r{b}")
            if not o or "r" not in o:
                bad_obs += 1
                run.inconclusive_cases += 1
                run.extras.setdefault("bad_observations", []).append({"config": cname, "batch": b, "obs": str(o)[:400]})
                continue
            n_sup += o["n_sup"]
            n_get += o["n_get"]
            tbl = o["t"]
            for off, (s, ti) in enumerate(o["r"]):
                i = b * BATCH + off
                p = wl.paths[i]
                e = tbl[ti]
                cls, ext, hidden, strong, d = _judge_route(run, cfg, p, (s, e), inv_doc, ctx)
                dec[i] = d
                strong_flags[i] = strong
                if strong and d[0] == 1:
                    ext_cov_route.add(ext)
                r = _reached(e)
                if r:
                    idents_seen.update(r)
                run.count("paths@" + cname)
                run.count("class:" + cls + ("(dotfile)" if hidden else ""))
                run.case(f"{cname}|{wl.group[i]}|{cls}|{hidden}|{_casekind(p, ext)}|{d[0]}|{d[1]}")
                if strong and wl.group[i] == "B-dir" and ext == "pot":
                    ctx.sample("routed@" + cname, {"config": cname, "path": p, "is_supported_file": s, "get_extractor": e})
        decisions[cname] = dec

        # ---------------------------------------------------------------- alias == base, case-invariance (inside one configuration)
        for ia, ib in wl.alias_pairs:
            if dec[ia] is None or dec[ib] is None:
                continue
            run.count("alias_twins_compared")
            if dec[ia] != dec[ib]:
                run.violation(f"C07:router:alias-ext@{cname}:alias-differs-from-base",
                              f"[{cname}] {wl.paths[ia]!r} -> {dec[ia]} but base {wl.paths[ib]!r} -> {dec[ib]}",
                              {"kind": "twins", "config": cfg, "paths": [wl.paths[ia], wl.paths[ib]], "decisions": [dec[ia], dec[ib]]})
        for g in wl.case_groups:
            ds = [dec[i] for i in g]
            if any(d is None for d in ds):
                continue
            run.count("case_groups_compared")
            if any(d != ds[0] for d in ds[1:]):
                cls = model(wl.paths[g[0]])[0]
                run.violation(f"C07:router:{cls}-ext@{cname}:case-variant-differs",
                              f"[{cname}] case variants decide differently: " + "; ".join(f"{wl.paths[i]!r} -> {dec[i]}" for i in g),
                              {"kind": "twins", "config": cfg, "paths": [wl.paths[i] for i in g], "decisions": ds})

        # ---------------------------------------------------------------- read_file dispatch
        _judge_dispatch(run, cfg, res, ditems, inv_doc, ctx)

    # -------------------------------------------------------------------- independence of the MIME database
    names = [c["name"] for c in cfgs if c["name"] in decisions]
    mime_dep = 0
    for i, p in enumerate(wl.paths):
        ds = [(n, decisions[n][i]) for n in names if decisions[n][i] is not None]
        if len(ds) < 2:
            continue
        differs = any(d != ds[0][1] for _, d in ds[1:])
        if strong_flags[i]:
            run.count("routed_paths_compared_across_mime_configs")
            if differs:
                cls, ext, _h = model(p)
                run.violation(f"C07:router:{cls}-ext:decision-changes-with-mime-database",
                              f"{p!r} (routed extension .{ext}) decides differently per MIME configuration: {ds}",
                              {"kind": "cross", "path": p, "configs": [c for c in cfgs if c['name'] in names], "decisions": ds})
        elif differs:
            mime_dep += 1
    run.count("unrouted_paths_whose_decision_depends_on_mime_db", mime_dep)

    # -------------------------------------------------------------------- in-process sequences of MIME-database changes
    _judge_sequences(run, seq_cases, seq_res, Ctx())
    # -------------------------------------------------------------------- concurrent first use of a format in a fresh process
    _judge_first_use(run, first_cases, first_res)

    # -------------------------------------------------------------------- evidence and thresholds
    for k, v in sorted(ctx.counters.items()):
        run.count(k, v)
    run.count("documented_extensions_dispatched_by_read_file", len(ctx.covered))
    for tag in ("routed@default", "routed@hostile_shadow", "mime-fallback@hostile_only", "read_file@default", "read_file@hostile_shadow"):
        if tag in ctx.samples:
            run.samples.append(ctx.samples[tag])
    total = len(wl.paths) * len(cfgs)
    n_disp = sum(run.counters.get("read_file_calls@" + c["name"], 0) for c in cfgs)      # every read_file case also asks both entry points about its path
    n_sup += n_disp
    n_get += n_disp
    run.count("is_supported_file_evaluations", n_sup)
    run.count("get_extractor_evaluations", n_get)
    run.count("extensions_in_universe", len(universe))
    run.count("extensions_from_mimetypes_db", n_mt)
    run.count("extensions_from_router_tables", n_router)
    run.count("documented_extensions_routed", len(ext_cov_route))
    run.count("distinct_extractors_returned", len(idents_seen))
    run.count("mime_types_probed", len(mime_keys))
    run.extras["paths_per_config"] = len(wl.paths)
    run.extras["finite_subspaces_complete"] = {"upper/lower assignments of every documented extension (group A)": wl.n_case_variants}
    run.extras["dispatch_files_per_config"] = len(ditems)
    nd = len(ditems) * len(cfgs)
    n_routed_d = sum(1 for it in ditems if _strong_name(it["name"])) * len(cfgs)
    run.require("is_supported_file_evaluations", n_sup, int(0.98 * (total + nd)))
    run.require("get_extractor_evaluations", n_get, int(0.98 * (total + nd)))
    for cfg in cfgs:
        run.require("paths@" + cfg["name"], run.counters.get("paths@" + cfg["name"], 0), int(0.98 * len(wl.paths)))
        run.require("mime_config_in_force@" + cfg["name"], run.counters.get("mime_config_in_force@" + cfg["name"], 0), 1)
        run.require("documented_names_resolved@" + cfg["name"], run.counters.get("documented_names_resolved@" + cfg["name"], 0), len(PUBLIC))
        run.require("read_file_calls_on_foreign_content@" + cfg["name"], run.counters.get("read_file_calls_on_foreign_content@" + cfg["name"], 0), run.n(1000, 1000))
        run.require("read_file_calls_with_relative_paths@" + cfg["name"], run.counters.get("read_file_calls_with_relative_paths@" + cfg["name"], 0), run.n(200, 800))
        run.require("read_file_calls_through_symlinks@" + cfg["name"], run.counters.get("read_file_calls_through_symlinks@" + cfg["name"], 0), run.n(60, 300))
        run.require("read_file_stub_hits@" + cfg["name"], run.counters.get("read_file_stub_hits@" + cfg["name"], 0),
                    int(0.9 * n_routed_d / len(cfgs)))
    run.require("documented_extensions_routed", len(ext_cov_route), len(DOC_TABLE))
    run.require("documented_extensions_dispatched_by_read_file", run.counters.get("documented_extensions_dispatched_by_read_file", 0), len(DOC_TABLE))
    run.require("distinct_extractors_returned", len(idents_seen), len(PUBLIC))
    run.require("extensions_from_router_tables", n_router, 1)
    run.require("extensions_from_mimetypes_db", n_mt, 100)
    run.require("mime_types_of_fallback_table_probed", n_repo_keys, 1)
    run.require("alias_twins_compared", run.counters.get("alias_twins_compared", 0), len(ALIAS_OF) * len(cfgs))
    run.require("routed_paths_compared_across_mime_configs", run.counters.get("routed_paths_compared_across_mime_configs", 0), 1000)
    run.require("unrouted_paths_whose_decision_depends_on_mime_db", mime_dep, 10)
    for n in ("default", "hostile_shadow", "hostile_keys", "hostile_only"):
        run.require("mime_fallback_supported@" + n, run.counters.get("mime_fallback_supported@" + n, 0), 10)
    if run.counters.get("stub_bypassed", 0):
        run.inconclusive(f"get_extractor returned the real (un-stubbed) function {run.counters['stub_bypassed']}x: "
                         "the recording stubs are bypassed, read_file dispatch cannot be observed")
    if bad_obs > 0.02 * nbatches * len(cfgs):
        run.inconclusive(f"{bad_obs} routing batches without observation")


def _strong_name(name: str) -> bool:
    cls, _e, hidden = model(name)
    return cls in ("base", "alias", "compound") and not hidden


def _judge_dispatch(run, cfg, res, ditems, inv_doc, ctx):
    cname = cfg["name"]
    covered = ctx.covered
    j = 0
    pos = 0
    while pos < len(ditems):
        chunk = ditems[pos:pos + 60]
        o = res.get(f"d{j}")
        j += 1
        pos += 60
        if not o or "d" not in o:
            run.inconclusive_cases += 1
            run.extras.setdefault("bad_observations", []).append({"config": cname, "dispatch": j - 1, "obs": str(o)[:400]})
            continue
        for it, ob in zip(chunk, o["d"]):
            name = it["name"]
            cls, ext, hidden, strong, d = _judge_route(run, cfg, name, (ob["sup"], ob["get"]), inv_doc, ctx, where="read_file-path")
            if it.get("rel"):
                run.count("read_file_calls_with_relative_paths@" + cname)
            via = "+relative-path" if it.get("rel") else "+symlink" if it.get("link") else ("+linked-directory" if it.get("dirlink") else ("+content-of-another-format" if it.get("content") is not None else ""))
            if it.get("content") is not None:
                run.count("read_file_calls_on_foreign_content@" + cname)
            feat = (f"{cls}-ext" if strong else ("dotfile" if hidden else cls)) + via + "@" + cname
            if via:
                run.count("read_file_calls_through_symlinks@" + cname)
            rep = {"kind": "dispatch", "config": cfg, "item": it, "obs": ob}
            hits = ob["hits"]
            hit_pubs = sorted({inv_doc.get(h, "?" + h) for h in hits})
            reached = _reached(ob["get"])
            run.count("read_file_calls@" + cname)
            if hits:
                run.count("read_file_stub_hits@" + cname)
            run.case(f"{cname}|read_file|{cls}|{hidden}|{_casekind(name, ext)}|{it.get('pathobj')}|{ob['res'][:2]}|{','.join(hit_pubs)}")
            if strong and cls == "alias":
                ctx.sample("read_file@" + cname, {"config": cname, "read_file": name, "stub_hits": hits, "result": ob["res"]})
            if reached is None:
                # get_extractor refuses the path: read_file must refuse it the same way and run no extractor
                if ob["res"] != "N":
                    run.violation(f"C07:read_file:{feat}:does-not-raise-not-supported",
                                  f"[{cname}] get_extractor refuses {name!r} but read_file -> {ob['res']} (stub hits {hits})", rep)
                if hits:
                    run.violation(f"C07:read_file:{feat}:runs-an-extractor-for-unsupported-path",
                                  f"[{cname}] read_file({name!r}) ran {hit_pubs} although get_extractor refuses the path", rep)
                if strong:
                    pass  # already reported by _judge_route
                continue
            if ob["get"].startswith("O>") and not hits:
                continue    # stubs bypassed: inconclusive through the stub_bypassed counter / stub-hit thresholds
            if ob["res"] == "N":
                run.violation(f"C07:read_file:{feat}:rejects-path-get-extractor-accepts",
                              f"[{cname}] read_file({name!r}) raises not-supported but get_extractor returns {d[1]}", rep)
                continue
            if len(hits) != 1 or sorted(set(hits)) != sorted(set(reached)):
                run.violation(f"C07:read_file:{feat}:dispatches-elsewhere",
                              f"[{cname}] read_file({name!r}) called {hits or 'no extractor'} ({ob['res']}); get_extractor returns {reached}", rep)
                continue
            if strong:
                if hit_pubs != [DOC_TABLE[ext]]:
                    run.violation(f"C07:read_file:{feat}:wrong-extractor",
                                  f"[{cname}] read_file({name!r}) ran {hit_pubs}; README documents .{ext} -> {DOC_TABLE[ext]}", rep)
                else:
                    covered.add(ext)
            if not ob["res"].startswith("ok:"):
                run.violation(f"C07:read_file:{feat}:fails-after-dispatch",
                              f"[{cname}] read_file({name!r}) -> {ob['res']} although the (stubbed) extractor returned normally", rep)


def replay(run, doc):
    """Re-run the recorded case in a fresh worker of the recorded MIME configuration and print what it does now."""
    from vlib import pool

    case = doc.get("case", doc)
    kind = case.get("kind")
    cfgs = case.get("configs") or [case.get("config") or {"name": "default"}]
    paths = case.get("paths") or ([case["path"]] if "path" in case else [])
    for cfg in cfgs:
        init = {k: v for k, v in cfg.items() if not k.startswith("_")}
        if cfg.get("seq_steps"):
            init = {}
            cases = [{"k": "seq", "id": "s0", "steps": cfg["seq_steps"], "paths": paths}]
        elif kind == "dispatch":
            cases = [{"k": "dispatch", "id": "d0", "items": [case["item"]]}]
        else:
            cases = [{"k": "route", "id": "r0", "paths": paths}]
        for c, obs in pool.run_cases(TASK, cases, workers=1, init=init, deadline_s=120):
            inv = {}
            for pub, ident in (obs.get("doc") or {}).items():
                inv.setdefault(ident, pub)
            ctx = Ctx()
            if "seq" in obs:
                for j, so in enumerate(obs["seq"]):
                    for p, (s_, ti) in zip(paths, so["r"]):
                        print(f"[after step {j}: {cfg['seq_steps'][j].get('name')}] {p!r}: is_supported_file={s_} get_extractor={so['t'][ti]} model={model(p)}")
                        if j == len(obs["seq"]) - 1:
                            _judge_route(run, cfg, p, (s_, so["t"][ti]), inv, ctx, where="router-after-mime-change")
                    run.case(f"replay|seq|{j}")
            elif "r" in obs:
                for p, (s, ti) in zip(paths, obs["r"]):
                    e = obs["t"][ti]
                    print(f"[{cfg['name']}] {p!r}: is_supported_file={s} get_extractor={e} model={model(p)}")
                    _judge_route(run, cfg, p, (s, e), inv, ctx)
                    run.case(f"replay|{cfg['name']}|{p}")
                ds = [(obs["r"][i][0], obs["t"][obs["r"][i][1]]) for i in range(len(paths))]
                if kind == "twins" and any(d != ds[0] for d in ds[1:]):
                    run.violation(f"C07:router:twins@{cfg['name']}:twin-paths-decide-differently", f"{list(zip(paths, ds))}", case)
            elif "d" in obs:
                print(f"[{cfg['name']}] read_file {case['item']}: {obs['d'][0]}")
                _judge_dispatch(run, cfg, {"d0": obs}, [case["item"]], inv, ctx)
            else:
                print(f"[{cfg['name']}] no observation: {obs}")
                run.inconclusive("replay produced no observation")
    print("recorded:", {k: v for k, v in case.items() if k not in ("config", "configs")})
