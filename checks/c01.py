"""C01 — stable failure surface and termination for arbitrary bytes (exception-surface monitor + CPU budget).

Every case runs in a sandboxed worker: base input (fixture or generated document) -> mutation ->
entry point (extractor directly / read_file on a real temp file / CLI / wrapped as archive member /
wrapped as e-mail attachment).  The worker records what escaped, how many results came out before,
process CPU time and (CLI) exit status + captured stdout/stderr.  The verdict is computed here.
"""
from __future__ import annotations

import io
import os
import sys

from vlib import corpus, pool

LEVEL = "exploration"
CPU_BASE, CPU_PER_BYTE = 2.0, 4e-6


# ------------------------------------------------------------------------------------------ worker side
def work_init(init):
    import sharepoint2text  # noqa
    import sharepoint2text.cli  # noqa
    import mimetypes
    import tempfile
    mimetypes.guess_type("x.txt")
    tempfile.gettempdir()
    from vlib import obs
    for k in corpus.KINDS:
        obs.extractor(k)
    import logging
    logging.disable(logging.CRITICAL)


def _wrap_archive(data: bytes, member_ext: str, how: str) -> tuple[bytes, str]:
    import tarfile
    import zipfile
    good = b"qb00001z hello\n"
    bio = io.BytesIO()
    if how == "zip":
        with zipfile.ZipFile(bio, "w", zipfile.ZIP_DEFLATED) as z:
            z.writestr("a/first.txt", good)
            z.writestr("a/member" + member_ext, data)
            z.writestr("last.txt", good)
        return bio.getvalue(), ".zip"
    with tarfile.open(fileobj=bio, mode="w:gz" if how == "tgz" else "w") as t:
        for name, d in (("a/first.txt", good), ("a/member" + member_ext, data), ("last.txt", good)):
            ti = tarfile.TarInfo(name)
            ti.size = len(d)
            t.addfile(ti, io.BytesIO(d))
    return bio.getvalue(), ".tar.gz" if how == "tgz" else ".tar"


MAIL_VARIANTS = ("eml:named", "eml:named+typed", "eml:nameless+typed", "mbox:named", "mbox:named+typed", "mbox:nameless+typed")


def _wrap_mail(data: bytes, member_ext: str, variant: str = "eml:named") -> tuple[bytes, str]:
    """The input as attachment of a carrier message: .eml or single-message .mbox; with a file name, with the MIME type of
    its extension, or with the type only (no filename / name parameter at all, as forwarded parts often are)."""
    import mimetypes
    from email.message import EmailMessage
    from email import policy
    carrier, how = variant.split(":")
    m = EmailMessage()
    m["From"] = "Sender <sender@example.org>"
    m["To"] = "rcpt@example.org"
    m["Subject"] = "carrier"
    m["Date"] = "Mon, 01 Jan 2024 10:00:00 +0000"
    m["Message-ID"] = "<carrier@example.org>"
    m.set_content("body qb00002z\n")
    ctype = (mimetypes.guess_type("member" + member_ext)[0] if "typed" in how else None) or "application/octet-stream"
    if ctype.startswith(("message/", "multipart/")):
        ctype = "application/octet-stream"        # (add_attachment wants a message object for these)
    maintype, subtype = ctype.split("/", 1)
    kw = {} if how.startswith("nameless") else {"filename": "member" + member_ext}
    m.add_attachment(data, maintype=maintype, subtype=subtype, **kw)
    raw = m.as_bytes(policy=policy.SMTP)
    if carrier == "mbox":
        raw = b"From sender@example.org Mon Jan  1 10:00:00 2024\r\n" + raw.replace(b"\r\nFrom ", b"\r\n>From ") + b"\r\n"
    return raw, carrier


def _wrap_eml(data: bytes, member_ext: str) -> bytes:
    return _wrap_mail(data, member_ext)[0]


def work(case):
    from vlib import obs
    from vlib.worker import arm_cpu
    data = corpus.make_input(case["recipe"])
    mode = case["mode"]
    kind = case["kind"]
    ext = corpus.KIND_EXT[kind] if kind != "zip" else corpus.source_ext(case["recipe"]["src"]) if case.get("native") else ".zip"
    out = {"size": len(data), "mode": mode, "kind": kind}
    budget = CPU_BASE + CPU_PER_BYTE * len(data)
    out["budget"] = budget
    arm_cpu(budget * 10)
    if mode == "direct":
        fn = obs.extractor(kind)
        n = 0
        try:
            for r in fn(io.BytesIO(data), "dir/in" + ext):
                n += 1
                # consuming a mail result includes walking its supported attachments
                if hasattr(r, "iterate_supported_attachments"):
                    for _ in r.iterate_supported_attachments():
                        out["n_attachment_results"] = out.get("n_attachment_results", 0) + 1
        except BaseException as e:
            if type(e).__name__ == "CpuBudget":
                raise
            out["exc"] = obs.exc_record(e, n)
        out["n_results"] = n
        return out
    if mode in ("zip", "tar", "tgz"):
        arch, aext = _wrap_archive(data, ext, mode)
        fn = obs.extractor("zip")
        n, names = 0, []
        try:
            for r in fn(io.BytesIO(arch), "dir/arch" + aext):
                n += 1
                try:
                    names.append(r.get_metadata().filename)
                except Exception:
                    names.append(None)
        except BaseException as e:
            if type(e).__name__ == "CpuBudget":
                raise
            out["exc"] = obs.exc_record(e, n)
        out["n_results"] = n
        out["names"] = names[:6]
        return out
    if mode == "attachment":
        import zlib
        variant = MAIL_VARIANTS[zlib.crc32(repr(case.get("recipe")).encode()) % len(MAIL_VARIANTS)]
        eml, carrier = _wrap_mail(data, ext, variant)
        out["mail_variant"] = variant
        fn = obs.extractor(carrier)
        n = natt = 0
        try:
            for r in fn(io.BytesIO(eml), "dir/carrier." + carrier):
                n += 1
                for _ in r.iterate_supported_attachments():
                    natt += 1
        except BaseException as e:
            if type(e).__name__ == "CpuBudget":
                raise
            out["exc"] = obs.exc_record(e, n)
        out["n_results"] = n
        out["n_attachment_results"] = natt
        return out
    # modes needing a real file
    import tempfile
    with tempfile.TemporaryDirectory(prefix="verif-c01-") as td:
        p = os.path.join(td, "in" + ext)
        with open(p, "wb") as f:
            f.write(data)
        if mode == "read_file":
            import sharepoint2text
            n = 0
            try:
                for _ in sharepoint2text.read_file(p):
                    n += 1
            except BaseException as e:
                if type(e).__name__ == "CpuBudget":
                    raise
                out["exc"] = obs.exc_record(e, n)
            out["n_results"] = n
            return out
        if mode.startswith("cli"):
            from sharepoint2text import cli
            argv = [p] + {"cli": [], "cli-narrow": [], "cli-json": ["--json"], "cli-json-unit": ["--json-unit"], "cli-json-binary": ["--json", "--binary"]}[mode]
            so, se = io.StringIO(), io.StringIO()
            if mode == "cli-narrow":
                # a terminal / pipe with a narrow encoding (C locale, PYTHONIOENCODING=ascii): text that cannot be encoded makes the
                # run fail, and a failed run must leave nothing on stdout - whatever had been written before counts
                class _Narrow(io.TextIOWrapper):
                    def getvalue(self):
                        self.flush()
                        return self.buffer.getvalue().decode("ascii")
                so = _Narrow(io.BytesIO(), encoding="ascii", errors="strict", write_through=True)
            old = sys.stdout, sys.stderr
            # capture at both levels: sys.stdout (what the CLI writes) and file descriptor 1 (what a library that bound
            # the original sys.stdout at import time - xlrd's logfile - writes)
            fdcap = tempfile.TemporaryFile()
            saved_fd = os.dup(1)
            sys.__stdout__.flush()
            os.dup2(fdcap.fileno(), 1)
            sys.stdout, sys.stderr = so, se
            code = None
            try:
                code = cli.main(argv)
            except BaseException as e:
                if type(e).__name__ == "CpuBudget":
                    raise           # (the finally clause below puts the streams and descriptor 1 back; the worker reports the budget)
                out["exc"] = obs.exc_record(e, 0)
            finally:
                sys.stdout, sys.stderr = old
                try:
                    sys.__stdout__.flush()
                except Exception:
                    pass
                os.dup2(saved_fd, 1)
                os.close(saved_fd)
            fdcap.seek(0)
            leaked = fdcap.read().decode("utf-8", "replace")
            fdcap.close()
            out["exit"] = code
            out["stdout_len"] = len(so.getvalue()) + len(leaked)
            out["stdout_leaked_fd1"] = leaked[:120]
            out["stdout_head"] = (leaked + so.getvalue())[:80]
            errlines = se.getvalue().splitlines()
            out["diag_lines"] = sum(1 for ln in errlines if ln.startswith("sharepoint2text:"))
            # the diagnostic is the line that starts with the program name; what follows it on stderr belongs to it (a message with a
            # line break in it); Python warnings of third-party libraries printed before it are not the CLI's diagnostic
            norm = se.getvalue().rstrip("\r\n").replace("\r\n", "\n").replace("\r", "\n").split("\n") if se.getvalue().strip() else []
            first = next((i for i, ln in enumerate(norm) if ln.startswith("sharepoint2text:")), None)
            out["stderr_lines"] = 1 if first is None else len(norm) - first
            out["stderr_head"] = se.getvalue()[:200]
            return out
    raise ValueError(mode)


# ------------------------------------------------------------------------------------------ parent side
def gen_cases(run):
    rng = run.rng
    from vlib.gen import mutate
    sources = corpus.all_sources(n_gen=run.n(2, 6), base_seed=run.seed * 1000)
    # container-aware hostile archives: valid signatures and checksums, counts that cannot be allocated
    for name in ("7z-huge-file-count", "7z-huge-stream-count", "zip-huge-entry-count", "7z-self-referential-encoded-header", "7z-encoded-header-chain"):
        sources.setdefault("zip", []).append(["synth", name])
    sources.setdefault("docx", []).append(["synth", "docx-equations-nested-48"])
    for name in ("msg-attachment-type-case", "msg-attachment-type-case+name-without-extension", "msg-attachment-name-without-extension", "msg-attachment-type-padded"):
        sources.setdefault("msg", []).append(["synth", name])
    for name in ("epub-hrefs-climb-1", "epub-hrefs-climb-2", "epub-hrefs-climb-3", "epub-hrefs-absolute", "epub-hrefs-dotdot-inside"):
        sources.setdefault("epub", []).append(["synth", name])
    all_src = [(k, s) for k, v in sources.items() for s in v]
    per_base = run.n(24, 400)
    modes_extra = ["read_file", "cli", "cli-narrow", "cli-json", "cli-json-unit", "cli-json-binary", "zip", "tar", "tgz", "attachment"]
    # multi-result inputs whose first result is plain ASCII and whose later results are not
    sources.setdefault("zip", []).append(["synth", "zip-ascii-then-nonascii"])
    sources.setdefault("mbox", []).append(["synth", "mbox-ascii-then-nonascii"])
    # members that are themselves compressed streams / archives under every routed name
    sources.setdefault("zip", []).append(["synth", "zip-with-compressed-members"])
    cid = 0
    for kind in corpus.KINDS:
        bases = sources.get(kind, [])
        if not bases:
            continue
        for src in bases:
            native = True
            # unmutated through every entry point
            for mode in ["direct"] + modes_extra:
                if kind in ("zip",) and mode in ("zip", "tar", "tgz", "attachment"):
                    continue   # nested archives are skipped by design
                cid += 1
                yield {"id": cid, "kind": kind, "mode": mode, "native": native, "recipe": {"src": src, "op": None}}
            fams = [("byte", op) for op in mutate.BYTE_OPS]
            if kind in corpus.ZIP_KINDS:
                fams += [("zip", op) for op in mutate.ZIP_OPS] * 2
            if kind in corpus.TEXT_KINDS:
                fams += [("text", op) for op in mutate.TEXT_OPS] * 2
            if kind in ("ppt", "xls", "doc", "rtf", "pdf"):
                # formats that scan embedded pictures themselves: a few damaged-picture variants of every base, whatever the draw below gives
                for k in range(run.n(4, 12)):
                    cid += 1
                    yield {"id": cid, "kind": kind, "mode": "direct" if k % 2 == 0 else rng.choice(modes_extra), "native": native,
                           "recipe": {"src": src, "op": "picture_half_written", "family": "byte", "mseed": k, "other": None}}
                    cid += 1
                    yield {"id": cid, "kind": kind, "mode": "direct", "native": native,
                           "recipe": {"src": src, "op": "jpeg_segment_length", "family": "byte", "mseed": k, "enum": k, "other": None}}
            for _ in range(per_base):
                fam, op = rng.choice(fams)
                other = rng.choice(all_src)[1] if op == "splice" else None
                mode = "direct" if rng.random() < 0.7 else rng.choice(modes_extra)
                if kind == "zip" and mode in ("zip", "tar", "tgz", "attachment"):
                    mode = "direct"
                cid += 1
                yield {"id": cid, "kind": kind, "mode": mode, "native": native,
                       "recipe": {"src": src, "op": op, "family": fam, "mseed": rng.randrange(1 << 30), "other": other}}
    # cross-format: content of format A handed to extractor B (21 x 21, sampled bases)
    for kind in corpus.KINDS:
        for okind in corpus.KINDS:
            if okind == kind or not sources.get(okind):
                continue
            for _ in range(run.n(1, 6)):
                src = rng.choice(sources[okind])
                cid += 1
                yield {"id": cid, "kind": kind, "mode": rng.choice(["direct", "direct", "read_file", "cli"]), "native": False,
                       "recipe": {"src": src, "op": None}}


    # cross-format AND damaged: a container of the other family, cut short or overwritten in places, handed to this extractor (a download that
    # broke off, saved under the wrong extension): the OLE2 readers behind the OOXML encryption probes and the ZIP readers behind the
    # legacy extractors see their own kind of broken input
    ole_src = [s_ for k in ("doc", "xls", "ppt", "msg") for s_ in sources.get(k, [])[:5]]
    zip_src = [s_ for k in ("docx", "xlsx", "odt") for s_ in sources.get(k, [])[:3]]
    for targets, pool_src in ((("docx", "xlsx", "pptx", "odt"), ole_src), (("doc", "xls", "ppt", "msg"), zip_src)):
        for kind in targets:
            for src in pool_src:
                for op in ("truncate", "truncate_tail", "head_only", "zero"):
                    for _ in range(run.n(1, 4)):
                        cid += 1
                        yield {"id": cid, "kind": kind, "mode": rng.choice(["direct", "direct", "direct", "read_file", "cli"]), "native": False,
                               "recipe": {"src": src, "op": op, "family": "byte", "mseed": rng.randrange(1 << 30), "other": None}}


def judge(run, case, ob):
    kind, mode = case["kind"], case["mode"]
    rec = case["recipe"]
    fam = rec.get("family") or ("cross" if not case.get("native") else "identity")
    rep = {"case": case}
    tag = f"{kind}:{mode}"
    if ob.get("_harness_error"):
        run.inconclusive(f"harness error: {ob['_harness_error']}")
        print(ob.get("_tb"))
        return "harness"
    if ob.get("_cpu_exhausted") or ob.get("_cpu_budget_fired_at") or (ob.get("_timeout") and ob.get("cpu_s", 0) > 20):
        at = ob.get("_cpu_exhausted_at") or ob.get("_cpu_budget_fired_at") or ob.get("_stuck_at") or "unknown"
        key = f"C01:{at}:cpu-budget-exceeded-10x"
        what = f"{kind} via {mode}: CPU time exceeded 10x the budget (2 s + 4 us/byte), still running in {at} ({fam}/{rec.get('op')} of {rec['src']})"
        pending = getattr(run, "_pending_cpu", None)
        if pending is None or key in run.open_keys or case.get("_confirming"):
            run.violation(key, what, rep)
        else:
            # CPU seconds stretch when sixteen workers share the cores (a case that needs 10 s alone was seen at 25 s): the verdict is
            # taken from a re-measurement of the case with the machine to itself, after the pool has drained (main)
            pending.setdefault(key, []).append((case, what))
        return "hang"
    if ob.get("_oom"):
        run.violation(f"C01:{tag}:{fam}:memory-exhausted", f"{kind} via {mode}: MemoryError escaped under the 1.5 GiB address-space limit ({fam}/{rec.get('op')})", rep)
        return "oom"
    if ob.get("_timeout") and ob.get("_blocked"):
        # the deadline passed while the worker was asleep without using CPU: not slow, not starved - waiting for something that never
        # comes (a lock it holds itself, a pipe); the watchdog's stack dump says where
        at = ob.get("_stuck_at") or "unknown"
        run.violation(f"C01:{at}:blocked-forever", f"{kind} via {mode}: the call never returned and the process slept without using CPU ({ob.get('cpu_s')} s CPU in 150 s): blocked in {at} "
                      f"({fam}/{rec.get('op')} of {rec['src']})", rep)
        return "blocked"
    if ob.get("_timeout") or ob.get("_died"):
        if ob.get("_died") and ob.get("returncode") not in (None, 0):
            run.violation(f"C01:{tag}:{fam}:interpreter-died", f"{kind} via {mode}: worker process died (returncode {ob.get('returncode')}) on {fam}/{rec.get('op')}: {ob.get('stderr', '')[-300:]}", rep)
            return "died"
        run.inconclusive_cases += 1
        return "inconclusive"
    exc = ob.get("exc")
    if mode.startswith("cli"):
        code = ob.get("exit")
        if exc is not None:
            run.violation(f"C01:{tag}:{fam}:cli-raised-{exc['name']}", f"CLI raised {exc['name']}: {exc['msg']}", rep)
            return "cli-raised"
        if code not in (0, 1):
            run.violation(f"C01:cli:{mode}:exit-status-{code}", f"CLI exit status {code}", rep)
        elif code == 0 and ob.get("stdout_leaked_fd1"):
            run.violation(f"C01:cli:{'json' if 'json' in mode else 'text'}-output:foreign-text-on-stdout", f"CLI exited 0 but a library wrote to the process's stdout besides the result: {ob['stdout_leaked_fd1']!r}", rep)
        elif code == 0 and ob.get("stdout_len", 0) == 0:
            run.violation(f"C01:cli:{mode}:exit0-empty-stdout", "CLI exited 0 with nothing on stdout", rep)
        elif code == 1 and ob.get("stdout_len", 0) != 0:
            run.violation(f"C01:cli:{'json' if 'json' in mode else 'text'}-output:exit1-with-partial-stdout", f"CLI exited 1 but wrote {ob['stdout_len']} chars to stdout: {ob.get('stdout_head')!r}; stderr {ob.get('stderr_head')!r}", rep)
        elif code == 1 and ob.get("diag_lines") == 1 and ob.get("stderr_lines", 1) != 1:
            run.violation(f"C01:cli:{mode}:exit1-diagnostic-spans-{min(ob.get('stderr_lines'), 3)}-lines", f"CLI exited 1 and its one diagnostic spans {ob.get('stderr_lines')} lines on stderr: {ob.get('stderr_head')!r}", rep)
        elif code == 1 and ob.get("diag_lines") != 1:
            run.violation(f"C01:cli:{mode}:exit1-diagnostic-lines-{ob.get('diag_lines')}", f"CLI exited 1 with {ob.get('diag_lines')} 'sharepoint2text:' lines on stderr: {ob.get('stderr_head')!r}", rep)
        return f"cli{code}"
    if exc is None:
        return "ok" if ob.get("n_results") else "ok-empty"
    if exc["is_extraction_error"]:
        return "xerr:" + exc["name"] + ":" + str(exc["cause"])
    run.violation(f"C01:{tag}:{fam}:escaped-{exc['name']}", f"{kind} via {mode} ({fam}/{rec.get('op')} of {rec['src']}): {exc['type']} escaped after {exc['yielded_before']} results: {exc['msg']}", rep)
    return "escaped:" + exc["name"]


def main(run):
    run.rule = ("case = (extractor kind, entry point, base input, mutation); distinct = (kind, entry point, mutation family/op, outcome class incl. wrapped cause type); "
                "non-trivial = the worker ran the real entry point to completion or to an exception and the exception surface / CLI contract / CPU budget were judged")
    run.assumptions = ["termination is restated as bounded progress: process CPU time <= 10 x (2 s + 4 us/byte); wall-clock is never a verdict",
                       "'one diagnostic line' = exactly one stderr line starting with the CLI's own prefix; lines written by logging are not CLI diagnostics"]
    reached = {}
    causes = set()
    outcomes = {}
    slow = 0
    slowest: list = []
    run._pending_cpu = {}
    for case, ob in pool.run_cases("checks.c01:work", gen_cases(run), deadline_s=150, rlimit_as=int(1.5 * 2**30)):
        oc = judge(run, case, ob)
        rec = case["recipe"]
        fam = rec.get("family") or ("cross" if not case.get("native") else "identity")
        body = oc not in ("inconclusive", "harness")
        run.case(f"{case['kind']}:{case['mode']}:{fam}:{rec.get('op')}:{oc}", nontrivial=body,
                 sample={"kind": case["kind"], "mode": case["mode"], "src": rec["src"], "op": rec.get("op"), "outcome": oc, "cpu_s": ob.get("cpu_s"), "size": ob.get("size")} if case["id"] % 397 == 0 else None)
        if body and case.get("native") and case["mode"] == "direct":
            reached[case["kind"]] = reached.get(case["kind"], 0) + 1
        if oc.startswith("xerr:"):
            causes.add(oc.split(":")[2])
        outcomes[oc.split(":")[0]] = outcomes.get(oc.split(":")[0], 0) + 1
        if ob.get("cpu_s", 0) > ob.get("budget", 1e9):
            slow += 1
        if ob.get("budget"):
            slowest.append((round(ob.get("cpu_s", 0) / ob["budget"], 2), ob.get("cpu_s"), case["kind"], case["mode"], str(rec["src"])[:80], rec.get("op"), rec.get("mseed")))
            if len(slowest) > 400:
                slowest.sort(key=lambda x: x[0], reverse=True)
                del slowest[12:]
    # CPU-budget verdicts: re-measure up to three cases per location, one at a time, on the now quiet machine.  The *location* is taken
    # from the re-measurement too: a worker that shares the cores (and whose budget exception a bare except swallowed) was seen to name a
    # frame of an earlier case
    confirmed = unconfirmed = 0
    for key, items in sorted(run._pending_cpu.items()):
        last_key = None
        for n_item, (case, what) in enumerate(items):
            if n_item >= 3:
                if last_key:
                    run.violation(last_key, what + " [location confirmed on other cases of this group]", {"case": case})
                else:
                    unconfirmed += 1
                continue
            c2 = dict(case, _confirming=True)
            hit = False
            for _, ob2 in pool.run_cases("checks.c01:work", [c2], workers=1, deadline_s=200, rlimit_as=int(1.5 * 2**30)):
                if ob2.get("_cpu_exhausted") or ob2.get("_cpu_budget_fired_at") or (ob2.get("_timeout") and ob2.get("cpu_s", 0) > 20):
                    at2 = ob2.get("_cpu_exhausted_at") or ob2.get("_cpu_budget_fired_at") or ob2.get("_stuck_at") or "unknown"
                    rec2 = case["recipe"]
                    last_key = f"C01:{at2}:cpu-budget-exceeded-10x"
                    run.violation(last_key, f"{case['kind']} via {case['mode']}: CPU time exceeded 10x the budget (2 s + 4 us/byte), still running in {at2} "
                                            f"({rec2.get('family') or 'identity'}/{rec2.get('op')} of {rec2['src']}) [confirmed by a re-measurement alone]", {"case": case})
                    hit = True
            if hit:
                confirmed += 1
            else:
                unconfirmed += 1
    run.count("cpu_budget_verdicts_confirmed_alone", confirmed)
    run.count("cpu_budget_exceeded_only_while_sharing_the_cores", unconfirmed)
    for k in corpus.KINDS:
        run.count(f"reached_{k}", reached.get(k, 0))
        run.require(f"reached_{k}", reached.get(k, 0), run.n(10, 200))
    run.require("distinct_wrapped_cause_types", len(causes), 5)
    run.count("over_budget_under_10x", slow)
    slowest.sort(key=lambda x: x[0], reverse=True)
    run.extras["cases_closest_to_the_cpu_budget"] = [{"cpu_over_budget": a, "cpu_s": b, "kind": c, "mode": d, "src": e, "op": f, "mseed": g} for a, b, c, d, e, f, g in slowest[:12]]
    run.extras["outcome_classes"] = outcomes
    run.extras["wrapped_cause_types"] = sorted(causes)


def replay(run, doc):
    case = doc["case"]["case"]
    for c, ob in pool.run_cases("checks.c01:work", [case], workers=1, deadline_s=200, rlimit_as=int(1.5 * 2**30)):
        print({k: v for k, v in ob.items() if k != "_tb"})
        judge(run, c, ob)
    run.case("replay")
    run.case("replay2")
