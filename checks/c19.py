"""C19 — OMML -> LaTeX conversion is total, deterministic, order-preserving, balanced and template-true.

Monitor shape
  * child (sandboxed pool worker): an icontract snapshot + post-condition sits on the *real*
    ``omml_to_latex`` (defining module and every importing module's binding: docx and pptx extractor).
    Every evaluation is counted; it records "returned a str" and "the input tree serialises the same
    before and after".  Each generated tree is parsed twice, converted three times (t1, t2, t1 again) under a
    CPU budget (process CPU time; 5 ms x elements + 50 ms; re-run once before it is called a hang, four times
    before it is called slow).
  * parent: the verdict.  ``vlib.gen.omml.analyse`` walks the *spec* the XML was written from and gives
    the ordered mapped run texts (independent symbol table), the documented template rendering (or why
    the tests/README do not define it: ``unclaimed``), literal braces, malformed radicals, risky features.

Clauses: (1) totality/progress  (2) determinism + input not mutated; over histories on one element object (every 16th tree:
convert, edit the tree in place — text, attribute, child removed, run appended, structure copied, content replaced — convert the
same object again) the result equals that of a freshly parsed copy of the edited tree  (3) every run text once, in order
(4) balanced braces without literal braces  (5) documented template with operands in place.
Malformed radicals (operand = lone opening bracket, by design): (1) (2) (4) only.
"""
from __future__ import annotations

import importlib
import io
import itertools
import re
import sys
import time

LEVEL = "exploration"
MODNAME = "sharepoint2text.parsing.extractors.util.omml_to_latex"
COMPONENT = "omml_to_latex"
BATCH = 150
HISTORY_EVERY = (16, 64)   # every 16th (quick) / 64th (thorough) generated tree is additionally taken through an edit history on one element object
# reasons for which clause 5 is silent but "an operand container left out == the same container empty" is still decidable
ABS_OK_UNCLAIMED = frozenset({"nary:operator-undefined-without-chr", "acc:accent-undefined-without-chr-value", "func:structured-or-split-name",
                              "container-without-documented-template"})

# ======================================================================================================
# child side
# ======================================================================================================
_EV = {"evals": 0, "events": [], "rebinds": 0, "fn": None}


class ContractBroken(AssertionError):
    pass


def _ser(e):
    from xml.etree import ElementTree as ET
    return None if e is None else ET.tostring(e, encoding="unicode")


def _post(omath_element, result, before) -> bool:
    _EV["evals"] += 1
    _EV["events"].append({"str": isinstance(result, str), "mut": _ser(omath_element) != before})
    return True


def install_contract() -> int:
    """Put the post-condition on the real function and on every binding of it; return #bindings replaced."""
    if _EV["fn"] is not None:
        return _EV["rebinds"]
    import icontract
    M = importlib.import_module(MODNAME)
    importlib.import_module("sharepoint2text.parsing.extractors.ms_modern.docx_extractor")
    importlib.import_module("sharepoint2text.parsing.extractors.ms_modern.pptx_extractor")
    orig = M.omml_to_latex
    f = icontract.ensure(lambda omath_element, result, OLD: _post(omath_element, result, OLD.ser), error=ContractBroken)(orig)
    f = icontract.snapshot(lambda omath_element: _ser(omath_element), name="ser")(f)
    n = 0
    for mod in list(sys.modules.values()):
        d = getattr(mod, "__dict__", None)
        if not d or not getattr(mod, "__name__", "").startswith("sharepoint2text"):
            continue
        for name, val in list(d.items()):
            if val is orig:
                setattr(mod, name, f)
                n += 1
    _EV["fn"] = f
    _EV["rebinds"] = n
    return n


def work_init(init: dict) -> None:
    install_contract()


_M = "{http://schemas.openxmlformats.org/officeDocument/2006/math}"
_OPERAND_TAGS = ("e", "num", "den", "sub", "sup", "deg", "fName", "lim", "oMath")
HISTORY_STEPS = ("text-changed", "attribute-changed", "child-removed", "run-appended", "structure-copied", "content-replaced")


def _history(f, t1, seed: int) -> list:
    """Histories on ONE element object: after each in-place edit of the tree that was already converted, the conversion of
    that same object must equal the conversion of a freshly parsed copy of what the tree is now (the result is a function
    of the tree, not of what the object was when it was first seen).  Edits are chosen from the tree itself."""
    import copy
    import random
    from xml.etree import ElementTree as ET
    from vlib.worker import arm_cpu, disarm_cpu
    rnd = random.Random(seed)
    steps = []

    def conv(e):
        try:
            return ["ok", f(e)]
        except Exception as ex:
            return ["exc", type(ex).__name__]

    def compare(kind):
        same = conv(t1)
        now = ET.tostring(t1, encoding="unicode")
        fresh = conv(ET.fromstring(now))
        st = {"kind": kind, "agree": same == fresh}
        if not st["agree"]:
            st.update(same=str(same[1])[:300], fresh=str(fresh[1])[:300], tree=now[:1500])
        elif same[0] == "exc":
            st["raised"] = same[1]
        steps.append(st)

    local = lambda e: e.tag.split("}")[-1]
    nodes = sum(1 for _ in t1.iter())
    arm_cpu(0.1 * nodes + 5.0)
    try:
        ts = [e for e in t1.iter() if local(e) == "t"]
        if ts:
            e = rnd.choice(ts)
            e.text = (e.text or "") + rnd.choice(("qh00007z", "+1", " ", "β"))
            compare("text-changed")
        vals = [e for e in t1.iter() if _M + "val" in e.attrib and local(e) in ("chr", "begChr", "endChr", "sepChr")]
        if vals:
            e = rnd.choice(vals)
            old = e.get(_M + "val")
            if rnd.random() < 0.25:
                del e.attrib[_M + "val"]
            else:
                e.set(_M + "val", rnd.choice([v for v in ("[", "|", "∫", "̃", "", "⟩") if v != old]))
            compare("attribute-changed")
        kids = [(p, c) for p in t1.iter() for c in p if local(p) in _OPERAND_TAGS and local(c) not in ("argPr", "ctrlPr", "rPr")]
        if kids:
            p, c = rnd.choice(kids)
            p.remove(c)
            compare("child-removed")
        holders = [e for e in t1.iter() if local(e) in _OPERAND_TAGS] or [t1]
        h = rnd.choice(holders)
        r = ET.SubElement(h, _M + "r")
        ET.SubElement(r, _M + "t").text = "qh00008z"
        compare("run-appended")
        structs = [e for e in t1.iter() if e is not t1 and len(e) and local(e) not in _OPERAND_TAGS + ("r", "mr", "oMathPara") and not local(e).endswith("Pr")]
        if structs:
            rnd.choice(holders).append(copy.deepcopy(rnd.choice(structs)))
            compare("structure-copied")
        for c in list(t1):
            t1.remove(c)
        fr = ET.SubElement(t1, _M + "f")
        for nm, tx in (("num", "qh00009z"), ("den", "π")):
            ET.SubElement(ET.SubElement(ET.SubElement(fr, _M + nm), _M + "r"), _M + "t").text = tx
        compare("content-replaced")
    except BaseException as e:
        if type(e).__name__ != "CpuBudget":
            raise
        steps.append({"kind": "cpu-budget", "agree": True, "raised": "CpuBudget"})
    finally:
        disarm_cpu()
    return steps


def _observe(xml: str, hist: bool = False) -> dict:
    from xml.etree import ElementTree as ET
    from vlib.worker import arm_cpu, disarm_cpu
    f = _EV["fn"]
    ob = {"attempts": 0}
    # Decided on process CPU time.  A hang is called after two attempts; "slow" only when the budget is exceeded
    # five times in a row (on a loaded virtual machine a descheduled vCPU is charged to whoever was running).
    for attempt in range(5):
        if attempt:
            time.sleep(0.05 * attempt)
        t1 = ET.fromstring(xml)
        nodes = sum(1 for _ in t1.iter())
        budget = 0.005 * nodes + 0.05
        before = _ser(t1)
        ob.update(nodes=nodes, attempts=attempt + 1, exc=None, hang=False, out=None)
        _EV["events"].clear()
        c0 = time.process_time()
        try:
            arm_cpu(2 * budget + 2.0)
            o1 = f(t1)
        except Exception as e:
            ob["exc"] = type(e).__name__
            ob["msg"] = str(e)[:200]
            o1 = None
        except BaseException as e:
            # the worker runs as __main__, so its CpuBudget class is not vlib.worker.CpuBudget: match by name
            if type(e).__name__ != "CpuBudget":
                raise
            ob["hang"] = True
            o1 = None
        finally:
            disarm_cpu()
        ob["cpu"] = round(time.process_time() - c0, 5)
        ob["slow"] = ob["cpu"] > budget
        if (not ob["hang"] and not ob["slow"]) or (ob["hang"] and attempt >= 1):
            break
    ob["mut"] = _ser(t1) != before or any(e["mut"] for e in _EV["events"])
    ob["contract_seen"] = len(_EV["events"])
    if ob["hang"]:
        return ob
    if ob["exc"]:
        try:
            f(ET.fromstring(xml))
            ob["det"] = False
            ob["out2"] = "<second call returned>"
        except Exception as e:
            ob["det"] = type(e).__name__ == ob["exc"]
        return ob
    ob["str"] = isinstance(o1, str)
    if not ob["str"]:
        ob["out"] = repr(o1)[:200]
        return ob
    ob["out"] = o1
    try:
        o2 = f(ET.fromstring(xml))
        o3 = f(t1)
    except Exception as e:
        ob["det"] = False
        ob["out2"] = f"<raised {type(e).__name__}>"
        return ob
    ob["det"] = o1 == o2 == o3
    if not ob["det"]:
        ob["out2"] = o2 if o2 != o1 else o3
    ob["mut"] = ob["mut"] or _ser(t1) != before
    if hist and ob["det"]:
        import zlib
        ob["hist"] = _history(f, t1, zlib.crc32(xml.encode("utf-8")))
    return ob


def _read_doc(fmt: str, data: bytes) -> dict:
    from sharepoint2text.parsing.extractors.ms_modern import docx_extractor, pptx_extractor
    res = {}
    try:
        if fmt == "docx":
            c = list(docx_extractor.read_docx(io.BytesIO(data), "c19.docx"))[0]
            res["formulas"] = [[x.latex, bool(x.is_display)] for x in c.formulas]
            res["text"] = c.get_full_text()
        else:
            c = list(pptx_extractor.read_pptx(io.BytesIO(data), "c19.pptx"))[0]
            res["formulas"] = [[[x.latex, bool(x.is_display)] for x in s.formulas] for s in c.slides]
            res["text"] = c.get_full_text()
            res["slide_texts"] = [s.text for s in c.slides]
    except BaseException as e:  # observation, not a verdict
        if type(e).__name__ == "CpuBudget":
            raise
        res["exc"] = [k.__name__ for k in type(e).__mro__]
        res["cause"] = type(e.__cause__).__name__ if e.__cause__ is not None else None
        res["msg"] = str(e)[:200]
    return res


def work(case: dict) -> dict:
    from xml.etree import ElementTree as ET
    from vlib import core
    from vlib.worker import arm_cpu
    install_contract()
    e0 = _EV["evals"]
    if case["mode"] == "trees":
        items = []
        for it in case["items"]:
            if _EV.get("hangs", 0) >= 3:    # do not burn the whole budget on a converter that no longer terminates
                items.append({"i": it["i"], "not_run": True})
                continue
            ob = _observe(it["xml"], bool(it.get("hist")))
            _EV["hangs"] = _EV.get("hangs", 0) + (1 if ob.get("hang") else 0)
            ob["i"] = it["i"]
            items.append(ob)
        return {"items": items, "evals": _EV["evals"] - e0, "rebinds": _EV["rebinds"]}
    if case["mode"] == "doc":
        f = _EV["fn"]
        direct = []
        for xml in case["formulas"]:
            try:
                direct.append({"out": f(ET.fromstring(xml))})
            except Exception as e:
                direct.append({"exc": type(e).__name__})
        e1 = _EV["evals"]
        _EV["events"].clear()
        arm_cpu(30)
        res = _read_doc(case["fmt"], core.unb64(case["b64"]))
        res["direct"] = direct
        res["evals_in_doc"] = _EV["evals"] - e1
        res["mut_in_doc"] = any(e["mut"] for e in _EV["events"])
        res["evals"] = _EV["evals"] - e0
        return res
    if case["mode"] == "deep":
        f = _EV["fn"]
        d = case["depth"]
        xml = (f'<m:oMath xmlns:m="http://schemas.openxmlformats.org/officeDocument/2006/math">' + "<m:d><m:e>" * d
               + "<m:r><m:t>qb00001z</m:t></m:r>" + "</m:e></m:d>" * d + "</m:oMath>")
        try:
            out = f(ET.fromstring(xml))
            return {"outcome": "returned" if out.count("(") == d else "returned-wrong", "evals": 1}
        except BaseException as e:
            if type(e).__name__ == "CpuBudget":
                raise
            return {"outcome": type(e).__name__, "evals": 0}
    if case["mode"] == "table":
        M = importlib.import_module(MODNAME)
        return {"map": {c: M.convert_greek_and_symbols(c) for c in case["chars"]},
                "joined": M.convert_greek_and_symbols(case["joined"]), "evals": 0}
    raise ValueError(case["mode"])


# ======================================================================================================
# parent side: workload
# ======================================================================================================
def _valid(nodes) -> bool:
    for n in nodes:
        if n is None:
            return False
        if n["k"] == "r":
            continue
        if n["k"] == "m":
            if not all(_valid(cell) for row in n["rows"] for cell in row):
                return False
        elif not all(_valid(ch) for _, ch in n["s"]):
            return False
    return True


def _families(run, O, tok):
    """Yield (family, spec); combinations that do not exist (an operand placed into a slot the variant leaves empty) are dropped."""
    for family, spec in _raw_families(run, O, tok):
        if _valid(spec["c"]):
            yield family, spec


def _raw_families(run, O, tok):
    """Bounded-exhaustive families first, then large trees, then random deeper trees."""
    rng = run.rng
    F = O.Filler(tok)
    style = itertools.cycle((0, 1, 2, 3, 4, 0, 1, 5))      # 4, 5: the run's text sits in a w:t (inside m:r / inside w:r)
    leaf = lambda: [F.leaf(next(style))]
    plain = lambda: [O.R(tok())]
    ALL = list(O.STRUCT) + list(O.CONTAINERS)
    quick = run.quick

    def inst(kind, opts, shape, at=None, inner=None, ip=0, lf=leaf):
        if at is not None:
            if kind == "func" and at == 0 and opts.get("name") not in (None, "<token>"):
                return None
            if kind != "m":
                nm = shape[at]
                if (kind == "rad" and nm == "deg" and opts.get("deg") == "empty") or \
                        (kind == "nary" and nm in ("sub", "sup") and opts.get(nm) == "empty"):
                    return None
        return O.make(kind, opts, shape, lambda k, name, i: (inner() if i == at else lf()), ip=ip)

    # ---- every mapped symbol, alone and inside an operand
    for c in O.SYMBOL_CHARS:
        yield "sym", O.root([O.R(tok() + c)])
        yield "sym", O.root([O.N("f", {"pr": 0}, [["num", [O.R(c + tok())]], ["den", [O.R(tok() + c + c + tok())]]])])
    yield "sym", O.root([O.R(tok() + "".join(O.SYMBOL_CHARS) + tok())])
    # ---- run text carried by WordprocessingML elements (<m:r><w:t>, <w:r><w:t> in the math zone): at top level,
    #      between math runs, and as each operand of each element (alone, and with every operand in that form)
    for w in (1, 2):
        wleaf = lambda w=w: [O.R(tok(), w=w)]
        for para in (0, 1):
            yield "WT", O.root(wleaf(), para=para)
            yield "WT", O.root([O.R(tok()), O.R(tok(), p=2, sp=1, w=w), O.R(tok())], para=para)
        yield "WT", O.root([O.R(tok() + "αβ≤" + tok(), w=w), O.R("∞" + tok(), w=3 - w)])
        for kind in ALL:
            co, cs = O.canon_variant(kind)
            if kind == "func":
                co = dict(co, name="<token>")
            for ip in (0, 1):
                yield "WT", O.root([inst(kind, co, cs, ip=ip, lf=wleaf)])
            for at in range(O.slot_count(kind, cs)):
                yield "WT", O.root([inst(kind, co, cs, at=at, inner=wleaf, lf=plain)])
                yield "WT", O.root([inst(kind, co, cs, at=at, inner=lambda: [O.R(tok()), wleaf()[0], O.R(tok())], lf=plain)])
    # ---- operand containers left out altogether: every element x every subset of its containers (down to no child
    #      element at all) x with / without its property element x present operands filled / empty; alone and between runs
    for kind in ALL:
        if kind == "m":
            for pr in (0, 1):
                yield "ABS", O.root([O.N("m", {"pr": pr}, [], rows=[])])
                yield "ABS", O.root([O.R(tok()), O.N("m", {"pr": pr}, [], rows=[[]]), O.R(tok())])
            continue
        co, cs = O.canon_variant(kind)
        bare = {"pr": 0, "chr": None, "beg": None, "end": None}
        for o in (bare, {k_: v_ for k_, v_ in co.items() if k_ not in ("deg", "sub", "sup", "name")}):
            for mask in range(2 ** len(cs)):
                for filled in (1, 0):
                    if not filled and not mask:
                        continue
                    slots = [[nm, (plain() if filled else [])] for j, nm in enumerate(cs) if mask >> j & 1]
                    yield "ABS", O.root([O.N(kind, o, slots)])
                    slots = [[nm, (plain() if filled else [])] for j, nm in enumerate(cs) if mask >> j & 1]
                    yield "ABS", O.root([O.R(tok()), O.N(kind, o, slots), O.R(tok())], para=mask % 2)
    # ---- function names that are near misses of the nine known names: one run, split over runs at every position,
    #      carrying a script inside m:fName, in w:t form, alone and as an operand
    def fn(name_nodes, pr=0, ip=0):
        n = O.N("func", {"pr": pr}, [["fName", name_nodes], ["e", plain()]])
        if ip:
            n["o"]["ip"] = 1
        return n

    for name in O.NEAR_FUNCS + O.FUNCS:
        near = name in O.NEAR_FUNCS
        if near:
            for pr in (0, 1):
                for ip in (0, 1):
                    yield "FN", O.root([fn([O.R(name, p=pr)], pr, ip)])
            yield "FN", O.root([O.R(tok()), fn([O.R(name, w=1)]), fn([O.R(name, w=2)])], para=1)
            yield "FN", O.root([O.N("f", {"pr": 0}, [["num", [fn([O.R(name)])]], ["den", [fn([O.R(name)]), O.R(tok())]]])])
            yield "FN", O.root([fn([O.R(" " + name + " ", sp=1)])])
        for cut in range(1, len(name)):
            yield "FN", O.root([fn([O.R(name[:cut]), O.R(name[cut:], p=1)])])
        if len(name) > 3:
            yield "FN", O.root([fn([O.R(name[0]), O.R(name[1:-1]), O.R(name[-1])])])
        yield "FN", O.root([fn([O.R(name), O.R(tok())])])
        yield "FN", O.root([fn([O.R(tok()), O.R(name)])])
        for sk in ("sSup", "sSub", "sSubSup"):
            slots = [["e", [O.R(name)]]] + [[s_, [O.R("2")]] for s_ in O.SLOTS[sk][1:]]
            yield "FN", O.root([fn([O.N(sk, {"pr": 0}, slots)])])
            yield "FN", O.root([fn([O.N(sk, {"pr": 1}, [["e", [O.R(name[:2]), O.R(name[2:])]]] + [[s_, plain()] for s_ in O.SLOTS[sk][1:]])], pr=1)])
    # ---- every character- / enumeration-valued attribute the vocabulary has x every odd value (empty, blank, several
    #      characters, combining-only, spacing accent, non-BMP, LaTeX/XML specials, unknown words, attribute absent):
    #      alone, between runs, and as an operand.  No rendering is documented for them; totality, tokens, balance are.
    def odd_node(kind, tag, how, v):
        ov = {"ov": {tag: v}} if how == "ov" else {}
        if kind == "r":
            return dict(O.R(tok(), p=1), **ov)
        base = {"acc": ({"pr": 1, "ctrl": 1}, ["e"]), "nary": ({"pr": 1, "chr": "∑", "sub": "set", "sup": "set", "limLoc": 1, "hide": 1, "ctrl": 1}, ["sub", "sup", "e"]),
                "d": ({"pr": 1, "beg": "(", "end": ")"}, ["e", "e"]), "groupChr": ({"pr": 1}, ["e"]), "bar": ({"pr": 1}, ["e"]),
                "f": ({"pr": 1}, ["num", "den"]), "rad": ({"pr": 2, "deg": "set"}, ["deg", "e"]), "m": ({"pr": 1}, (2, 2)),
                "sSup": ({"pr": 1}, ["e", "sup"])}[kind]
        o = dict(base[0], **ov)
        if how == "opt":
            o[{"chr": "chr", "begChr": "beg", "endChr": "end", "sepChr": "sep"}[tag]] = v
        return inst(kind, o, base[1], ip=1 if tag == "argSz" else 0, lf=plain)

    for kind, tag, how in O.ODD_ATTRS:
        for v in O.ODD_VALUES + (O.NOVAL,):
            yield "ODD", O.root([odd_node(kind, tag, how, v)])
            yield "ODD", O.root([O.R(tok()), odd_node(kind, tag, how, v), O.R(tok())], para=1)
            yield "ODD", O.root([O.N("f", {"pr": 0}, [["num", [O.R(tok())]], ["den", [odd_node(kind, tag, how, v)]]])])
            yield "ODD", O.root([O.N("rad", {"pr": 0}, [["deg", [odd_node(kind, tag, how, v)]], ["e", [O.R(tok()), odd_node(kind, tag, how, v)]]])])
    # ---- depth 1: every variant of every element (every optional child / attribute present or absent)
    for kind in ALL:
        for opts, shape in O.variants(kind):
            for ip in (0, 1):
                yield "E1", O.root([inst(kind, opts, shape, ip=ip)])
        co, cs = O.canon_variant(kind)
        n = O.slot_count(kind, cs)
        for mask in range(1, 2 ** n):            # operands present but empty, every subset
            node = O.make(kind, co if kind != "func" else dict(co, name="<token>"), cs,
                          lambda k, name, i: ([] if mask >> i & 1 else leaf()))
            yield "E1-empty", O.root([node])
        for para in (1, 2):
            yield "E1-para", O.root([inst(kind, co, cs)], para=para)
        yield "E1-width2", O.root([O.R(tok()), inst(kind, co, cs), O.R(tok())])
    # ---- depth 2
    for k1 in ALL:
        v1s = list(O.variants(k1))
        c1 = O.canon_variant(k1)
        for k2 in ALL:
            v2s = list(O.variants(k2))
            c2 = O.canon_variant(k2)
            r1 = list(O.reduced_variants(k1))
            r2 = list(O.reduced_variants(k2))
            if quick:
                pairs = [(a, c2) for a in v1s] + [(c1, b) for b in v2s]
            else:
                pairs = [(a, b) for a in v1s for b in r2] + [(a, b) for a in r1 for b in v2s]
            seen = set()
            for (o1, s1), (o2, s2) in pairs:
                key = repr((o1, s1, o2, s2))
                if key in seen:
                    continue
                seen.add(key)
                for at in range(O.slot_count(k1, s1)):
                    node = inst(k1, o1, s1, at=at, inner=lambda: [inst(k2, o2, s2, lf=plain)], lf=plain)
                    if node is not None:
                        yield "E2", O.root([node])
            # width 2 inside the operand
            for at in range(O.slot_count(k1, c1[1])):
                for arr in range(3):
                    def inner(arr=arr):
                        x = inst(k2, c2[0], c2[1], lf=plain)
                        return [[O.R(tok()), x], [x, O.R(tok())], [x, inst(k2, c2[0], c2[1], lf=plain)]][arr]
                    node = inst(k1, c1[0], c1[1], at=at, inner=inner, lf=plain)
                    if node is not None:
                        yield "E2-width2", O.root([node])
    # ---- depth 3 (canonical variants; quick: the 11 templated elements, thorough: containers too and
    #      one-factor variants innermost)
    K3 = list(O.STRUCT) if quick else ALL
    for k1 in K3:
        o1, s1 = O.canon_variant(k1)
        for at1 in range(O.slot_count(k1, s1)):
            if k1 == "func" and at1 == 0:
                continue
            for k2 in K3:
                o2, s2 = O.canon_variant(k2)
                for at2 in range(O.slot_count(k2, s2)):
                    if k2 == "func" and at2 == 0:
                        continue
                    for k3 in K3:
                        v3 = [O.canon_variant(k3)] if quick else list(O.reduced_variants(k3))
                        if not quick and (at1 or at2):
                            v3 = v3[:1]
                        for o3, s3 in v3:
                            n3 = lambda: [inst(k3, o3, s3, lf=plain)]
                            n2 = lambda: [inst(k2, o2, s2, at=at2, inner=n3, lf=plain)]
                            yield "E3", O.root([inst(k1, o1, s1, at=at1, inner=n2, lf=plain)])
    # ---- the documented malformed radical (operand = lone opening bracket) in every continuation
    close = {"(": ")", "[": "]", "{": "}"}

    def mal(b, deg):
        slots = ([["deg", [O.R(tok())] if deg == 2 else []]] if deg else []) + [["e", [O.R(b)]]]
        return O.N("rad", {"pr": 2 if deg < 2 else 0}, slots)

    for b in "([{":
        for deg in (0, 1, 2):
            for tail in (None, "x)", ")x", "x)y)"):
                t = [] if tail is None else [O.R(tail.replace("x", tok()).replace("y", tok()).replace(")", close[b]))]
                yield "MR", O.root([mal(b, deg)] + t)
                yield "MR", O.root([O.R(tok()), mal(b, deg), O.R(tok())] + t, para=1)
            for kind in ALL:
                co, cs = O.canon_variant(kind)
                if kind == "func":
                    co = dict(co, name="<token>")
                closing = lambda: [O.R(tok() + close[b] + tok())]
                # (a) followed by each element whose operands do / do not contain the closing bracket
                yield "MR", O.root([mal(b, deg), inst(kind, co, cs, lf=plain)])
                yield "MR", O.root([mal(b, deg), inst(kind, co, cs, lf=closing)])
                for at in range(O.slot_count(kind, cs)):
                    # (b) inside each operand of each element, closed inside / outside / never
                    yield "MR", O.root([inst(kind, co, cs, at=at, inner=lambda: [mal(b, deg)], lf=plain)])
                    yield "MR", O.root([inst(kind, co, cs, at=at, inner=lambda: [mal(b, deg)], lf=plain), closing()[0]])
                    yield "MR", O.root([inst(kind, co, cs, at=at, inner=lambda: [mal(b, deg), closing()[0]], lf=plain)])
                    yield "MR", O.root([inst(kind, co, cs, at=at, inner=lambda: [mal(b, deg)], lf=closing)])
        # two malformed radicals (risky): adjacent, separated, nested in different operands, closed or not
        for b2 in "([{":
            for tail in ([], ["x)"], ["x)", "y]"], ["x]", "y)"]):
                t = [O.R(s.replace("x", tok()).replace("y", tok()).replace(")", close[b]).replace("]", close[b2])) for s in tail]
                yield "MR2", O.root([mal(b, 0), mal(b2, 0)] + t)
                yield "MR2", O.root([mal(b, 2), O.R(tok()), mal(b2, 1)] + t)
                yield "MR2", O.root([O.N("f", {"pr": 0}, [["num", [mal(b, 0)]], ["den", [mal(b2, 0)]]])] + t)
                yield "MR2", O.root([mal(b, 0), O.R(tok() + close[b]), mal(b2, 0)] + t)       # first closed before the second opens
    # ---- large trees for the progress bound (clean)
    wide = run.n(400, 3000)
    yield "BIG", O.root([O.N("d", {"pr": 1, "beg": "(", "end": ")"}, [["e", [O.R(tok())]] for _ in range(wide)])])
    yield "BIG", O.root([O.N("m", {"pr": 1}, [], rows=[[[O.R(tok())] for _ in range(30)] for _ in range(run.n(20, 100))])])
    for kind in ("nary", "d", "acc", "rad", "f", "sSubSup"):
        o, s = O.canon_variant(kind)
        node = [O.R(tok())]
        for _ in range(run.n(25, 40)):
            prev = node
            node = [inst(kind, o, s, at=len(s) - 1, inner=lambda prev=prev: prev + [O.R(tok() + "α")], lf=plain)]
        yield "BIG", O.root(node)
    yield "BIG", O.root([O.R(tok() + "".join(rng.choice(O.SYMBOL_CHARS) for _ in range(50)), p=3) for _ in range(wide)])
    # ---- random deeper trees
    n_rand = run.n(3000, 60000)
    for i in range(n_rand):
        depth = rng.choice((2, 3, 4, 4, 5, 6, 7, 8))
        spec = O.random_tree(rng, tok, depth, width=rng.choice((1, 2, 3)), braces=rng.random() < 0.1)
        if O.count_nodes(spec) > 600:
            continue
        r = rng.random()
        if 0.24 <= r < 0.32:
            spec = _plant(O, spec, "odd-attribute-value", rng, tok)
        if r < 0.24:
            spec = _plant(O, spec, ("nary-chr-without-val", "d-delimiter-chr-without-val", "two-malformed-radicals",
                                    "d-default-delimiter-over-nested-explicit-delimiter", "one-malformed-radical",
                                    "malformed-radical-under-rad-with-closing-bracket-in-degree")[int(r / 0.04)], rng, tok)
        yield "RND", spec


def _operand_lists(O, spec):
    out = [spec["c"]]
    for n in O.walk(spec["c"]):
        out.extend(O.operand_lists(n))
    return out


def _plant(O, spec, feature, rng, tok):
    """Plant one risky feature (or one by-design malformed radical) into a clean random tree."""
    spec = O._copy(spec)
    nodes = [n for n in O.walk(spec["c"]) if n["k"] != "r"]
    lists = _operand_lists(O, spec)
    close = {"(": ")", "[": "]", "{": "}"}

    def mal():
        b = rng.choice("(([[{")
        deg = rng.choice((0, 1, 2))
        slots = ([["deg", [O.R(tok())] if deg == 2 else []]] if deg else []) + [["e", [O.R(rng.choice(("", " ")) + b)]]]
        return b, O.N("rad", {"pr": rng.choice((0, 2)) if deg < 2 else 0}, slots)

    if feature == "nary-chr-without-val":
        c = [n for n in nodes if n["k"] == "nary"]
        if c:
            n = rng.choice(c)
            n["o"].update(pr=1, chr=O.NOVAL)
        else:
            rng.choice(lists).append(O.N("nary", {"pr": 1, "chr": O.NOVAL}, [["sub", [O.R(tok())]], ["sup", []], ["e", [O.R(tok())]]]))
    elif feature == "d-delimiter-chr-without-val":
        c = [n for n in nodes if n["k"] == "d"]
        if c:
            n = rng.choice(c)
            n["o"].update(pr=1)
            n["o"][rng.choice(("beg", "end"))] = O.NOVAL
        else:
            rng.choice(lists).append(O.N("d", {"pr": 1, "beg": O.NOVAL, "end": rng.choice((None, ")", O.NOVAL))}, [["e", [O.R(tok())]]]))
    elif feature == "odd-attribute-value":            # not a risky feature: a clean tree with an attribute value nobody documents
        c = [n for n in nodes if n["k"] in ("acc", "nary", "d")]
        for n in rng.sample(c, min(len(c), rng.choice((1, 1, 2)))):
            n["o"]["pr"] = 1
            n["o"][rng.choice(("beg", "end", "sep")) if n["k"] == "d" else "chr"] = rng.choice(O.ODD_VALUES)
        if not c:
            rng.choice(lists).append(O.N("acc", {"pr": 1, "chr": rng.choice(O.ODD_VALUES)}, [["e", [O.R(tok())]]]))
    elif feature in ("two-malformed-radicals", "one-malformed-radical"):
        for _ in range(2 if feature.startswith("two") else 1):
            b, node = mal()
            lst = rng.choice(lists)
            lst.insert(rng.randrange(len(lst) + 1), node)
            if rng.random() < 0.6:
                lst2 = rng.choice(lists)
                lst2.append(O.R(tok() + close[b] + rng.choice(("", tok()))))
    elif feature == "malformed-radical-under-rad-with-closing-bracket-in-degree":
        b, node = mal()
        wrap = rng.choice(([node], [O.R(tok()), node], [O.N("f", {"pr": 1}, [["num", [node]], ["den", [O.R(tok())]]])]))
        outer = O.N("rad", {"pr": 0}, [["deg", [O.R(tok() + close[b] + rng.choice(("", tok())))]], ["e", wrap]])
        lst = rng.choice(lists)
        lst.insert(rng.randrange(len(lst) + 1), outer)
    elif feature == "d-default-delimiter-over-nested-explicit-delimiter":
        inner = O.N("d", {"pr": 1, "beg": rng.choice("[{|"), "end": rng.choice("]}|")}, [["e", [O.R(tok())]]])
        mid = rng.choice(([inner], [O.N("f", {"pr": 0}, [["num", [inner]], ["den", [O.R(tok())]]])], [O.R(tok()), inner]))
        outer = O.N("d", rng.choice(({"pr": 0, "beg": None, "end": None}, {"pr": 1, "beg": None, "end": None, "ctrl": 1},
                                     {"pr": 1, "beg": "(", "end": None}, {"pr": 1, "beg": None, "end": ")"})), [["e", mid]])
        rng.choice(lists).append(outer)
    return spec


# ======================================================================================================
# parent side: oracle
# ======================================================================================================
def judge(O, a, ob) -> list[tuple[str, str]]:
    """Symptoms of one observed conversion against the analysis of its spec (empty list = held)."""
    if ob.get("_bad"):
        return [(ob["_bad"], ob.get("detail", ""))]
    if ob.get("hang"):
        return [("hang", f"no result within the CPU budget twice ({ob.get('cpu')} s for {ob.get('nodes')} elements)")]
    if ob.get("exc"):
        return [("raises-" + ob["exc"], f"{ob['exc']}: {ob.get('msg', '')}")]
    if not ob.get("str"):
        return [("returns-non-str", ob.get("out", ""))]
    v = []
    out = ob["out"]
    if ob.get("slow"):
        v.append(("cpu-budget-exceeded", f"{ob['cpu']} s process CPU for {ob['nodes']} elements, five times in a row"))
    if not ob.get("det"):
        v.append(("nondeterministic", f"{out[:200]!r} vs {str(ob.get('out2'))[:200]!r}"))
    if ob.get("mut"):
        v.append(("mutates-input", "the element tree serialises differently after conversion"))
    bad = [st for st in ob.get("hist", []) if not st["agree"]]
    if bad:
        st = bad[0]
        v.append(("result-depends-on-element-history", f"after in-place edit '{st['kind']}' ({len(bad)} of {len(ob['hist'])} steps differ) the same element object converts to "
                  f"{st['same']!r}, a freshly parsed copy of the edited tree to {st['fresh']!r}; edited tree {st['tree'][:600]}"))
    if not a.literal_brace and not O.braces_balanced(out):
        v.append(("unbalanced-braces", f"output {out[:300]!r}"))
    if a.malformed == 0:
        flat = "".join(out.split())
        ok, sym, det = O.ordered_once(["".join(r.split()) for r in a.runs], flat)
        if not ok:
            v.append((sym, det + f"; output {out[:300]!r}"))
        if not a.unclaimed:
            got = O.norm_ws(out)
            if got not in [O.norm_ws(x) for x in a.alternatives]:
                sym = "prints-None" if "None" in out and "None" not in a.expected else "template-mismatch"
                v.append((sym, f"output {out[:300]!r} expected {a.expected[:300]!r}"))
    return v


def _outcome(v):
    return "held" if not v else "+".join(sorted(s for s, _ in v))


def _dbg(msg):
    import os
    if os.environ.get("VERIF_DEBUG"):
        print(f"[c19 {time.strftime('%H:%M:%S')}] {msg}", file=sys.stderr, flush=True)


def main(run):
    from vlib import core, pool
    from vlib.gen import omml as O

    run.rule = ("case = one generated OMML tree converted by the real omml_to_latex under the contract; signature = (element kinds, "
                "option features, risky feature, outcome); non-trivial = the post-condition was evaluated (or the call raised) and "
                "the output was compared with the analysis of the spec")
    run.assumptions = [
        "history steps are judged differentially (same object vs. fresh parse of its current serialisation); an exception raised identically by both is counted, not judged",
        "vlib/gen/omml.py writes the XML it claims to (spec -> XML is the ground truth; the reference renderer never reads the XML)",
        "documented forms = sharepoint2text/tests/test_omml_to_latex.py + module docstring; combinations they do not define are counted as unclaimed, not judged by clause 5",
        "a blank is significant only between two letters (it terminates a control word); all other whitespace is ignored when comparing templates",
    ]
    tok = O.Tokens()
    specs: dict[int, dict] = {}
    meta: dict[int, dict] = {}
    fam_counts: dict[str, int] = {}
    skipped_multi = 0
    symbols_used = set()
    integ_pool: list[int] = []

    hist_every = HISTORY_EVERY[0 if run.quick else 1]
    childless_kinds: set = set()

    def register(family, spec, role="case", of=None):
        i = len(specs)
        specs[i] = spec
        meta[i] = {"family": family, "a": O.analyse(spec), "role": role, "of": of}
        return i

    def cases():
        nonlocal skipped_multi
        batch = []
        for family, spec in _families(run, O, tok):
            if broken or len(hangs) >= 10:
                return
            i = register(family, spec)
            a = meta[i]["a"]
            if len(a.risky) > 1:
                skipped_multi += 1
                del specs[i], meta[i]
                continue
            fam_counts[family] = fam_counts.get(family, 0) + 1
            batch.append({"i": i, "xml": O.to_xml(spec), "hist": i % hist_every == 0})
            if a.risky:
                feat = next(iter(a.risky))
                tw = O.twin(spec, feat, tok)
                j = register(family, tw, role="twin", of=i)
                meta[i]["twin"] = j
                batch.append({"i": j, "xml": O.to_xml(tw), "hist": j % hist_every == 0})
            elif family == "ABS" and "operand-absent" in a.features and not a.unclaimed - ABS_OK_UNCLAIMED and "m" not in a.kinds:
                # metamorphic partner: the same tree with every left-out operand container present but empty
                j = register(family, O.fill_absent(spec), role="partner", of=i)
                meta[i]["partner"] = j
                batch.append({"i": j, "xml": O.to_xml(specs[j]), "hist": False})
            if len(batch) >= BATCH:
                yield {"mode": "trees", "items": batch}
                batch = []
        if batch:
            yield {"mode": "trees", "items": batch}

    # ------------------------------------------------------------------ run the trees
    _dbg("start")
    obs: dict[int, dict] = {}
    broken: list = []
    hangs: list = []
    evals = 0
    rebinds = None
    retry: list[dict] = []
    for case, ob in pool.run_cases("checks.c19:work", cases(), deadline_s=300, rlimit_as=2 << 30):
        if "items" not in ob:
            if ob.get("_startup"):
                if not broken:
                    run.inconclusive("worker cannot start (the module under test does not import?): " + ob.get("stderr", "").strip().splitlines()[-1][:300] if ob.get("stderr", "").strip() else "worker cannot start")
                broken.append(1)
                continue
            if ob.get("_harness_error"):
                run.inconclusive("worker harness error: " + ob["_harness_error"])
                print(ob.get("_tb", ""))
                continue
            _dbg("batch failed: " + core.jdump({k: v for k, v in ob.items() if k != "stderr"})[:300])
            retry.extend({"mode": "trees", "items": [it]} for it in case["items"])
            continue
        evals += ob["evals"]
        rebinds = ob["rebinds"] if rebinds is None else min(rebinds, ob["rebinds"])
        if any(it.get("hang") or it.get("not_run") for it in ob["items"]):
            _dbg(f"batch first={case['items'][0]['i']} hang={sum(1 for it in ob['items'] if it.get('hang'))} not_run={sum(1 for it in ob['items'] if it.get('not_run'))} cpu={ob.get('cpu_s')}")
        for it in ob["items"]:
            if it.get("not_run"):
                run.count("trees_not_run_after_hangs")
                continue
            obs[it["i"]] = it
            if it.get("hang"):
                hangs.append(it["i"])
    _dbg(f"tree phase done: obs={len(obs)} retry={len(retry)} hangs={len(hangs)}")
    if broken:
        return
    if len(retry) > 600:
        run.count("retry_items_dropped", len(retry) - 600)
        run.inconclusive(f"{len(retry)} trees were in batches that died or stalled; only 600 re-run one by one")
        retry = retry[:600]
    if retry:
        run.count("batches_rerun_itemwise", len(retry))
        for case, ob in pool.run_cases("checks.c19:work", retry, deadline_s=120, rlimit_as=2 << 30):
            i = case["items"][0]["i"]
            if "items" in ob:
                evals += ob["evals"]
                obs[i] = ob["items"][0]
            elif ob.get("_timeout") or ob.get("_cpu_exhausted"):
                if ob.get("_cpu_exhausted") or ob.get("cpu_s", 0) > 60:
                    obs[i] = {"_bad": "hang", "detail": f"worker stalled alone: {core.jdump(ob)[:300]}"}
                else:
                    run.inconclusive_cases += 1
            elif ob.get("_oom"):
                obs[i] = {"_bad": "memory-exhausted", "detail": "MemoryError under RLIMIT_AS 2 GiB"}
            else:
                obs[i] = {"_bad": "worker-died", "detail": core.jdump(ob)[:400]}

    _dbg("retry phase done")
    # ------------------------------------------------------------------ verdicts
    verdicts: dict[int, list] = {}
    for i, ob in obs.items():
        verdicts[i] = judge(O, meta[i]["a"], ob)
    compared_kind: dict[str, int] = {}
    odd_seen: set = set()
    sampled: set = set()
    for i in sorted(obs):
        m = meta[i]
        a = m["a"]
        ob = obs[i]
        v = verdicts[i]
        if a.malformed == 0 and ob.get("out") is not None:
            symbols_used |= a.symbols
        run.count("trees_converted")
        run.count("elements_converted", ob.get("nodes", 0))
        if a.malformed == 0 and not a.unclaimed and ob.get("out") is not None:
            run.count("clause5_template_compared")
            for k in a.kinds:
                compared_kind[k] = compared_kind.get(k, 0) + 1
        elif a.malformed:
            run.count("malformed_radical_trees")
        else:
            run.count("clause5_unclaimed")
            for reason in a.unclaimed:
                run.count("unclaimed:" + reason)
        if a.malformed == 0:
            run.count("clause3_token_order_checked")
            run.count("clause3_runs_checked", len(a.runs))
            for ft in ("run:text-in-w:t-of-m:r", "run:text-in-w:r"):
                if ft in a.features:
                    run.count("clause3_checked_with_" + ft)
        if a.malformed == 0 and not a.unclaimed and ob.get("out") is not None and "func:name=near-miss" in a.features:
            run.count("clause5_template_compared_with_near_miss_function_name")
            for ft in ("func:name-split-over-runs", "func:name-with-script"):
                if ft in a.features:
                    run.count("clause5_template_compared_with_near_miss_" + ft)
        odd = [ft for ft in a.features if ft.startswith("odd:")]
        if odd and ob.get("out") is not None:
            run.count("odd_attribute_value_trees_converted")
            odd_seen.update(odd)
        if a.malformed == 0 and not a.unclaimed and ob.get("out") is not None and ("d:beg=empty" in a.features or "d:end=empty" in a.features):
            run.count("clause5_template_compared_with_empty_delimiter_value")
        if not a.literal_brace:
            run.count("clause4_balance_checked")
        if ob.get("attempts", 1) > 1:
            run.count("cpu_budget_reruns")
        if ob.get("hist"):
            run.count("history_trees")
            for st in ob["hist"]:
                run.count("history_steps_compared")
                run.count("history_step:" + st["kind"])
                if st.get("raised"):
                    run.count("history_step_raised_on_both:" + st["raised"])
                run.case(["history", st["kind"], "agree" if st["agree"] else "differ", st.get("raised")])
        risky = next(iter(a.risky)) if a.risky else None
        feature = risky or "clean"
        if "no-child-element" in a.features and ob.get("out") is not None and len(a.kinds) == 1:
            childless_kinds.update(a.kinds)
        if m["role"] == "partner":
            run.count("empty_operand_partners")
            feature = "clean"
        elif m["role"] == "twin":
            run.count("control_twins")
            if a.risky:
                run.inconclusive(f"harness: twin of case {m['of']} still carries {sorted(a.risky)}")
            feature = "clean"
        elif risky:
            run.count("risky:" + risky)
        elif a.malformed == 0 and len(integ_pool) < 4000 and specs[i].get("para") == 0 and m["family"] in ("E1", "E2", "RND", "sym", "E3"):
            integ_pool.append(i)
        sig = [sorted(a.kinds), sorted(a.features), feature, _outcome(v), sorted(a.unclaimed)]
        want_sample = (m["role"] == "case" and (m["family"], bool(risky)) not in sampled and m["family"] in ("E2", "MR", "RND", "MR2")
                       and (not risky or v) and (risky or not a.unclaimed or a.malformed))
        if want_sample:
            sampled.add((m["family"], bool(risky)))
        run.case(sig, sample={"family": m["family"], "feature": feature, "xml": O.to_xml(specs[i])[:700], "output": ob.get("out"), "raised": ob.get("exc"),
                              "expected": a.expected if not a.unclaimed and not a.malformed else None, "verdict": _outcome(v)} if want_sample else None)
        for sym, detail in v:
            twin_dirty = bool(risky and verdicts.get(m.get("twin"), [("twin-not-run", "")]))
            key = f"C19:{COMPONENT}:{feature}{'+dirty-twin' if twin_dirty else ''}:{sym}"
            rep = {"family": m["family"], "spec": specs[i], "feature": feature, "symptom": sym}
            if risky:
                rep["twin"] = specs.get(m.get("twin"))
                rep["twin_verdict"] = verdicts.get(m.get("twin"))
            run.violation(key, f"[{m['family']}] {detail} | xml {O.to_xml(specs[i])[:700]}", rep)

    # ------------------------------------------------------------------ left-out operand container == empty operand container
    for i in sorted(obs):
        j = meta[i].get("partner")
        if j is None or j not in obs:
            continue
        oi, oj = obs[i].get("out"), obs[j].get("out")
        if not isinstance(oi, str) or not isinstance(oj, str):
            continue                                     # raised / hung: reported by clause 1 on the tree itself
        run.count("absent_operand_trees_compared_with_empty_operand_partner")
        same = O.norm_ws(oi) == O.norm_ws(oj)
        run.case(["absent-vs-empty-operand", sorted(meta[i]["a"].kinds), "no-child-element" in meta[i]["a"].features, "same" if same else "differ"])
        if not same:
            run.violation(f"C19:{COMPONENT}:clean:absent-operand-differs-from-empty-operand",
                          f"[ABS] {oi[:200]!r} for {O.to_xml(specs[i]).partition('>')[2][:600]} but {oj[:200]!r} with the left-out operand containers present and empty",
                          {"family": "ABS", "spec": specs[i], "partner": specs[j], "feature": "clean", "symptom": "absent-operand-differs-from-empty-operand"})
    _dbg("verdicts done")
    # ------------------------------------------------------------------ the symbol table itself (finite, complete)
    ascii_pass = "".join(chr(c) for c in range(32, 127))
    for case, ob in pool.run_cases("checks.c19:work", [{"mode": "table", "chars": O.SYMBOL_CHARS + list(ascii_pass), "joined": "".join(O.SYMBOL_CHARS)}], workers=1):
        if "map" not in ob:
            run.inconclusive("symbol table probe failed: " + core.jdump(ob)[:200])
            continue
        for c in O.SYMBOL_CHARS + list(ascii_pass):
            exp = O.SYMBOLS.get(c, c)
            run.count("symbol_table_entries_compared")
            if ob["map"].get(c) != exp:
                run.violation(f"C19:convert_greek_and_symbols:clean:symbol-mapped-wrong", f"U+{ord(c):04X} {c!r} -> {ob['map'].get(c)!r}, documented {exp!r}", {"char": c})
        if ob["joined"] != O.map_text("".join(O.SYMBOL_CHARS)):
            run.violation("C19:convert_greek_and_symbols:clean:symbol-mapped-wrong", "all mapped characters in one string differ", {"chars": "all"})
        run.case("symbol-table")

    # ------------------------------------------------------------------ outside the quantifier (depth <= 8): recorded, never judged
    for case, ob in pool.run_cases("checks.c19:work", [{"mode": "deep", "depth": d} for d in (100, 400, 2000)], workers=1, deadline_s=120):
        run.count(f"probe_outside_quantifier:nesting-depth-{case['depth']}:{ob.get('outcome', 'worker-problem')}")

    # ------------------------------------------------------------------ integration: formulas inside docx / pptx
    _dbg("probes done")
    if hangs:
        run.count("integration_skipped_after_hangs")
        integ = 0
    else:
        integ = _integration(run, O, pool, core, specs, meta, obs, integ_pool, tok)
    _dbg("integration done")
    evals += integ

    # ------------------------------------------------------------------ thresholds, extras
    n_trees = run.counters.get("trees_converted", 0)
    run.count("contract_evaluations", evals)
    run.count("skipped_more_than_one_risky_feature", skipped_multi)
    run.require("contract_evaluations", evals, 2 * n_trees)
    run.require("contract_bindings_replaced", rebinds or 0, 3)
    run.require("trees_converted", n_trees, run.n(20000, 100000))
    run.require("mapped_symbols_seen_in_run_texts", len(symbols_used), len(O.SYMBOLS))
    run.require("clause5_template_compared", run.counters.get("clause5_template_compared", 0), 5000)
    for k in O.STRUCT:
        run.count("template_compared_" + k, compared_kind.get(k, 0))
        run.require("template_compared_" + k, compared_kind.get(k, 0), 100)
    run.require("history_trees", run.counters.get("history_trees", 0), n_trees // (hist_every + hist_every // 4))
    run.require("absent_operand_trees_compared_with_empty_operand_partner", run.counters.get("absent_operand_trees_compared_with_empty_operand_partner", 0), 250)
    run.require("element_kinds_converted_without_any_child_element", len(childless_kinds), len(O.STRUCT) + len(O.CONTAINERS))
    for kind in HISTORY_STEPS:
        run.require("history_step:" + kind, run.counters.get("history_step:" + kind, 0), 1000)
    run.require("malformed_radical_trees", run.counters.get("malformed_radical_trees", 0), 300)
    for ft in ("run:text-in-w:t-of-m:r", "run:text-in-w:r"):
        run.require("clause3_checked_with_" + ft, run.counters.get("clause3_checked_with_" + ft, 0), 300)
    run.require("clause5_template_compared_with_near_miss_function_name", run.counters.get("clause5_template_compared_with_near_miss_function_name", 0), 300)
    for ft in ("func:name-split-over-runs", "func:name-with-script"):
        run.require("clause5_template_compared_with_near_miss_" + ft, run.counters.get("clause5_template_compared_with_near_miss_" + ft, 0), 50)
    run.require("odd_attribute_value_trees_converted", run.counters.get("odd_attribute_value_trees_converted", 0), 1000)
    run.require("attributes_given_odd_values", len(odd_seen & {f"odd:{k}.{t}" for k, t, _ in O.ODD_ATTRS}), len(O.ODD_ATTRS))
    run.require("clause5_template_compared_with_empty_delimiter_value", run.counters.get("clause5_template_compared_with_empty_delimiter_value", 0), 100)
    run.require("control_twins", run.counters.get("control_twins", 0), 50)
    for f in sorted(O.RISKY):
        run.require("risky:" + f, run.counters.get("risky:" + f, 0), 10)
    run.extras["bounded_exhaustive"] = {
        "definition": "ABS: every element x every subset of its operand containers left out (down to no child element at all) x property element present/absent, each also compared with its partner that has the containers present and empty; FN: function names that begin with / end with / contain / are a prefix of / differ in case from a known name, as one run, split at every position, with a script inside m:fName; ODD: every character-/enumeration-valued attribute x every odd value (vlib.gen.omml.ODD_VALUES, attribute absent) alone / between runs / as operand; WT: run text in <m:r><w:t> / <w:r><w:t> at top level and as each operand of each element; E1: every element x every optional child/attribute combination, with and without interleaved property elements; "
                      "E1-empty: every subset of operands empty; E2: depth 2 (quick: all variants x canonical both ways; thorough: all x one-factor both ways), "
                      "E2-width2: two items per operand; E3: depth 3 of canonical variants; MR/MR2: malformed radical x every continuation",
        "trees_per_family": dict(sorted(fam_counts.items())),
    }
    run.extras["unclaimed_rule"] = "clause 5 is skipped when the tests/README do not define the form (reasons counted under unclaimed:*)"


def _integration(run, O, pool, core, specs, meta, obs, integ_pool, tok) -> int:
    """Embed formulas into generated docx/pptx; compare with the direct conversion; record what a raising formula does."""
    rng = run.rng
    ndocs = run.n(40, 400)
    words = [f"qh{n:05d}z" for n in range(1, 8)]
    raising = [i for i, m in meta.items() if m["role"] == "case" and obs.get(i, {}).get("exc") and specs[i].get("para") == 0]
    cases = []
    for d in range(ndocs):
        fmt = ("docx", "pptx")[d % 2]
        k = rng.choice((1, 2, 3, 5))
        picks = [rng.choice(integ_pool) for _ in range(k)] if integ_pool else []
        bad = d % 4 >= 2 and raising
        if bad:
            picks.insert(rng.randrange(len(picks) + 1), rng.choice(raising))
        forms = [(O.to_xml(specs[i]), rng.random() < 0.4) for i in picks]
        if fmt == "docx":
            data = O.docx_bytes(forms, words)
            layout = [forms]
        else:
            cut = rng.randrange(len(forms) + 1)
            layout = [s for s in (forms[:cut], forms[cut:]) if s]
            data = O.pptx_bytes(layout, words)
        cases.append({"mode": "doc", "fmt": fmt, "b64": core.b64(data), "formulas": [x for x, _ in forms],
                      "display": [bool(dsp) for _, dsp in forms], "layout": [len(s) for s in layout], "bad": bool(bad)})
    evals = 0
    for case, ob in pool.run_cases("checks.c19:work", cases, deadline_s=120, rlimit_as=2 << 30):
        fmt = case["fmt"]
        if "direct" not in ob:
            run.inconclusive_cases += 1
            run.count(f"integration:{fmt}:worker-problem")
            continue
        evals += ob.get("evals", 0)
        direct = ob["direct"]
        any_raise = any("exc" in d for d in direct)
        rep = {"fmt": fmt, "b64": case["b64"], "formulas": case["formulas"], "display": case["display"], "layout": case["layout"]}
        if any_raise:
            # C01's concern: only record what the document-level surface is when one formula makes the converter raise
            surface = ">".join(ob["exc"][:2]) + f"(cause={ob.get('cause')})" if ob.get("exc") else "no-exception"
            run.count(f"integration:{fmt}:document-with-raising-formula:{surface}")
            run.case(["integration", fmt, "raising-formula", surface])
            continue
        if ob.get("exc"):
            run.violation(f"C19:{fmt}:clean:document-fails-although-every-formula-converts",
                          f"{ob['exc'][0]}: {ob.get('msg')} (cause {ob.get('cause')})", rep)
            run.case(["integration", fmt, "raised"])
            continue
        exp = [(d["out"], dsp) for d, dsp in zip(direct, case["display"]) if d["out"].strip()]
        if fmt == "docx":
            want = [[o, True] for o, dsp in exp if dsp] + [[o, False] for o, dsp in exp if not dsp]
            got = ob["formulas"]
        else:
            # one formula per text box, boxes sorted by position => document order within a slide
            want, got, pos = [], ob["formulas"], 0
            for nslide in case["layout"]:
                want.append([[d["out"], dsp] for d, dsp in zip(direct[pos:pos + nslide], case["display"][pos:pos + nslide]) if d["out"].strip()])
                pos += nslide
        ok = got == want
        if not ok:
            run.violation(f"C19:{fmt}:clean:formula-list-differs-from-direct-conversion", f"extractor {core.jdump(got)[:400]} direct {core.jdump(want)[:400]}", rep)
        missing = [o for o, dsp in exp if (f"$${o}$$" if dsp else f"${o}$") not in ob.get("text", "")]
        if missing:
            run.violation(f"C19:{fmt}:clean:formula-missing-from-full-text", f"{missing[0][:200]!r} not in full text {ob.get('text', '')[:300]!r}", rep)
        if ob.get("mut_in_doc"):
            run.violation(f"C19:{fmt}:clean:mutates-input", "conversion inside the extractor changed the document tree", rep)
        run.count(f"integration:{fmt}:documents-read")
        run.count(f"integration:{fmt}:formulas-compared", len(exp))
        run.count(f"integration:{fmt}:contract-evaluations-inside-extractor", ob.get("evals_in_doc", 0))
        run.case(["integration", fmt, len(exp), "held" if ok and not missing else "differs"],
                 sample={"fmt": fmt, "formulas": got} if run.counters.get(f"integration:{fmt}:documents-read", 0) == 1 else None)
    for fmt in ("docx", "pptx"):
        run.require(f"integration:{fmt}:documents-read", run.counters.get(f"integration:{fmt}:documents-read", 0), 5)
        run.require(f"integration:{fmt}:contract-evaluations-inside-extractor",
                    run.counters.get(f"integration:{fmt}:contract-evaluations-inside-extractor", 0), 5)
    return evals


# ======================================================================================================
def replay(run, doc):
    from vlib import core
    from vlib.gen import omml as O
    import signal
    from vlib import worker
    core.setup_paths()
    install_contract()
    signal.signal(signal.SIGPROF, worker._on_prof)      # _observe arms a CPU budget; outside a pool worker nobody handles it
    case = doc.get("case", doc)
    if "spec" not in case:
        print("replay: integration case", case.get("fmt"))
        ob = _read_doc(case["fmt"], core.unb64(case["b64"]))
        print(core.jdump(ob)[:3000])
        return
    outs = {}
    for label in ("spec", "twin", "partner"):
        spec = case.get(label)
        if not spec:
            continue
        a = O.analyse(spec)
        ob = _observe(O.to_xml(spec), True)
        v = judge(O, a, ob)
        print(f"--- {label}: risky={sorted(a.risky)} unclaimed={sorted(a.unclaimed)} malformed={a.malformed}")
        print("xml     :", O.to_xml(spec))
        print("output  :", repr(ob.get("out")), "exc:", ob.get("exc"), ob.get("msg", ""))
        print("expected:", repr(a.expected) if not a.unclaimed and not a.malformed else "(not claimed)")
        print("verdict :", v or "held")
        run.case([label, _outcome(v)])
        outs[label] = ob.get("out")
        if label == "partner" and isinstance(outs.get("spec"), str) and isinstance(outs["partner"], str) and O.norm_ws(outs["spec"]) != O.norm_ws(outs["partner"]):
            run.violation(f"C19:{COMPONENT}:clean:absent-operand-differs-from-empty-operand", f"{outs['spec']!r} vs {outs['partner']!r} with the left-out operand containers present and empty", case)
        if label == "spec":
            feature = next(iter(a.risky)) if a.risky else "clean"
            for sym, detail in v:
                run.violation(f"C19:{COMPONENT}:{feature}:{sym}", detail, case)
