"""C05 — to_json is JSON-serialisable and from_json restores the same object; binary exclusion; CLI JSON.

Part 1 (results): every result of the corpus (fixtures, generated documents incl. every risky feature) and each of
its units is serialised with the standard encoder, decoded, rebuilt with ExtractionInterface.from_json and compared
(type, canonical JSON, full text, unit texts, tables, binary payloads); include_binary=False must differ from the full
JSON exactly at the binary leaves; the CLI's --json / --json-unit / --binary output must be that same JSON.
Part 2 (type-directed): every registered dataclass is instantiated with every field populated from its type hint
(strings from a marker vocabulary: "_type", "_bytes", "_bytesio", class names, base64-looking text) and round-tripped.
"""
from __future__ import annotations

import dataclasses
import io
import json
import os
import random
import sys
import typing

from vlib import corpus, pool

LEVEL = "exploration"
MARKERS = ["_type", "_bytes", "_bytesio", "value", "DocxContent", "EmailAttachment", "QUJDRA==", "", "plain text", "ünï 😀", '{"_type": "PdfContent"}', "null",
           # strings a constructor may normalise: whatever it does must be stable when from_json runs the constructor a second time
           "  padded both sides  ", "ends in blank and NUL \x00", "\x00 \x00", "line end\r\n", "\u00a0 no-break blanks \u00a0", "tab\t"]


def work_init(init):
    import logging
    logging.disable(logging.CRITICAL)
    import sharepoint2text  # noqa
    import sharepoint2text.cli  # noqa
    from vlib import obs
    for k in corpus.KINDS:
        obs.extractor(k)


def canon(j):
    return json.dumps(j, sort_keys=True, ensure_ascii=True)


def _binary_leaves(obj, path="$", out=None, depth=0):
    """Walk an object graph the way the serializer does and list the JSON paths of binary leaves."""
    if out is None:
        out = []
    if depth > 40:
        return out
    if isinstance(obj, (io.BytesIO, bytes, bytearray)):
        out.append(path)
    elif dataclasses.is_dataclass(obj) and not isinstance(obj, type):
        for f in dataclasses.fields(obj):
            _binary_leaves(getattr(obj, f.name), f"{path}.{f.name}", out, depth + 1)
    elif isinstance(obj, dict):
        for k, v in obj.items():
            _binary_leaves(v, f"{path}.{k}", out, depth + 1)
    elif isinstance(obj, (list, tuple, set)):
        for i, v in enumerate(obj):
            _binary_leaves(v, f"{path}[{i}]", out, depth + 1)
    return out


def _binary_state(obj):
    """path -> (type name, content) of every binary leaf reachable the way the serializer walks."""
    st = {}

    def walk(o, path, depth):
        if depth > 40:
            return
        if isinstance(o, io.BytesIO):
            st[path] = ("BytesIO", o.getvalue())
        elif isinstance(o, (bytes, bytearray)):
            st[path] = (type(o).__name__, bytes(o))
        elif dataclasses.is_dataclass(o) and not isinstance(o, type):
            for f in dataclasses.fields(o):
                walk(getattr(o, f.name), f"{path}.{f.name}", depth + 1)
        elif isinstance(o, dict):
            for k, v in o.items():
                walk(v, f"{path}.{k}", depth + 1)
        elif isinstance(o, (list, tuple, set)):
            for i, v in enumerate(o):
                walk(v, f"{path}[{i}]", depth + 1)
    walk(obj, "$", 0)
    return st


def _binary_restored(obj, back, label):
    """'restores the same object': every binary field of the original is the same kind of object with the same bytes afterwards
    (to_json() of the rebuilt object cannot show this: a marker dict left undecoded serialises to itself)."""
    a, b = _binary_state(obj), _binary_state(back)
    for pth, (tp, val) in a.items():
        if pth not in b:
            return [{"sym": "roundtrip-binary-field-not-restored", "detail": f"{label}: {pth} was {tp} of {len(val)} bytes, is not a binary object after from_json"}]
        if b[pth] != (tp, val):
            return [{"sym": "roundtrip-binary-field-differs", "detail": f"{label}: {pth} was {tp} of {len(val)} bytes, is {b[pth][0]} of {len(b[pth][1])} bytes after from_json"}]
    return []


def _structure_restored(obj, back, label):
    """'restores the same object': wherever the original holds a dataclass instance the rebuilt object holds an instance of the same
    class (to_json() cannot show a nested object left as a plain dict: it serialises to itself), and no two binary streams of the rebuilt
    object are one and the same stream object."""
    probs = []

    def walk(a, b, path, depth):
        if depth > 40 or probs:
            return
        if dataclasses.is_dataclass(a) and not isinstance(a, type):
            if type(b) is not type(a):
                probs.append({"sym": "roundtrip-nested-object-not-restored", "detail": f"{label}: {path} was {type(a).__name__}, is {type(b).__name__} after from_json"})
                return
            for f in dataclasses.fields(a):
                walk(getattr(a, f.name), getattr(b, f.name, None), f"{path}.{f.name}", depth + 1)
        elif isinstance(a, dict) and isinstance(b, dict):
            for k, v in a.items():
                if k in b:
                    walk(v, b[k], f"{path}.{k}", depth + 1)
        elif isinstance(a, (list, tuple)) and isinstance(b, (list, tuple)):
            for i, (x, y) in enumerate(zip(a, b)):
                walk(x, y, f"{path}[{i}]", depth + 1)
    walk(obj, back, "$", 0)
    seen = {}

    def streams(o, path, depth):
        if depth > 40:
            return
        if isinstance(o, io.BytesIO):
            if id(o) in seen and seen[id(o)] != path:
                probs.append({"sym": "roundtrip-streams-shared", "detail": f"{label}: {seen[id(o)]} and {path} are one stream object after from_json"})
            seen[id(o)] = path
        elif dataclasses.is_dataclass(o) and not isinstance(o, type):
            for f in dataclasses.fields(o):
                streams(getattr(o, f.name), f"{path}.{f.name}", depth + 1)
        elif isinstance(o, dict):
            for k, v in o.items():
                streams(v, f"{path}.{k}", depth + 1)
        elif isinstance(o, (list, tuple)):
            for i, v in enumerate(o):
                streams(v, f"{path}[{i}]", depth + 1)
    orig_ids = {}
    streams(obj, "$", 0)
    shared_in_original = any(p["sym"] == "roundtrip-streams-shared" for p in probs)
    probs[:] = [p for p in probs if p["sym"] != "roundtrip-streams-shared"]
    seen.clear()
    if not shared_in_original:
        streams(back, "$", 0)
    return probs[:1]


def _consume_streams(o, depth=0):
    """Read every binary stream of a rebuilt object to its end and close it (what a consumer does)."""
    if depth > 40:
        return
    if isinstance(o, io.BytesIO):
        try:
            o.read()
            o.close()
        except Exception:
            pass
    elif dataclasses.is_dataclass(o) and not isinstance(o, type):
        for f in dataclasses.fields(o):
            _consume_streams(getattr(o, f.name), depth + 1)
    elif isinstance(o, dict):
        for v in o.values():
            _consume_streams(v, depth + 1)
    elif isinstance(o, (list, tuple)):
        for v in o:
            _consume_streams(v, depth + 1)


def _restore_twice(json_text, first_back, label):
    """from_json of the same JSON a second time, after a consumer has read and closed the streams of the first rebuilt object: the
    second object's streams must be fresh (open, at position 0, with the original bytes)."""
    from sharepoint2text.parsing.extractors.data_types import ExtractionInterface
    want = _binary_state(first_back)
    _consume_streams(first_back)
    try:
        again = ExtractionInterface.from_json(json.loads(json_text))
        got = {}

        def walk(o, path, depth):
            if depth > 40:
                return
            if isinstance(o, io.BytesIO):
                got[path] = ("closed", b"") if o.closed else (("BytesIO", o.read()) if o.tell() == 0 else ("not-at-0", b""))
            elif dataclasses.is_dataclass(o) and not isinstance(o, type):
                for f in dataclasses.fields(o):
                    walk(getattr(o, f.name), f"{path}.{f.name}", depth + 1)
            elif isinstance(o, dict):
                for k, v in o.items():
                    walk(v, f"{path}.{k}", depth + 1)
            elif isinstance(o, (list, tuple)):
                for i, v in enumerate(o):
                    walk(v, f"{path}[{i}]", depth + 1)
        walk(again, "$", 0)
    except Exception as e:
        return [{"sym": f"second-from-json-raises-{type(e).__name__}", "detail": f"{label}: {e}"[:200]}]
    for pth, (kind, val) in got.items():
        if pth in want and want[pth][0] == "BytesIO" and (kind, val) != want[pth]:
            return [{"sym": "second-restore-hands-out-used-streams", "detail": f"{label}: {pth} of a second from_json of the same JSON is {kind} with {len(val)} bytes, the first restore gave {len(want[pth][1])} bytes"}]
    return []


def _diff_paths(a, b, path="$", out=None):
    if out is None:
        out = []
    if len(out) > 50:
        return out
    if isinstance(a, dict) and isinstance(b, dict):
        for k in sorted(set(a) | set(b)):
            if k not in a or k not in b:
                out.append((f"{path}.{k}", "missing-key"))
            else:
                _diff_paths(a[k], b[k], f"{path}.{k}", out)
    elif isinstance(a, list) and isinstance(b, list):
        if len(a) != len(b):
            out.append((path, f"len {len(a)} vs {len(b)}"))
        else:
            for i, (x, y) in enumerate(zip(a, b)):
                _diff_paths(x, y, f"{path}[{i}]", out)
    elif a != b or type(a) is not type(b):
        out.append((path, f"{str(a)[:40]!r} vs {str(b)[:40]!r}"))
    return out


def roundtrip_problems(obj, label) -> list[dict]:
    """Serialise / deserialise one object (result or unit) and report problems."""
    from sharepoint2text.parsing.extractors.data_types import ExtractionInterface
    from sharepoint2text.parsing.extractors.serialization import serialize_extraction
    probs = []
    try:
        j = obj.to_json()
    except Exception as e:
        return [{"sym": f"to-json-raises-{type(e).__name__}", "detail": f"{label}: {e}"[:300]}]
    try:
        s = json.dumps(j)
    except Exception as e:
        return [{"sym": f"json-dumps-raises-{type(e).__name__}", "detail": f"{label}: {e}"[:300]}]
    nb_err = nb = None
    try:   # taken back-to-back with to_json(): observer side effects (C06's business) must not leak into this comparison
        nb = json.loads(json.dumps(serialize_extraction(obj, include_binary=False)))
        leaves = set(_binary_leaves(obj))
    except Exception as e:
        nb_err = e
    try:
        back = ExtractionInterface.from_json(json.loads(s))
    except Exception as e:
        return [{"sym": f"from-json-raises-{type(e).__name__}", "detail": f"{label}: {e}"[:300]}]
    if type(back) is not type(obj):
        probs.append({"sym": "from-json-wrong-type", "detail": f"{label}: {type(back).__name__} instead of {type(obj).__name__}"})
        return probs
    try:
        j2 = json.loads(json.dumps(back.to_json()))
    except Exception as e:
        return [{"sym": f"reserialise-raises-{type(e).__name__}", "detail": f"{label}: {e}"[:300]}]
    d = _diff_paths(json.loads(s), j2)
    if d:
        probs.append({"sym": "roundtrip-json-differs", "detail": f"{label}: {d[:3]}"})
    probs += _binary_restored(obj, back, label)
    probs += _structure_restored(obj, back, label)
    # behaviour of the rebuilt object
    for acc in ("get_full_text", "get_text"):
        if hasattr(obj, acc):
            try:
                if getattr(obj, acc)() != getattr(back, acc)():
                    probs.append({"sym": f"roundtrip-{acc}-differs", "detail": label})
            except Exception as e:
                probs.append({"sym": f"roundtrip-{acc}-raises-{type(e).__name__}", "detail": f"{label}: {e}"[:200]})
    if hasattr(obj, "iterate_units"):
        try:
            a = [(u.get_text(), [t.get_table() for t in u.get_tables()], [i.get_bytes().read() for i in u.get_images()]) for u in obj.iterate_units()]
            b = [(u.get_text(), [t.get_table() for t in u.get_tables()], [i.get_bytes().read() for i in u.get_images()]) for u in back.iterate_units()]
            if canon(json.loads(json.dumps(a, default=lambda x: x.hex() if isinstance(x, bytes) else repr(x)))) != canon(json.loads(json.dumps(b, default=lambda x: x.hex() if isinstance(x, bytes) else repr(x)))):
                probs.append({"sym": "roundtrip-units-differ", "detail": label})
            ia = [i.get_bytes().read() for i in obj.iterate_images()]
            ib = [i.get_bytes().read() for i in back.iterate_images()]
            if ia != ib:
                probs.append({"sym": "roundtrip-image-bytes-differ", "detail": label})
            ta = [t.get_table() for t in obj.iterate_tables()]
            tb = [t.get_table() for t in back.iterate_tables()]
            if canon(json.loads(json.dumps(ta, default=repr))) != canon(json.loads(json.dumps(tb, default=repr))):
                probs.append({"sym": "roundtrip-tables-differ", "detail": label})
        except Exception as e:
            probs.append({"sym": f"roundtrip-accessors-raise-{type(e).__name__}", "detail": f"{label}: {e}"[:200]})
    # binary exclusion: exactly the binary leaves become null
    try:
        if nb_err is not None:
            raise nb_err
        full = json.loads(s)
        for pth, why in _diff_paths(full, nb):
            if pth not in leaves:
                probs.append({"sym": "no-binary-changes-non-binary-field", "detail": f"{label}: {pth}: {why}"})
                break
        # every binary leaf must be null
        def get(j, pth):
            cur = j
            import re
            for m in re.finditer(r"\.([^.\[]+)|\[(\d+)\]", pth[1:]):
                cur = cur[m.group(1)] if m.group(1) is not None else cur[int(m.group(2))]
            return cur
        for pth in leaves:
            try:
                if get(nb, pth) is not None:
                    probs.append({"sym": "no-binary-keeps-binary-field", "detail": f"{label}: {pth}"})
                    break
            except Exception:
                pass
    except Exception as e:
        probs.append({"sym": f"no-binary-serialise-raises-{type(e).__name__}", "detail": f"{label}: {e}"[:200]})
    probs += _restore_twice(s, back, label)
    return probs


def work(case):
    from vlib import obs
    from vlib.worker import arm_cpu
    arm_cpu(120)
    if case["part"] == "typed":
        return work_typed(case)
    data = corpus.make_input(case["recipe"])
    kind = case["kind"]
    ext = corpus.KIND_EXT[kind] if kind != "zip" else corpus.source_ext(case["recipe"]["src"])
    out = {"kind": kind, "probs": [], "n_results": 0, "n_units": 0, "classes": []}
    import tempfile
    with tempfile.TemporaryDirectory(prefix="verif-c05-") as td:
        p = os.path.join(td, "in" + ext)
        with open(p, "wb") as f:
            f.write(data)
        # the path argument in the forms the signature allows (str | Path | None), for files that exist and for names that do not
        import pathlib
        forms = [p, pathlib.Path(p), pathlib.Path("elsewhere") / "dir" / ("in" + ext), "https://host.example/lib/in" + ext, None, pathlib.PurePosixPath("rel") / ("in" + ext)]
        path_arg = forms[case["id"] % len(forms)]
        out["path_form"] = type(path_arg).__name__
        try:
            results = list(obs.extractor(kind)(io.BytesIO(data), path_arg))
        except Exception as e:
            out["exc"] = obs.exc_record(e)
            return out
        out["n_results"] = len(results)
        for r in results[:10]:
            out["classes"].append(type(r).__name__)
            out["probs"] += roundtrip_problems(r, type(r).__name__)
            try:
                units = list(r.iterate_units())
            except Exception:
                units = []
            out["n_units"] += len(units)
            for u in units[:30]:
                out["probs"] += roundtrip_problems(u, type(u).__name__)
        # CLI output is that same JSON
        if case.get("cli") and results:
            from sharepoint2text import cli
            from sharepoint2text.parsing.extractors.serialization import serialize_extraction
            for args, binary, unit in ((["--json"], False, False), (["--json", "--binary"], True, False), (["--json-unit"], False, True)):
                # stdout as a real encoded text stream (strict UTF-8, what a terminal or a pipe is): a StringIO would accept text
                # that no stream can carry
                class _Utf8Out(io.TextIOWrapper):
                    def getvalue(self):
                        self.flush()
                        return self.buffer.getvalue().decode("utf-8")
                so, se = _Utf8Out(io.BytesIO(), encoding="utf-8", errors="strict", write_through=True), io.StringIO()
                old = sys.stdout, sys.stderr
                sys.stdout, sys.stderr = so, se
                try:
                    code = cli.main([p] + args)
                except BaseException as e:
                    code = f"raised {type(e).__name__}"
                finally:
                    sys.stdout, sys.stderr = old
                try:
                    fresh = list(obs.extractor(kind)(io.BytesIO(data), p))
                    if unit:
                        exp = [[serialize_extraction(u, include_binary=binary) for u in r.iterate_units()] for r in fresh]
                    else:
                        exp = [serialize_extraction(r, include_binary=binary) for r in fresh]
                    exp = exp[0] if len(exp) == 1 else exp
                    expected = json.loads(json.dumps(exp))
                    fresh2 = list(obs.extractor(kind)(io.BytesIO(data), p))
                    if unit:
                        exp2 = [[serialize_extraction(u, include_binary=binary) for u in r.iterate_units()] for r in fresh2]
                    else:
                        exp2 = [serialize_extraction(r, include_binary=binary) for r in fresh2]
                    exp2 = json.loads(json.dumps(exp2[0] if len(exp2) == 1 else exp2))
                    unstable = {pth for pth, _ in _diff_paths(expected, exp2)}   # nondeterministic fields are C06's findings, masked here
                except Exception as e:
                    # serialisation itself fails: the CLI must then fail too (C01 judges how)
                    if code == 0:
                        out["probs"].append({"sym": "cli-succeeds-where-serialisation-fails", "detail": f"{args}: {e}"[:200]})
                    continue
                if code != 0:
                    out["probs"].append({"sym": "cli-json-fails", "detail": f"{args}: exit {code}: {se.getvalue()[:200]}"})
                    continue
                try:
                    got = json.loads(so.getvalue())
                except Exception as e:
                    out["probs"].append({"sym": "cli-json-not-parseable", "detail": f"{args}: {e}"[:200]})
                    continue
                if type(got) is not type(expected):
                    out["probs"].append({"sym": "cli-json-object-vs-array", "detail": f"{args}: {type(got).__name__} for {len(fresh)} result(s)"})
                else:
                    d = [x for x in _diff_paths(expected, got) if x[0] not in unstable]
                    if d:
                        out["probs"].append({"sym": "cli-json-differs-from-to-json", "detail": f"{args}: {d[:3]}"})
                out["cli_runs"] = out.get("cli_runs", 0) + 1
    return out


# ------------------------------------------------------------------------------------------ type-directed instances
def _build(tp, rng, depth, registry, doc_keys=False):
    origin = typing.get_origin(tp)
    args = typing.get_args(tp)
    if tp is typing.Any or tp is object:
        return rng.choice([None, rng.choice(MARKERS), rng.randint(-5, 10**6), 1.5, True, [1, "a"], {"k": rng.choice(MARKERS)}])
    if origin is typing.Union or (origin is not None and str(origin) == "<class 'types.UnionType'>"):
        opts = [a for a in args if a is not type(None)]
        if type(None) in args and rng.random() < 0.25:
            return None
        return _build(rng.choice(opts), rng, depth, registry)
    if origin in (list, typing.List) or tp is list:
        it = args[0] if args else typing.Any
        return [_build(it, rng, depth + 1, registry, doc_keys) for _ in range(rng.randint(0, 3) if depth < 4 else 0)]
    if origin in (dict, typing.Dict) or tp is dict:
        vt = args[1] if len(args) > 1 else typing.Any
        keys = MARKERS if doc_keys else ["k1", "k2", "level", "text", "href", "title"]
        d = {rng.choice(keys) or "k": _build(vt, rng, depth + 1, registry) for _ in range(rng.randint(0, 3) if depth < 4 else 0)}
        if doc_keys and any(k in ("_type", "_bytes", "_bytesio") for k in d):
            MARKER_KEY_USED.append(1)
        return d
    if origin in (tuple, typing.Tuple):
        return [_build(a, rng, depth + 1, registry) for a in args if a is not Ellipsis]
    if tp is str:
        return rng.choice(MARKERS)
    if tp is bool:
        return rng.random() < 0.5
    if tp is int:
        return rng.randint(0, 10**6)
    if tp is float:
        return rng.choice([0.5, -1.25, 1e10])
    if tp is bytes or tp is bytearray:
        return bytes(rng.randrange(256) for _ in range(rng.choice([0, 0, 1, 2, rng.randint(0, 40)])))     # zero-length payloads are legal (an empty picture part)
    if tp is io.BytesIO:
        return io.BytesIO(bytes(rng.randrange(256) for _ in range(rng.choice([0, 0, 1, 2, rng.randint(0, 40)]))))
    if isinstance(tp, type) and dataclasses.is_dataclass(tp):
        return _instance(tp, rng, depth + 1, registry)
    if isinstance(tp, type) and getattr(tp, "_is_protocol", False):
        # interface-typed field: pick a concrete implementation
        impl = [c for c in registry.values() if c is not tp and issubclass(c, tp) and not getattr(c, "_is_protocol", False)] if False else []
        return None
    return None


MARKER_KEY_USED: list = []


def _instance(cls, rng, depth, registry):
    if getattr(cls, "_is_protocol", False) and cls.__dict__.get("_is_protocol", False):
        return None
    if depth > 5:
        try:
            return cls()
        except Exception:
            return None
    try:
        hints = typing.get_type_hints(cls)
    except Exception:
        hints = {}
    kwargs = {}
    for f in dataclasses.fields(cls):
        if not f.init:
            continue
        tp = hints.get(f.name, typing.Any)
        doc_keys = cls.__name__ == "XlsSheet" and f.name == "data"
        v = _build(tp, rng, depth, registry, doc_keys)
        if v is None and f.default is dataclasses.MISSING and f.default_factory is dataclasses.MISSING:
            inner = [a for a in typing.get_args(tp) if a is not type(None)]
            v = _build(inner[0], rng, depth, registry) if inner else ""
        kwargs[f.name] = v
    return cls(**kwargs)


def work_typed(case):
    from sharepoint2text.parsing.extractors import serialization
    registry = dict(serialization._get_type_registry())
    cls = registry[case["cls"]]
    rng = random.Random(f"typed:{case['cls']}:{case['seed']}")
    out = {"cls": case["cls"], "probs": [], "built": 0}
    del MARKER_KEY_USED[:]
    try:
        obj = _instance(cls, rng, 0, registry)
    except Exception as e:
        out["unbuildable"] = f"{type(e).__name__}: {e}"[:200]
        return out
    if obj is None:
        out["unbuildable"] = "protocol/interface class"
        return out
    out["built"] = 1
    out["marker_keys"] = bool(MARKER_KEY_USED)
    from sharepoint2text.parsing.extractors.data_types import ExtractionInterface
    try:
        j = json.loads(json.dumps(serialization.serialize_extraction(obj)))
    except Exception as e:
        out["probs"].append({"sym": f"json-dumps-raises-{type(e).__name__}", "detail": f"{case['cls']}: {e}"[:300]})
        return out
    try:
        back = ExtractionInterface.from_json(j)
        if type(back) is not type(obj):
            out["probs"].append({"sym": "from-json-wrong-type", "detail": f"{type(back).__name__} instead of {case['cls']}"})
        else:
            j2 = json.loads(json.dumps(serialization.serialize_extraction(back)))
            d = _diff_paths(j, j2)
            if d:
                out["probs"].append({"sym": "roundtrip-json-differs", "detail": f"{case['cls']}: {d[:3]}"})
            out["probs"] += _binary_restored(obj, back, case["cls"])
            out["probs"] += _structure_restored(obj, back, case["cls"])
            out["probs"] += _restore_twice(json.dumps(j), back, case["cls"])
    except Exception as e:
        out["probs"].append({"sym": f"from-json-raises-{type(e).__name__}", "detail": f"{case['cls']}: {e}"[:300]})
    try:
        nb = json.loads(json.dumps(serialization.serialize_extraction(obj, include_binary=False)))
        leaves = set(_binary_leaves(obj))
        for pth, why in _diff_paths(j, nb):
            if pth not in leaves:
                out["probs"].append({"sym": "no-binary-changes-non-binary-field", "detail": f"{case['cls']}: {pth}: {why}"})
                break
    except Exception as e:
        out["probs"].append({"sym": f"no-binary-serialise-raises-{type(e).__name__}", "detail": f"{case['cls']}: {e}"[:200]})
    return out


# ------------------------------------------------------------------------------------------ parent
def gen_cases(run):
    sources = corpus.all_sources(n_gen=run.n(4, 40), base_seed=run.seed * 1000)
    # inputs for this check only: a binary payload larger than any fixture holds, raw 8-bit bytes in every mail header
    sources.setdefault("rtf", []).append(["synth", "rtf-big-picture"])
    sources.setdefault("mbox", []).append(["synth", "mbox-raw-8bit-headers"])
    sources.setdefault("zip", []).append(["synth", "tar-latin1-member-names"])
    cid = 0
    for kind in corpus.KINDS:
        for src in sources.get(kind, []):
            cid += 1
            yield {"id": cid, "part": "results", "kind": kind, "recipe": {"src": src, "op": None}, "cli": cid % (2 if run.quick else 3) == 0 or src[0] in ("fx", "synth")}
    core_path = os.environ.get("VERIF_REPO", "/repo")
    sys.path.insert(0, core_path)
    from sharepoint2text.parsing.extractors import serialization
    for name in sorted(serialization._get_type_registry()):
        for s in range(run.n(30, 600)):
            cid += 1
            yield {"id": cid, "part": "typed", "cls": name, "seed": run.seed * 100000 + s}


def main(run):
    run.rule = ("case = one extraction (all results + all units round-tripped, CLI compared on a sample) or one type-directed instance of a registered dataclass; "
                "distinct = (kind or class, feature, result classes, problem set); non-trivial = json.dumps(to_json()) -> from_json -> to_json was executed and compared")
    run.assumptions = ["dict keys take marker vocabulary only where a document controls the key (XlsSheet.data rows keyed by header text); fixed-key dicts keep the extractor's keys"]
    classes, typed_built, typed_unbuildable, cli_runs, units = set(), {}, {}, 0, 0
    for case, ob in pool.run_cases("checks.c05:work", gen_cases(run), deadline_s=300, rlimit_as=2 * 2**30):
        rep = {"case": case}
        if ob.get("_harness_error"):
            run.inconclusive("harness error: " + ob["_harness_error"])
            print(ob.get("_tb"))
            continue
        if ob.get("_timeout") or ob.get("_died") or ob.get("_cpu_exhausted") or ob.get("_oom"):
            run.inconclusive_cases += 1
            run.case(None, nontrivial=False)
            continue
        seen = set()
        if case["part"] == "typed":
            if ob.get("unbuildable"):
                typed_unbuildable[case["cls"]] = ob["unbuildable"]
            typed_built[case["cls"]] = typed_built.get(case["cls"], 0) + ob.get("built", 0)
            for p in ob["probs"]:
                # a header cell "_type"/"_bytes"/"_bytesio" in an XLS sheet becomes a dict key of XlsSheet.data rows: one mechanism, whatever the symptom
                key = "C05:XlsSheet.data:document-controlled-marker-key:marker-confusion" if ob.get("marker_keys") else f"C05:{case['cls']}:typed:{p['sym']}"
                seen.add(key)
                run.violation(key, p["detail"], rep)
            run.case(f"typed:{case['cls']}:{','.join(sorted(seen))}", nontrivial=bool(ob.get("built")))
            continue
        src = case["recipe"]["src"]
        feat = src[3] if src[0] == "gen" and src[3] else ("fixture" if src[0] == "fx" else "clean")
        fmt = src[1] if src[0] == "gen" else case["kind"]
        classes.update(ob.get("classes", []))
        cli_runs += ob.get("cli_runs", 0)
        units += ob.get("n_units", 0)
        for p in ob["probs"]:
            key = f"C05:{fmt}:{feat}:{p['sym']}"
            if key not in seen:
                seen.add(key)
                run.violation(key, f"{fmt} ({feat}, {src}): {p['detail']}", rep)
        run.case(f"{case['kind']}:{feat}:{','.join(sorted(set(ob.get('classes', []))))}:{','.join(sorted(seen))}", nontrivial=ob.get("n_results", 0) > 0,
                 sample={"kind": case["kind"], "src": src, "results": ob.get("n_results"), "units": ob.get("n_units"), "problems": sorted(seen)} if case["id"] % 37 == 0 else None)
    built = [c for c, n in typed_built.items() if n]
    run.count("typed_classes_built", len(built))
    run.count("typed_classes_unbuildable", len(typed_unbuildable))
    run.count("cli_comparisons", cli_runs)
    run.count("units_roundtripped", units)
    run.extras["typed_unbuildable"] = typed_unbuildable
    run.extras["result_classes"] = sorted(classes)
    run.require("content_classes_roundtripped", len({c for c in classes if c.endswith("Content")}), 17)
    run.require("typed_classes_built", len(built), 60)
    run.require("cli_comparisons", cli_runs, 100)


def replay(run, doc):
    case = doc["case"]["case"]
    for c, ob in pool.run_cases("checks.c05:work", [case], workers=1, deadline_s=300):
        print(ob)
    run.case("replay")
    run.case("replay2")
