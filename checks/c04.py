"""C04 — every result honours the common interface, for any input (icontract post-conditions on the real accessors).

The worker installs record-only icontract post-conditions on every accessor of every class found
reflectively in data_types (vlib/mon/contracts.py), then drives fixtures, generated documents
(incl. every risky feature) and mutated-but-accepted inputs under a grammar of path arguments and
touches every accessor of every result/unit/image/table.  Broken contracts, raising accessors,
file metadata not derived from the path and changed document properties are reported.
"""
from __future__ import annotations

import os
from pathlib import Path

from vlib import corpus, pool

LEVEL = "exploration"

PROP_FIELDS = {"title": ["title"], "author": ["author", "creator"], "subject": ["subject"], "keywords": ["keywords"],
               "description": ["description", "comments", "doc_comment"]}


def work_init(init):
    import logging
    logging.disable(logging.CRITICAL)
    import sharepoint2text  # noqa
    from vlib import obs
    from vlib.mon import contracts
    for k in corpus.KINDS:
        obs.extractor(k)
    global REC, WRAPPED
    REC = contracts.Recorder()
    WRAPPED = contracts.install(REC)


def _paths(ext, td):
    real = os.path.join(td, "real" + ext)
    open(real, "wb").close()
    os.makedirs(os.path.join(td, "store"), exist_ok=True)
    blob = os.path.join(td, "store", "blob_0001")
    open(blob, "wb").close()
    link = os.path.join(td, "linked" + ext)
    try:
        os.symlink(blob, link)
    except OSError:
        link = real
    missing_in_existing_dir = os.path.join(td, "not-there" + ext)
    return [None, "x" + ext, "rel/dir/x" + ext, "/abs/nowhere/x" + ext, "ünï/文 書" + ext, "arch.zip!/inner/x" + ext, real, "dir.v2/x.y" + ext, "C:\\win\\x" + ext,
            link, missing_in_existing_dir]


def work(case):
    import tempfile
    from vlib import obs
    from vlib.worker import arm_cpu
    data = corpus.make_input(case["recipe"])
    kind = case["kind"]
    ext = corpus.KIND_EXT[kind] if kind != "zip" else corpus.source_ext(case["recipe"]["src"])
    out = {"kind": kind, "size": len(data), "broken": [], "accessor_errors": [], "path_bad": [], "prop_bad": [], "classes": []}
    with tempfile.TemporaryDirectory(prefix="verif-c04-") as td:
        paths = _paths(ext, td)
        path = paths[case["path_idx"] % len(paths)]
        out["path"] = path
        arm_cpu(60)
        ob_exc = None
        results = []
        try:
            import io
            for r in obs.extractor(kind)(io.BytesIO(data), path):
                results.append(r)
                if len(results) >= 20:
                    break
        except BaseException as e:
            if type(e).__name__ == "CpuBudget":
                raise
            ob_exc = obs.exc_record(e, len(results))
        out["exc"] = ob_exc
        out["n_results"] = len(results)
        for r in results:
            rr = obs.result_record(r, want=("text", "units", "tables", "images", "meta"))
            out["classes"].append(rr["cls"])

            def walk(d, where):
                for k, v in d.items():
                    if k.endswith("_error"):
                        out["accessor_errors"].append({"where": where, "accessor": k[:-6], "error": v})
                for u in d.get("units", []) if isinstance(d.get("units"), list) else []:
                    walk(u, u.get("cls", "unit"))
                for u in d.get("images", []) if isinstance(d.get("images"), list) else []:
                    if isinstance(u, dict):
                        walk(u, u.get("cls", "image"))
                for u in d.get("tables", []) if isinstance(d.get("tables"), list) else []:
                    if isinstance(u, dict):
                        walk(u, u.get("cls", "table"))
            walk(rr, rr["cls"])
            # consumers that hold several streams at once: open every image's stream first, read afterwards (document view, then the
            # unit view); each stream must still start at 0 and deliver the bytes the image delivers when read on its own
            try:
                views = [("iterate_images", list(r.iterate_images()))]
                try:
                    views.append(("unit.get_images", [im for u in r.iterate_units() for im in u.get_images()]))
                except Exception:
                    pass
                for vname, imgs in views:
                    if len(imgs) < 2:
                        continue
                    solo = []
                    for im in imgs:
                        st = im.get_bytes()
                        solo.append(st.read())
                    streams = [im.get_bytes() for im in imgs]
                    owner = {}
                    for im, st in zip(imgs, streams):
                        if id(st) in owner and owner[id(st)] is not im:
                            out["broken"].append({"cls": type(im).__name__, "method": "get_bytes", "symptom": "stream-object-shared-between-images", "detail": f"two different images of {vname} hand out the same stream object"})
                            break
                        owner[id(st)] = im
                    out["interleaved_streams"] = out.get("interleaved_streams", 0) + len(streams)
                    for k, st in enumerate(streams):
                        got = st.read()
                        if got != solo[k]:
                            out["broken"].append({"cls": type(imgs[k]).__name__, "method": "get_bytes", "symptom": "stream-differs-when-opened-with-others",
                                                  "detail": f"{vname}: opened together with the other images' streams, image {k + 1} of {len(imgs)} reads {len(got)} bytes; read on its own {len(solo[k])}"})
                            break
            except Exception as e:
                if type(e).__name__ == "CpuBudget":
                    raise
            # also through the email attachment iterator
            if hasattr(r, "iterate_supported_attachments"):
                try:
                    for a in r.iterate_supported_attachments():
                        obs.result_record(a, want=("text", "units", "meta"))
                except Exception as e:
                    if not obs.exc_record(e)["is_extraction_error"]:
                        out["accessor_errors"].append({"where": rr["cls"], "accessor": "iterate_supported_attachments", "error": f"{type(e).__name__}: {e}"[:200]})
            meta = rr.get("meta") or {}
            # file metadata derived from the path (archive members and attachments carry their own names: only top-level kinds)
            if kind != "zip" and "meta" in rr:
                if path is None:
                    for f in ("filename", "file_extension", "file_path", "folder_path"):
                        if meta.get(f) is not None:
                            out["path_bad"].append(f"path=None but {f}={meta.get(f)!r}")
                else:
                    p = Path(path)
                    if meta.get("filename") != p.name:
                        out["path_bad"].append(f"filename={meta.get('filename')!r} for path {path!r}")
                    if meta.get("file_extension") != p.suffix:
                        out["path_bad"].append(f"file_extension={meta.get('file_extension')!r} for path {path!r}")
                    # the folder is the parent of the path *as given* (a symlink's own folder, not its target's); an existing
                    # folder is reported resolved (documented behaviour), a non-existing one as written
                    folders = {str(p.parent.resolve())} if p.parent.exists() else {str(p.parent)}
                    if meta.get("folder_path") not in folders:
                        out["path_bad"].append(f"folder_path={meta.get('folder_path')!r} for path {path!r}")
            if kind == "zip" and "meta" in rr and path is not None:
                # a member's metadata is derived from "<archive path>!/<member name>": its folder lies in (or is) "<archive path>!"
                base = str(Path(path + "!"))
                for f in ("folder_path", "file_path"):
                    v = meta.get(f)
                    if not (isinstance(v, str) and (v == base or v.startswith(base + "/"))):
                        out["path_bad"].append(f"archive member: {f}={v!r} is not below {base!r} (archive path {path!r})")
                        break
                out["member_paths_judged"] = out.get("member_paths_judged", 0) + 1
            # textual document properties reported unchanged (generated documents only, unmutated)
            want = case.get("props")
            if want and not case["recipe"].get("op"):
                for key, val in want.items():
                    fields = [f for f in PROP_FIELDS.get(key, []) if f in meta]
                    if fields and not any(meta.get(f) == val for f in fields):
                        out["prop_bad"].append(f"{key}: stored {val!r}, reported {[meta.get(f) for f in fields]!r}")
        out["broken"] = out["broken"] + REC.drain()
        out["evals"] = dict(REC.evals)
        out["n_wrapped"] = len(WRAPPED)
    return out


def gen_cases(run):
    rng = run.rng
    from vlib.gen import docs, mutate
    sources = corpus.all_sources(n_gen=run.n(4, 30), base_seed=run.seed * 1000)
    for name in ("tar-absolute-member-names", "zip-absolute-member-names"):
        sources.setdefault("zip", []).append(["synth", name])
    cid = 0
    for kind in corpus.KINDS:
        for src in sources.get(kind, []):
            props = None
            if src[0] == "gen":
                props = docs.build(src[1], src[2], src[3])[1].meta or None
            for pi in range(2 if (src[0] == "gen" and src[3] is not None) else 11):
                cid += 1
                yield {"id": cid, "kind": kind, "path_idx": pi, "recipe": {"src": src, "op": None}, "props": props}
            if src[0] == "gen" and src[3] is not None:
                # a feature draws its concrete form (which spelling, which attribute order) from the seed: a few more seeds of every
                # feature, unmutated, for the interface contracts and the stored-properties comparison
                for extra in range(1, run.n(4, 12)):
                    src2 = [src[0], src[1], src[2] + extra, src[3]]
                    cid += 1
                    yield {"id": cid, "kind": kind, "path_idx": extra % 11, "recipe": {"src": src2, "op": None}, "props": docs.build(src2[1], src2[2], src2[3])[1].meta or None}
            fams = [("byte", op) for op in ("bitflip", "byteset", "zero", "numbers", "truncate_tail", "dup")]
            if kind in corpus.ZIP_KINDS:
                fams += [("zip", op) for op in mutate.ZIP_OPS] * 2
            if kind in corpus.TEXT_KINDS:
                fams += [("text", op) for op in mutate.TEXT_OPS] * 2
            for _ in range(run.n(8, 120)):
                fam, op = rng.choice(fams)
                cid += 1
                yield {"id": cid, "kind": kind, "path_idx": rng.randrange(11),
                       "recipe": {"src": src, "op": op, "family": fam, "mseed": rng.randrange(1 << 30)}}


def main(run):
    run.rule = ("case = (extractor kind, base input, mutation or none, path-argument form); distinct = (kind, mutated?, path form, result classes, broken contract set); "
                "non-trivial = the extractor yielded >= 1 result and every accessor of every result/unit/image/table was called under the installed contracts")
    run.assumptions = ["folder_path may be the parent as given or resolved (the documentation resolves existing folders)",
                       "document properties are compared only for generated, unmutated documents and only where the metadata class has a field for them (DESIGN.md Appendix B)"]
    evals_total = {}
    classes = set()
    accepted_mutated = 0
    n_wrapped = 0
    for case, ob in pool.run_cases("checks.c04:work", gen_cases(run), deadline_s=200, rlimit_as=int(1.5 * 2**30)):
        rep = {"case": case}
        if ob.get("_harness_error"):
            run.inconclusive("harness error: " + ob["_harness_error"])
            print(ob.get("_tb"))
            continue
        if ob.get("_timeout") or ob.get("_died") or ob.get("_cpu_exhausted") or ob.get("_oom"):
            run.inconclusive_cases += 1
            run.case(None, nontrivial=False)
            continue
        n_wrapped = max(n_wrapped, ob.get("n_wrapped", 0))
        run.counters["archive_member_paths_judged"] = run.counters.get("archive_member_paths_judged", 0) + ob.get("member_paths_judged", 0)
        run.counters["image_streams_opened_together"] = run.counters.get("image_streams_opened_together", 0) + ob.get("interleaved_streams", 0)
        for k, v in ob.get("evals", {}).items():
            evals_total[k] = max(evals_total.get(k, 0), v)
        mutated = bool(case["recipe"].get("op"))
        if ob["n_results"] and mutated:
            accepted_mutated += 1
        classes.update(ob.get("classes", []))
        feat = case["recipe"]["src"][3] if case["recipe"]["src"][0] == "gen" and case["recipe"]["src"][3] else None
        tag = f"{feat}" if feat else ("mutated" if mutated else "clean")
        seen = set()
        for b in ob["broken"]:
            key = f"C04:{b['cls']}:{b['method']}:{b['symptom']}"
            seen.add(key)
            run.violation(key, f"{b['cls']}.{b['method']}() {b['symptom']}: {b['detail']} [{case['kind']} {tag} {case['recipe'].get('op')}]", rep)
        for a in ob["accessor_errors"]:
            etype = a["error"].split(":")[0]
            key = f"C04:{a['where']}:{a['accessor']}:raised-{etype}"
            seen.add(key)
            run.violation(key, f"{a['where']}.{a['accessor']} raised {a['error']} [{case['kind']} {tag} {case['recipe'].get('op')}]", rep)
        for m in ob["path_bad"]:
            key = "C04:file-metadata:path-argument:not-derived-from-path"
            seen.add(key)
            run.violation(key, m, rep)
        for m in ob["prop_bad"]:
            key = f"C04:{case['recipe']['src'][1]}:{feat or 'clean'}:document-property-changed"
            seen.add(key)
            run.violation(key, f"{case['recipe']['src'][1]}: {m}", rep)
        run.case(f"{case['kind']}:{tag}:{case['path_idx'] % 11}:{','.join(sorted(set(ob.get('classes', []))))}:{','.join(sorted(seen))}", nontrivial=ob["n_results"] > 0,
                 sample={"kind": case["kind"], "src": case["recipe"]["src"], "op": case["recipe"].get("op"), "path": ob.get("path"), "results": ob["n_results"], "classes": ob.get("classes", [])[:3], "broken": sorted(seen)} if case["id"] % 211 == 0 else None)
    content_classes = {c for c in classes if c.endswith("Content")}
    run.count("contracts_installed", n_wrapped)
    run.count("contract_methods_evaluated", len(evals_total))
    run.count("mutated_inputs_accepted", accepted_mutated)
    run.extras["contract_evaluations_per_method_max_per_worker"] = dict(sorted(evals_total.items()))
    run.extras["result_classes_reached"] = sorted(classes)
    run.require("content_classes_reached", len(content_classes), 17)
    run.require("contract_methods_evaluated", len(evals_total), 60)
    run.require("mutated_inputs_accepted", accepted_mutated, run.n(100, 2000))
    run.require("image_streams_opened_together", run.counters.get("image_streams_opened_together", 0), run.n(200, 2000))


def replay(run, doc):
    case = doc["case"]["case"]
    for c, ob in pool.run_cases("checks.c04:work", [case], workers=1, deadline_s=200):
        print({k: v for k, v in ob.items() if k not in ("evals", "_tb")})
    run.case("replay")
    run.case("replay2")
