"""C16 — e-mail: headers, bodies, attachments and mailbox boundaries are exact.

Workload: vlib/gen/mail.py writes messages with known ground truth (unique tokens in every subject, display
name, address, body line, attachment) and renders each of them twice: as a ``.eml`` (read by mail-parser) and,
together with 0..8 siblings, into an mboxrd mailbox written by the harness (read by the stdlib path).  Sandboxed
workers run ``read_eml_format_mail`` / ``read_mbox_format_mail`` / ``iterate_supported_attachments`` and return
plain observations; the verdict is computed here, field by field, against the model and across the two carriers.

Normalisations the oracle applies (and nothing else):
  * subject: compared *exactly* with the decoded value the wire defines (own RFC 2047 / RFC 5322 reader over the
    rendered header, G.subject_readings), interior white space included - runs of blanks, tabs, U+00A0, U+3000 ...
    inside or outside encoded words are content.  Two tolerances only: (1) outer white space is not significant
    (the blank after "Subject:" and white space before the line end are padding); (2) the one white-space character
    that follows the line break of a *fold* (the writers fold only at a single blank between two words, never inside
    or next to a run of white space, so it is always exactly one) may come back literally (RFC 5322 2.2.3: only the
    CRLF is removed, a tab continuation stays a tab) or as one blank (the conventional reading of tab-folded
    headers; what decode_header does when it joins lines).  The line break itself must be gone;
  * message-id: exact (the "<...>" token, no surrounding white space);
  * addresses: exact (order, case, count); display names exact after RFC 2047 / quoted-string decoding;
  * date: the returned ISO string is parsed and compared *as an instant* with the Date: header; a naive
    result is read as UTC (what ``parsedate_to_datetime`` yields for ``-0000``);
  * bodies: CRLF == LF (the line terminator is transport), trailing newlines ignored, and for the mbox carrier
    the body may carry the '>' that the harness's own mailbox writer put before ``From `` lines.  A message with
    several inline text parts of one subtype (list footer, gateway disclaimer next to the body) has two admitted
    readings of "the body": its first such part (the documented rule of the .mbox reader) or all of them in document
    order (what the .eml reader returns) - a later part alone, or another order, is neither;
  * mailbox boundaries: "boundaries only at separator lines" is a statement about the reader, and a separator line is
    ``From <sender> <date>`` under every mbox definition.  Two thirds of the mailboxes are mboxrd (every ^>*From(blank)
    line quoted); one third quote look-alikes only - a From line that *ends in four digits* is quoted (a reader without
    a quoting convention cannot tell it from a separator: the library's documented limitation, never asserted here),
    every other line that starts with "From " stays as it is (what mboxcl/mboxcl2 writers and home-grown exporters
    leave behind) and must stay body: "From here on, the 2024 figures are final." is not a separator line;
  * attachments: filename, type and bytes exact; for 7bit/8bit (not base64/QP) text parts the line terminator
    is transport as well.  Inline ``multipart/related`` parts and a message carried without any Content-Disposition
    (forwarded inline) may be reported as attachments or not — when they are, they must be exact; the carried
    message's text is never the carrier's body.  A part without filename / name parameter has no name to be exact
    about: "", None or the readers' constant placeholder "attachment" are accepted, an invented name is not.  Names are
    written in all three spellings in use: plain / RFC 2231 (what the stdlib writes), an RFC 2047 encoded word inside the
    quoted filename parameter, and an encoded word in the Content-Type name parameter only - the decoded name is the name;
  * attachments are found wherever they sit in the MIME tree: a fifth of the messages with attachments have their content
    below another container than mixed / related - alternative(plain, mixed(html, attachments)) as Apple Mail sends it,
    multipart/signed (with its smime.p7s, an attachment itself), multipart/report, multipart/parallel and an unknown
    multipart subtype (RFC 2046: read as mixed);
  * mailbox quoting: the mailboxes are written in three styles, a third each - mboxrd (every ^>*From(blank) line gets a
    ">"), mboxo (only lines starting with "From "; a ">From " line of the sender's own is stored as it is) and
    look-alikes-only.  A body / 7bit-8bit-QP attachment may come back as sent or in the form *this* mailbox stored; a
    reader that takes a ">" off a line whose ">" was the sender's (mboxo, look-alikes-only) returns neither;
  * supported attachments == the attached file on its own: the file on its own is routed by its *name* (README: "file
    extensions (primary) ... MIME types (fallback)"), so an attachment whose declared type is a supported one but not
    the canonical type of its extension (.csv as application/vnd.ms-excel, .docx as application/zip, .html as
    text/plain ...) must come out as its name says; only a part without a usable extension is routed by its declared
    type.  Consumed through both carriers (every message with nameless / otherwise-typed / encrypted / message
    attachments, a sixth of the rest for the mailbox).  A password-protected attachment makes the iterator raise the
    file-encrypted error (what reading the file on its own does; the iterator re-raises exactly that error): results
    before it are compared, an iterator that ends normally is reported; any exception outside the ExtractionError
    family is reported under its own symptom;
  * which body ``get_full_text()`` prefers is README behaviour ("body_plain when present, else body_html") and is
    checked only in that documented form.

Risky features (each reproduced against the unchanged tree; kept out of `clean` messages; every risky case runs
with its control twin and is a KNOWN-FINDING only when the twin is exact):
  mbox-attachment        any attachment in a mailbox message            -> .mbox returns no attachments
  nested-rfc822          an attached message/rfc822                     -> inner body text reported as outer body;
                                                                           .eml returns a re-serialisation, not the bytes
  fold-at-encoded-word   Subject folded between =?..?= and plain text   -> the blank at the fold is lost (both readers)
  date-second-60         Date: hh:mm:60 (RFC 5322 leap second)          -> the whole mailbox fails with ValueError
  nameless-attachment    attachment part without filename parameter     -> .eml returns it as "<random letters>.txt" and
                                                                           therefore extracts it as plain text whatever its type
The nested-rfc822 cases cycle through NESTED_VARIANTS: one to three carried messages of different sizes (also in
decreasing size order), forwarded as attachment (with or without a file name) or inline (no Content-Disposition), in
carriers with and without a text/plain body of their own.  For the .mbox carrier only the one known re-serialisation
("Name:" CRLF SP value -> "Name: " CRLF SP value) is attributed to the feature; any other bytes are `bytes-foreign`.
and two that only the rendered bytes show (G.wire_features; detected per message, a message may carry both next to
a planned one; the control twin is the same message with Subject and Message-ID on one line each):
  plain-folded-subject             a folded Subject without any encoded-word -> .eml returns it still folded ("a\n b")
  message-id-on-continuation-line  "Message-ID:" CRLF SP "<id>"              -> .mbox returns " <id>" (leading blank)

Writer faults kept out of the workload (not reader defects): CPython 3.12's header *generator* mangles list
separators / blanks when it refolds long non-ASCII values, so non-ASCII display names and long non-ASCII subjects
are written by the harness's own header writer only, and every stdlib-written header block is read back
(G.header_roundtrip_problems) before it is used.

No claim is made about Outlook .msg beyond totality of the accessors on the two fixtures.

Self-check (mutants of the repository, quick tier): header charset forced to latin-1 for koi8; address list
split on ','; separator regex unanchored / case-insensitive / accepting '>From'; PDF attachment payload not
base64-decoded; cc/bcc swapped; date offset dropped; body charset ignored; supported attachment fed the first
attachment's bytes; Subject white space collapsed with split/join in EmailContent (eml + mbox: subject-interior-white-
space-altered), display names collapsed in EmailAddress, tabs turned into blanks by the mbox header decoder — all
reported as VIOLATION.  "Separator regex without the year" / "with anything after
the year" cut messages at the unquoted non-separator From lines of the look-alikes-only mailboxes and are reported
(they were equivalent as long as every mailbox was mboxrd-quoted).
"""
from __future__ import annotations

import copy
import datetime as dt
import io
import json
import re

from vlib import core, pool
from vlib.gen import mail as G

LEVEL = "exploration"

FILE_KEYS = ("filename", "file_extension", "file_path", "folder_path")

# Risky features (reproduced against the unchanged tree, see known_findings.d/C16.json).  They are kept out of
# `clean` messages; each risky case carries exactly one of them and is accompanied by its control twin.
# The nested-rfc822 cases cycle through these shapes (by case number, so every run has all of them): how many messages are
# carried and how (Content-Disposition: attachment / none at all = forwarded inline), in which size order, and what the
# carrier's own body is ("html": no text/plain of its own; None: whatever the generator draws).
NESTED_VARIANTS = (
    {"disp": ["attachment"], "order": "any", "carrier": None},
    {"disp": ["attachment", "attachment"], "order": "decreasing", "carrier": None},
    {"disp": ["none"], "order": "any", "carrier": "html"},
    {"disp": ["attachment", "attachment", "attachment"], "order": "decreasing", "carrier": "plain"},
    {"disp": ["attachment", "attachment"], "order": "any", "carrier": "html"},
    {"disp": ["none", "attachment"], "order": "any", "carrier": "html"},
    {"disp": ["none"], "order": "any", "carrier": "alt"},
    {"disp": ["attachment", "none", "attachment"], "order": "decreasing", "carrier": None},
)
AMBIGUOUS_FOLDS = {"fold-at-encoded-word", "fold-in-white-space-run"}      # never in a clean message (G.wire_features)
RISKY = ("mbox-attachment", "nested-rfc822", "fold-at-encoded-word", "date-second-60", "plain-folded-subject", "message-id-on-continuation-line",
         "nameless-attachment", "attachment-name-over-255-bytes")


# ============================================================================================= worker side
_direct_cache: dict = {}


VOLATILE_META: dict = {}   # per class: metadata keys that are not a function of the bytes (none on the current tree)


def _canon(result) -> dict:
    j = result.to_json()
    md = j.pop("metadata", None) if isinstance(j, dict) else None
    if isinstance(md, dict):
        for k in FILE_KEYS + VOLATILE_META.get(type(result).__name__, ()):
            md.pop(k, None)
    s = json.dumps(j, sort_keys=True, default=repr, ensure_ascii=True)
    text = result.get_full_text()
    units = [u.get_text() for u in result.iterate_units()]
    return {"cls": type(result).__name__, "digest": core.sha(s), "meta_digest": core.sha(json.dumps(md, sort_keys=True, default=repr)),
            "text_sha": core.sha(text), "text_head": text[:80], "text_sha_eol": core.sha(text.replace("\r\n", "\n")),
            "n_units": len(units), "units_sha": core.sha("\x00".join(units))}


def _exc(e: BaseException) -> dict:
    c = e.__cause__
    from sharepoint2text.parsing.exceptions import ExtractionError
    return {"type": type(e).__name__, "msg": str(e)[:300], "cause": type(c).__name__ if c is not None else None,
            "cause_msg": str(c)[:300] if c is not None else None, "family": isinstance(e, ExtractionError)}


def _addr(a) -> list:
    return [getattr(a, "name", None), getattr(a, "address", None)] if a is not None and not isinstance(a, str) else ["<str>", a]


def _addrs(v) -> list:
    if v is None:
        return []
    if isinstance(v, (list, tuple)):
        return [_addr(a) for a in v]
    return [["<raw>", repr(v)[:200]]]


def _observe(r, truth_atts, blobs) -> dict:
    from sharepoint2text.parsing.mime_types import MIME_TYPE_MAPPING, is_supported_mime_type
    from sharepoint2text.parsing.router import get_extractor

    o = {"subject": r.subject, "from": _addr(r.from_email), "to": _addrs(r.to_emails), "cc": _addrs(r.to_cc),
         "bcc": _addrs(r.to_bcc), "reply_to": _addrs(r.reply_to), "in_reply_to": r.in_reply_to,
         "date": r.metadata.date, "message_id": r.metadata.message_id, "plain": r.body_plain, "html": r.body_html,
         "full_text": r.get_full_text(), "units": [[u.get_text(), u.get_metadata().body_type] for u in r.iterate_units()],
         "n_images": len(list(r.iterate_images())), "n_tables": len(list(r.iterate_tables())), "cls": type(r).__name__}
    atts = []
    for a in r.attachments:
        pos = a.data.tell()
        data = a.data.getvalue()
        atts.append({"filename": a.filename, "mime": a.mime_type, "len": len(data), "sha": core.sha(data), "pos": pos,
                     "sha_eol": core.sha(data.replace(b"\r\n", b"\n")), "supported": a.is_supported_mime_type, "head": core.b64(data[:48])})
    o["atts"] = atts
    if truth_atts is not None:
        o["sup"] = []
        try:
            for x in r.iterate_supported_attachments():    # element by element: what came before an error is an observation, too
                o["sup"].append(_canon(x))
        except Exception as e:  # noqa: BLE001 - observation, judged by the parent
            o["sup_error"] = _exc(e)
        direct = []
        for t in truth_atts:
            if not is_supported_mime_type(t["ctype"]):
                direct.append({"skipped": "unsupported-mime"})
                continue
            key = (t["sha"], t["filename"], t["ctype"])          # (the name is part of the input: extractors look at the path they are given)
            if key not in _direct_cache:
                try:
                    try:
                        ex = get_extractor(t["filename"])      # README: extension first ...
                    except Exception:  # noqa: BLE001 - ... no usable extension / no name: the file "on its own" is named by its declared type
                        ex = get_extractor("attachment." + MIME_TYPE_MAPPING[t["ctype"]])
                    try:
                        res = [_canon(x) for x in ex(io.BytesIO(core.unb64(blobs[t["sha"]])), t["filename"] or None)]
                    except Exception as e:  # noqa: BLE001
                        if not isinstance(e.__cause__, OSError) and not isinstance(e, OSError):
                            raise
                        # the name is one no file system stores (longer than NAME_MAX): the attached file "on its own" is the
                        # same bytes under a name of the same extension that can exist
                        short = "attachment" + (("." + t["filename"].rsplit(".", 1)[-1]) if "." in t["filename"] else "")
                        res = [_canon(x) for x in ex(io.BytesIO(core.unb64(blobs[t["sha"]])), short)]
                    _direct_cache[key] = {"results": res}
                except Exception as e:  # noqa: BLE001
                    _direct_cache[key] = {"error": _exc(e)}
            direct.append(_direct_cache[key])
        o["direct"] = direct
        o["att_pos_after"] = [a.data.tell() for a in r.attachments]
    return o


def work(case: dict) -> dict:
    from sharepoint2text.parsing.extractors.mail.eml_email_extractor import read_eml_format_mail
    from sharepoint2text.parsing.extractors.mail.mbox_email_extractor import read_mbox_format_mail
    from sharepoint2text.parsing.extractors.mail.msg_email_extractor import read_msg_format_mail
    from vlib import worker

    fn = {"eml": read_eml_format_mail, "mbox": read_mbox_format_mail, "msg": read_msg_format_mail}
    blobs = case.get("blobs", {})
    out = []
    worker.arm_cpu(case.get("cpu_s", 60))
    for it in case["items"]:
        data = core.unb64(it["b64"]) if "b64" in it else open(it["file"], "rb").read()
        res, err = [], None
        try:
            for r in fn[it["kind"]](io.BytesIO(data), it.get("path")):
                truth = None
                if it.get("truth_atts") is not None:
                    truth = it["truth_atts"][len(res)] if len(res) < len(it["truth_atts"]) else []
                res.append(_observe(r, truth, blobs))
        except Exception as e:  # noqa: BLE001
            err = _exc(e)
        out.append({"results": res, "error": err})
    return {"items": out}


# ============================================================================================= oracle side
def _ws(s) -> str:
    return re.sub(r"\s+", " ", s).strip() if isinstance(s, str) else repr(s)


def _body(s) -> str:
    return s.replace("\r\n", "\n").rstrip("\n") if isinstance(s, str) else repr(s)


def _mboxrd_escaped(b: bytes, style: str = "mboxrd") -> bytes:
    return b"\n".join((b">" + ln) if G.needs_escape(ln, style) else ln for ln in b.split(b"\n"))


def _blank_after_colon(b: bytes) -> bytes:
    """The known re-serialisation of an attached message by the .mbox reader: a header whose value starts on the
    continuation line gets a blank after its colon."""
    head, sep, body = b.partition(b"\r\n\r\n" if b"\r\n\r\n" in b else b"\n\n")
    return re.sub(rb"(?m)^([!-9;-~]+):(\r?\n[ \t])", rb"\1: \2", head) + sep + body


def _eol(b: bytes) -> bytes:
    return b.replace(b"\r\n", b"\n")


def _instant(iso):
    try:
        d = dt.datetime.fromisoformat(iso)
    except Exception:  # noqa: BLE001
        return None
    if d.tzinfo is None:
        d = d.replace(tzinfo=dt.timezone.utc)
    return d


def truth_of(spec: dict) -> dict:
    pol = G._pol(spec)
    atts = []
    for a in spec["atts"]:
        data = G.attachment_truth_bytes(a, pol)
        atts.append({"filename": a["filename"], "ctype": a["ctype"], "data": data, "sha": core.sha(data), "inline": a["disp"] != "attachment",
                     "cte": a["cte"], "kind": a["kind"], "ext": {"png": "png", "bin": "bin"}.get(a["kind"], a["kind"]), "encrypted": a["kind"] == "enc"})
    if "_subject_accept" not in spec:            # derived from the header block only; dropped whenever that is re-written (twin_of)
        spec["_subject_accept"] = G.subject_readings(G.header_probe(spec))
    return {"plain_parts": G.text_parts(spec, "plain"), "html_parts": G.text_parts(spec, "html"),
            "subject": spec["subject"], "subject_accept": spec["_subject_accept"], "from": list(spec["from"]), "to": G.flat(spec["to"]), "cc": G.flat(spec["cc"]),
            "bcc": G.flat(spec["bcc"]), "reply_to": G.flat(spec["reply_to"]), "instant": G.spec_instant(spec),
            "message_id": spec["message_id"], "plain": spec["plain"] or "", "html": spec["html"] or "", "atts": atts}


_UNFOLD = re.compile(r"\r?\n(?=[ \t])")


def subject_symptom(got, t: dict):
    """None when the subject is exact (see the module doc for the two tolerances), else the symptom's name."""
    accept = set(t["subject_accept"]) | {t["subject"]}
    if not isinstance(got, str):
        return "differs"
    g = got.strip()
    if g in accept:
        return None
    if _UNFOLD.sub("", g) in accept or re.sub(r"\r?\n[ \t]", " ", g) in accept:
        return "fold-line-break-kept"
    gw, ww = g.split(), t["subject"].split()
    if gw == ww:
        return "interior-white-space-altered"          # same words, other white space between them
    if "".join(gw) == "".join(ww) and len(gw) < len(ww):
        return "blank-between-words-lost"
    return "differs"


def compare_message(t: dict, o: dict, carrier: str) -> list[tuple[str, str, str]]:
    """-> list of (component, symptom, detail).  component/symptom are mechanism names, never values."""
    d = []
    sym = subject_symptom(o["subject"], t)
    if sym:
        d.append(("subject", sym, f"got {o['subject']!r} want {t['subject']!r}" + (f" (or, fold white space literal, {t['subject_accept']!r})" if len(t["subject_accept"]) > 1 else "")))
    if o["from"] != t["from"]:
        sym = "address-differs" if o["from"][1] != t["from"][1] else "display-name-differs"
        d.append(("from", sym, f"got {o['from']!r} want {t['from']!r}"))
    for k in ("to", "cc", "bcc", "reply_to"):
        got, want = o[k], t[k]
        if got == want:
            continue
        ga, wa = [x[1] for x in got], [x[1] for x in want]
        if ga == wa:
            sym = "display-name-differs"
        elif sorted(map(str, ga)) == sorted(map(str, wa)):
            sym = "order-differs"
        elif len(ga) != len(wa):
            sym = "count-differs"
        else:
            sym = "address-differs"
        d.append((k.replace("_", "-"), sym, f"got {got!r} want {want!r}"))
    inst = _instant(o["date"])
    if inst is None:
        d.append(("date", "not-iso", f"got {o['date']!r} want instant {t['instant'].isoformat()}"))
    elif inst != t["instant"]:
        d.append(("date", "other-instant", f"got {o['date']!r} want instant {t['instant'].isoformat()} (delta {inst - t['instant']})"))
    if o["message_id"] != t["message_id"]:
        outer = isinstance(o["message_id"], str) and o["message_id"].strip() == t["message_id"]
        d.append(("message-id", "outer-white-space-kept" if outer else "differs", f"got {o['message_id']!r} want {t['message_id']!r}"))
    for k in ("plain", "html"):
        got, want = _body(o[k]), _body(t[k])
        parts = t[k + "_parts"]
        # the mailbox writer's own '>' may be kept (documented): the text as sent, or the form this mailbox's writer stored
        styles = [None] + ([t["mbox_escape"]] if carrier == "mbox" and t.get("mbox_escape") else [])
        ok = False
        for st in styles:
            ps = [_body(p if st is None else G.escape_text(p, st)) for p in parts]
            # the body of a message with several inline text parts of one subtype: the first of them, or all in document order
            ok = ok or got == (ps[0] if ps else "") or (len(ps) > 1 and re.fullmatch(r"\n*".join(re.escape(p) for p in ps), got) is not None)
        if not ok:
            want = _body(parts[0]) if parts else ""
            if not got:
                sym = "lost"
            elif len(parts) > 1 and any(got == _body(p) for p in parts[1:]):
                sym = "later-part-instead-of-first"
            elif want in got:                      # includes: no such body in the message, yet text is reported
                sym = "foreign-text-added"
            elif got in want or got.replace("\n", "") in want.replace("\n", ""):
                sym = "truncated"
            else:
                sym = "differs"
            i = next((i for i, (a, b) in enumerate(zip(got, want)) if a != b), min(len(got), len(want)))
            d.append((f"body-{k}", sym, f"first difference at char {i}: got …{got[max(0, i - 30):i + 50]!r} want …{want[max(0, i - 30):i + 50]!r}"))
    # README: get_full_text() = body_plain when present, else body_html (stripped)
    exp_full = (o["plain"] or o["html"] or "").strip()
    if o["full_text"] != exp_full:
        d.append(("full-text", "not-plain-else-html", f"get_full_text()={o['full_text'][:80]!r} body_plain/html give {exp_full[:80]!r}"))
    # attachments
    want_all = t["atts"]
    got = list(o["atts"])
    inline = [a for a in want_all if a["inline"]]
    want = [a for a in want_all if not a["inline"]]

    escaped_atts = False                  # an attachment came back with the mailbox writer's '>' escapes: its extraction differs by them

    def same(g, w, strict_name=True):
        if g["mime"] != w["ctype"] or (strict_name and g["filename"] != w["filename"]):
            return False
        return g["sha"] == w["sha"] and g["len"] == len(w["data"])

    for w in inline:                      # optional, but exact when present
        for g in got:
            if (w["filename"] and g["filename"] == w["filename"]) or g["sha"] == w["sha"]:
                got.remove(g)
                if not same(g, w):
                    d.append(("inline-part", "differs", f"got {g['filename']!r} {g['mime']} {g['len']}B want {w['filename']!r} {w['ctype']} {len(w['data'])}B"))
                break
    if len(got) != len(want):
        sym = "attachments-not-returned" if not got and want else "count-differs"
        d.append(("attachment", sym, f"got {[(g['filename'], g['mime'], g['len']) for g in got]!r} want {[(w['filename'], w['ctype'], len(w['data'])) for w in want]!r}"))
    else:
        for g, w in zip(got, want):
            if not w["filename"]:
                # a part without filename / name parameter has no name to be exact about: "" / None / the readers' constant
                # placeholder "attachment" (no extension, so the declared type decides the extractor) - anything else is invented
                if g["filename"] and g["filename"] != "attachment":
                    d.append(("attachment", "filename-invented", f"nameless {w['ctype']} part: got {g['filename']!r}"))
            elif g["filename"] != w["filename"]:
                d.append(("attachment", "filename-differs", f"got {g['filename']!r} want {w['filename']!r}"))
            if g["mime"] != w["ctype"]:
                d.append(("attachment", "type-differs", f"{w['filename']}: got {g['mime']!r} want {w['ctype']!r}"))
            if g["sha"] != w["sha"]:
                textual = w["cte"] in ("7bit", "8bit") and w["kind"] in ("txt", "eml")
                gb = core.unb64(g["head"])
                if textual and g["sha_eol"] == core.sha(_eol(w["data"])):
                    pass                  # line terminator of a 7bit/8bit text part is transport
                elif carrier == "mbox" and w["cte"] in ("7bit", "8bit", "quoted-printable") and t.get("mbox_escape") and g["sha_eol"] == core.sha(_eol(_mboxrd_escaped(w["data"], t["mbox_escape"]))):
                    escaped_atts = True   # as for bodies: the '>' the harness's own mboxrd writer put before From lines may be kept (documented)
                elif carrier == "mbox" and w["kind"] == "eml" and g["sha_eol"] != core.sha(_eol(_blank_after_colon(w["data"]))):
                    # not the one known re-serialisation ("Name:" CRLF SP value -> "Name: " CRLF SP value): other bytes than the attached message's
                    d.append(("attachment-eml", "bytes-foreign", f"{w['filename']}: got {g['len']}B head={gb[:32]!r} want {len(w['data'])}B head={w['data'][:32]!r}"))
                else:
                    d.append((f"attachment-{w['kind']}", "bytes-differ", f"{w['filename']} cte={w['cte']}: got {g['len']}B head={gb[:32]!r} want {len(w['data'])}B head={w['data'][:32]!r}"))
            if g.get("pos") not in (0, None):
                d.append(("attachment", "stream-not-at-start", f"{w['filename']}: data.tell()={g['pos']}"))
    # supported attachments == direct extraction (only meaningful where the attachments were returned)
    if "direct" in o and len(got) == len(want) and not any(x[0].startswith("attachment") for x in d):
        exp, stop = [], None
        for w, dr in zip(want_all, o["direct"]):
            if w["inline"] and not any((w["filename"] and g["filename"] == w["filename"]) or g["sha"] == w["sha"] for g in o["atts"]):
                continue
            if dr.get("error", {}).get("type") == "ExtractionFileEncryptedError":
                stop = w                  # the file on its own is refused as encrypted: the iterator says so, too (it re-raises that error)
                break
            textual = w["cte"] in ("7bit", "8bit") and w["kind"] in ("txt", "eml")
            for x in dr.get("results", []):
                exp.append(dict(x, textual=textual))
        err = o.get("sup_error")
        if err and not err.get("family"):
            d.append(("supported-attachments", "raised-outside-error-family", repr(err)))
        elif err and not (stop is not None and err["type"] == "ExtractionFileEncryptedError"):
            d.append(("supported-attachments", "raised", repr(err)))
        elif stop is not None and not err:
            d.append(("supported-attachments", "encrypted-attachment-not-reported", f"{stop['filename']} ({stop['ctype']}): extracting the file on its own raises ExtractionFileEncryptedError, "
                      f"the iterator ended normally after {len(o['sup'])} results"))
        if not err or (stop is not None and err.get("type") == "ExtractionFileEncryptedError"):
            def ident(x, textual):
                return (x["cls"], x["text_sha_eol"]) if textual else (x["cls"], x["digest"], x["meta_digest"])

            tx = [e["textual"] for e in exp] + [False] * len(o["sup"])
            gs = [ident(x, tx[i]) for i, x in enumerate(o["sup"])]
            es = [ident(x, x["textual"]) for x in exp]
            if gs != es and not (escaped_atts and [x[0] for x in gs] == [x[0] for x in es]):
                if [x[0] for x in gs] == [x[0] for x in es]:
                    sym = "content-differs-from-direct-extraction"
                elif len(gs) < len(es):
                    sym = "fewer-than-direct-extraction"
                else:
                    sym = "other-than-direct-extraction"
                d.append(("supported-attachments", sym, f"got {[(x['cls'], x['text_head'][:30]) for x in o['sup']]!r} want {[(x['cls'], x['text_head'][:30]) for x in exp]!r}"))
        if any(p != 0 for p in o.get("att_pos_after", [])):
            d.append(("supported-attachments", "stream-not-rewound", repr(o["att_pos_after"])))
    return d


CROSS_FIELDS = ("subject", "from", "to", "cc", "bcc", "reply_to", "message_id", "plain", "html")


def compare_carriers(t: dict, e: dict, m: dict) -> list[tuple[str, str, str]]:
    d = []
    for k in CROSS_FIELDS:
        a, b = e[k], m[k]
        if k == "subject" and subject_symptom(a, t) is None and subject_symptom(b, t) is None:
            continue                       # each side is one of the admitted readings of the same wire form
        if k in ("plain", "html"):
            a, b = _body(a), _body(b)
            if len(t[k + "_parts"]) > 1 or (a != b and t.get("mbox_escape") and _body(G.escape_text(a, t["mbox_escape"])) == b):
                continue                   # (several inline parts: "the first" and "all of them" are both admitted readings)
        if a != b:
            d.append((f"body-{k}" if k in ("plain", "html") else k.replace("_", "-"), "eml-and-mbox-disagree", f"eml {a!r:.200} mbox {b!r:.200}"))
    ia, ib = _instant(e["date"]), _instant(m["date"])
    if ia != ib:
        d.append(("date", "eml-and-mbox-disagree", f"eml {e['date']!r} mbox {m['date']!r}"))
    return d


# ============================================================================================= case construction
def load_fixtures() -> dict:
    root = core.FIXTURES
    pick = {"docx": ["modern_ms/headings.docx"],
            "pdf": ["pdf/wirecard-annual-report-2018-page190.pdf", "pdf/large_table_1.pdf"],
            "xlsx": ["modern_ms/mwe.xlsx", "modern_ms/Country_Codes_and_Names.xlsx", "modern_ms/empty_row_columns.xlsx"]}
    fx = {k: [(n, (root / n).read_bytes()) for n in v] for k, v in pick.items()}
    # password-protected documents (refused as encrypted when read on their own): (fixture, bytes, declared type, extension)
    enc = {"legacy_ms/password_protected/docx-password-protected-pw123.docx": "application/vnd.openxmlformats-officedocument.wordprocessingml.document",
           "legacy_ms/password_protected/xslx-password-protected-pw123.xlsx": "application/vnd.openxmlformats-officedocument.spreadsheetml.sheet",
           "legacy_ms/password_protected/pptx-password-protected-pw123.pptx": "application/vnd.openxmlformats-officedocument.presentationml.presentation",
           "legacy_ms/password_protected/pdf-password-protected-pw123.pdf": "application/pdf",
           "open_office/password_protected/odt-password-protected-pw123.odt": "application/vnd.oasis.opendocument.text",
           "open_office/password_protected/ods-password-protected-pw123.ods": "application/vnd.oasis.opendocument.spreadsheet"}
    fx["enc"] = [(n, (root / n).read_bytes(), ct, n.rsplit(".", 1)[-1]) for n, ct in enc.items() if (root / n).exists()]
    return fx


def build_case(rng, tok, fx, n_msgs: int, risky: str | None, cid: int, stats=None) -> dict:
    """One mailbox of ``n_msgs`` messages.  Carries: every message as .eml, the mailbox, and the twins."""
    allow = {"max_atts": 4}
    specs = []

    def fresh(allow):
        for attempt in range(6):
            s = G.random_spec(rng, tok, fx, allow=allow)
            if s["hdr"]["mode"] == "stdlib":
                bad = G.header_roundtrip_problems(s)
                if bad:                                  # writer fault: not the reader's problem, re-render by hand
                    G.to_hand_mode(s)
                    if stats is not None:
                        stats["stdlib_writer_faults_avoided"] = stats.get("stdlib_writer_faults_avoided", 0) + 1
            probe = G.header_probe(s)
            wf = set(G.wire_features(s, probe))
            if s["hdr"]["mode"] == "stdlib" and AMBIGUOUS_FOLDS & wf:
                G.to_hand_mode(s)                        # the stdlib writer chose a risky / ambiguous fold: the hand writer never does
                probe = G.header_probe(s)
                wf = set(G.wire_features(s, probe))
                if stats is not None:
                    stats["stdlib_folds_at_encoded_word_avoided"] = stats.get("stdlib_folds_at_encoded_word_avoided", 0) + 1
            s["_wire_features"] = sorted(wf)
            if s["subject"] in G.subject_readings(probe) and not AMBIGUOUS_FOLDS & wf:
                break                                    # the wire says what the model says (always, for the hand writer: G.self_test)
            if stats is not None:
                stats["hand_writer_subject_faults"] = stats.get("hand_writer_subject_faults", 0) + 1
        return s

    for i in range(n_msgs):
        specs.append(fresh(allow))
    if specs and not risky and rng.random() < 0.12:
        # the same message filed twice (per-label exports, a user's copy): two results, each in its place
        dup = copy.deepcopy(rng.choice(specs))
        dup["features"] = sorted(set(dup["features"]) | {"mbox:filed-twice"})
        specs.insert(rng.randrange(len(specs) + 1), dup)
    if risky and specs:
        at = rng.randrange(len(specs))
        variant = NESTED_VARIANTS[cid % len(NESTED_VARIANTS)] if risky == "nested-rfc822" else None
        if variant and variant["carrier"]:
            # the carrier's own body shape matters: a carrier without text/plain is where a reader that walks into the
            # carried message finds "the first text/plain part"
            specs[at] = fresh(dict(allow, shapes=[variant["carrier"]], encrypted=False, containers=False))
        s = specs[at]
        s["risky"] = risky
        if risky == "nested-rfc822" and s.get("container"):
            # (the stdlib writes the parts of a multipart/signed without re-folding their headers: the carried message's bytes
            #  would not be what the model computes for it - the nested cases keep the ordinary containers)
            s["container"] = None
            s["atts"] = [a for a in s["atts"] if not a.get("of_wrapper")]
            s["features"] = sorted(f for f in s["features"] if not f.startswith("struct:container:"))
        if risky == "nested-rfc822":
            # 1..3 carried messages of different sizes: forwarded as attachment (with or without a file name) or inline
            sizes = rng.sample([0, 1, 3, 6, 10, 16, 24], len(variant["disp"]))
            if variant["order"] == "decreasing":
                sizes.sort(reverse=True)               # a later, shorter message after a longer one
            nested = [G.nested_eml_attachment(rng, tok, fx, s["hdr"]["policy"], disp=dsp, nameless=rng.random() < 0.5, lines=n) for dsp, n in zip(variant["disp"], sizes)]
            others = [a for a in s["atts"] if a["disp"] != "inline"][:max(0, 4 - len(nested))]
            s["atts"] = [a for a in s["atts"] if a["disp"] == "inline"] + others
            pos = rng.randrange(len(others) + 1)
            first = len(s["atts"]) - len(others) + pos
            s["atts"][first:first] = nested              # kept together and in this order
            s["features"] = sorted(set(f for f in s["features"] if not f.startswith("att:n=")) | {"att:eml:8bit", "risky:nested-rfc822", f"nested:n={len(nested)}:{variant['order']}", f"att:n={len(others) + len(nested)}", "nested:carrier-" + str(variant["carrier"])}
                                   | {"nested:disp-" + d for d in variant["disp"]} | {"nested:nameless" for a in nested if a["disp"] == "attachment" and not a["filename"]}
                                   | {f for a in nested for f in a["inner"]["features"] if ":" in f})
        elif risky == "fold-at-encoded-word":
            G.force_fold_at_encoded_word(rng, tok, s)
        elif risky == "date-second-60":
            G.force_second_60(s)
    for s in specs:
        # features that only the rendered bytes show (the stdlib writer folds where it likes)
        wf = s.pop("_wire_features") if not s.get("risky") else G.wire_features(s)      # a planned risky form re-writes the header block
        s.pop("_wire_features", None)
        s["auto_risky"] = [f for f in wf if f in RISKY and f != "fold-at-encoded-word"]   # that one is planned, never incidental
        if any(a["disp"] == "attachment" and not a["filename"] for a in s["atts"]):
            s["auto_risky"].append("nameless-attachment")
        if any(a["disp"] == "attachment" and len(a["filename"].encode("utf-8")) > 255 for a in s["atts"]):
            s["auto_risky"].append("attachment-name-over-255-bytes")
        s["features"] = sorted(set(s["features"]) | {"risky:" + f for f in s["auto_risky"]})
    eol = rng.choice([b"\n", b"\n", b"\r\n"])
    mb = {"eol": "CRLF" if eol == b"\r\n" else "LF", "blank_lines": rng.choice([1, 1, 1, 2]), "final_blank": rng.random() < 0.8,
          "escape": rng.choice(G.ESCAPE_STYLES)}
    return {"cid": cid, "specs": specs, "mbox_opts": mb, "risky": risky}


def envelopes(rng_seed: int, specs) -> list[tuple[str, str]]:
    out = []
    for i, s in enumerate(specs):
        sender = ["MAILER-DAEMON", s["from"][1].replace('"', "").replace(" ", ""), "-", "bounce+x=y@example.com"][(rng_seed + i) % 4]
        out.append((sender, G.asctime(s["date"])))
    return out


def materialise(case: dict) -> dict:
    """Render the case: -> {"items": [...], "blobs": {...}} for the worker plus the parent-side index."""
    specs = case["specs"]
    mbo = case["mbox_opts"]
    eol = b"\r\n" if mbo["eol"] == "CRLF" else b"\n"
    blobs, items, index = {}, [], []
    raws, per_message = [], []
    for i, s in enumerate(specs):
        raw = G.render_message(s)
        raws.append(raw)
        t = truth_of(s)
        for a in t["atts"]:
            blobs[a["sha"]] = core.b64(a["data"])
        per_message.append([{"filename": a["filename"], "ctype": a["ctype"], "sha": a["sha"], "ext": a["ext"]} for a in t["atts"]])
        items.append({"kind": "eml", "b64": core.b64(raw), "path": f"c16-{case['cid']}-{i}.eml", "truth_atts": [per_message[-1]]})
        index.append(("eml", i, None))
    env = envelopes(case["cid"], specs)
    mbox, escaped = G.write_mbox(raws, env, eol, mbo["blank_lines"], mbo["final_blank"], mbo.get("escape", "mboxrd"))
    # the mailbox's messages go through iterate_supported_attachments() as well (the shared dataclass, the other reader's
    # names): every message whose attachments are nameless / typed otherwise than named / encrypted / messages, and a
    # sixth of the others (extracting every PDF and workbook a second time would double the tier's cost)
    def through_iterator(i, s):
        special = any(not a["filename"] or a.get("mismatch") or a["kind"] in ("enc", "eml") for a in s["atts"] if a["disp"] != "inline")
        return special or (case["cid"] + i) % 6 == 0
    items.append({"kind": "mbox", "b64": core.b64(mbox), "path": f"c16-{case['cid']}.mbox",
                  "truth_atts": [pm if through_iterator(i, s) else None for i, (pm, s) in enumerate(zip(per_message, specs))]})
    index.append(("mbox", None, None))
    # control twins: the same messages with the risky feature replaced by its benign form
    twins = [twin_of(s) for s in specs]
    if any(tw is not None for tw in twins):
        tspecs = [tw or s for tw, s in zip(twins, specs)]
        tspecs = [G.strip_attachments(s) for s in tspecs]
        traws = [G.render_message(s) for s in tspecs]
        tmbox, _ = G.write_mbox(traws, env, eol, mbo["blank_lines"], mbo["final_blank"], mbo.get("escape", "mboxrd"))
        items.append({"kind": "mbox", "b64": core.b64(tmbox), "path": f"c16-{case['cid']}-twin.mbox"})
        index.append(("mbox-twin", None, tspecs))
        for i, (tw, s) in enumerate(zip(twins, specs)):
            if (s.get("risky") or s.get("auto_risky")) and tw is not None:
                tr = G.render_message(tw)
                tt = truth_of(tw)
                for a in tt["atts"]:
                    blobs[a["sha"]] = core.b64(a["data"])
                items.append({"kind": "eml", "b64": core.b64(tr), "path": f"c16-{case['cid']}-{i}-twin.eml",
                              "truth_atts": [[{"filename": a["filename"], "ctype": a["ctype"], "sha": a["sha"], "ext": a["ext"]} for a in tt["atts"]]]})
                index.append(("eml-twin", i, tw))
    raw_from = year_inside = own_quote = 0
    for raw in raws:                                     # ">From " lines of the sender's own that this mailbox stores as they are
        own_quote += sum(1 for ln in raw.replace(b"\r\n", b"\n").split(b"\n") if re.match(rb">+From ", ln) and not G.needs_escape(ln, mbo.get("escape", "mboxrd")))
    if mbo.get("escape") == "lookalikes-only":
        for raw in raws:
            for ln in raw.replace(b"\r\n", b"\n").split(b"\n"):
                if ln.startswith(b"From ") and not G.needs_escape(ln, "lookalikes-only"):
                    raw_from += 1
                    year_inside += bool(re.search(rb"\d{4}", ln))
    return {"items": items, "blobs": blobs, "index": index, "escaped": escaped, "mbox_len": len(mbox), "raw_from": raw_from, "year_inside": year_inside, "own_quote": own_quote}


def twin_of(spec: dict):
    """Benign form of the message: the nested message dropped / the Subject folded elsewhere; for the mbox carrier
    every attachment is dropped as well (done by the caller).  None when the message needs no twin at all."""
    t = None
    if spec.get("risky") == "nested-rfc822":
        t = copy.deepcopy(spec)
        t["atts"] = [a for a in t["atts"] if a["kind"] != "eml"]
        t.pop("risky")
        t["features"] = sorted(f for f in t["features"] if f not in ("att:eml:8bit", "risky:nested-rfc822") and not f.startswith(("inner:", "nested:")))
    elif spec.get("risky") == "fold-at-encoded-word":
        t = copy.deepcopy(spec)
        t["hdr"]["fold_at_ew"] = False
        t.pop("risky")
        t["features"] = sorted(f for f in t["features"] if f != "risky:fold-at-encoded-word")
    elif spec.get("risky") == "date-second-60":
        t = copy.deepcopy(spec)
        t["date_style"] = "std"
        t.pop("risky")
        t["features"] = sorted(set(f for f in t["features"] if f not in ("risky:date-second-60", "date:second-60")) | {"date:std"})
    if spec.get("auto_risky"):
        t = t or copy.deepcopy(spec)
        G.benign_wire_form(t)                       # Subject and Message-ID on one line each
        for i, a in enumerate(t["atts"]):
            if a["disp"] == "attachment" and not a["filename"]:
                a["filename"] = f"named-{i}." + {"enc": "bin"}.get(a["kind"], a["kind"])     # the same part with a file name
            elif a["disp"] == "attachment" and len(a["filename"].encode("utf-8")) > 255:
                a["filename"] = f"short-{i}" + (("." + a["filename"].rsplit(".", 1)[-1]) if "." in a["filename"] else "")
        t["features"] = sorted(f for f in t["features"] if f[6:] not in spec["auto_risky"] or not f.startswith("risky:"))
        t["auto_risky"] = []
    if t is None and spec["atts"]:
        t = copy.deepcopy(spec)
    if t is not None:
        t.pop("_subject_accept", None)
    return t


# ============================================================================================= verdicts
KNOWN_SYMPTOMS = {
    # risky feature -> {(carrier, component, symptom)} that the feature is known to cause
    "mbox-attachment": {("mbox", "attachment", "attachments-not-returned")},
    "nested-rfc822": {("eml", "body-plain", "foreign-text-added"), ("mbox", "body-plain", "foreign-text-added"),
                      ("eml", "attachment-eml", "bytes-differ"), ("mbox", "attachment-eml", "bytes-differ")},
    "fold-at-encoded-word": {("eml", "subject", "blank-between-words-lost"), ("mbox", "subject", "blank-between-words-lost")},
    "date-second-60": {("mbox", "extraction", "raised-ValueError")},
    "plain-folded-subject": {("eml", "subject", "fold-line-break-kept")},
    "message-id-on-continuation-line": {("mbox", "message-id", "outer-white-space-kept")},
    "nameless-attachment": {("eml", "attachment", "filename-invented")},
    "attachment-name-over-255-bytes": {(c, "supported-attachments", y) for c in ("eml", "mbox") for y in ("fewer-than-direct-extraction", "other-than-direct-extraction")},
}


def key_of(carrier: str, feature: str, comp: str, sym: str) -> str:
    return f"C16:{carrier}:{feature}:{comp}-{sym}"


def main(run, only_cases=None):
    G.self_test()
    fx = load_fixtures()
    rng = run.rng
    run.rule = ("case = (carrier, feature tags of the message, outcome); non-trivial = the extractor returned a result for a "
                "generated message and every field of it was compared with the model (or it raised and the raise was judged)")
    run.assumptions = [
        "the standard library's email *generator* (EmailMessage/BytesGenerator) and the harness's own RFC 2047/5322 header writer "
        "are correct writers; the hand writer is cross-checked against email.header/email.utils/mailbox on every run (G.self_test)",
        "a naive ISO date is read as UTC; dates are compared as instants, not as strings (the .eml path returns UTC, the .mbox path the header's own offset)",
        "CRLF vs LF inside bodies and inside 7bit/8bit text attachments is transport, not content",
        "no independent writer for Outlook .msg exists here: the two .msg fixtures are only run through the accessors for totality, no exactness claim is made for .msg",
        "attachment 'supported' means the library's own is_supported_mime_type(); generated attachments use the canonical MIME type of their format",
    ]
    cases = []
    if only_cases is None:
        n_clean = run.n(300, 4000)
        n_risky = run.n(12, 200)
        tokstart = rng.randrange(0, 50000)
        plan = [None] * n_clean + ["nested-rfc822"] * n_risky + ["fold-at-encoded-word"] * n_risky + ["date-second-60"] * (n_risky // 2)
        for cid, risky in enumerate(plan):
            tok = G.Tokens(tokstart + rng.randrange(0, 40000))
            n_msgs = rng.choice([0, 1, 1, 2, 3, 4, 5, 6, 7, 8]) if risky is None else rng.randrange(1, 4)
            if cid < 9:
                n_msgs = cid                       # every mailbox size 0..8 in every run
            cases.append(build_case(rng, tok, fx, n_msgs, risky, cid, run.counters))
    else:
        cases = only_cases

    mats = {}

    def stream():
        for c in cases:
            m = materialise(c)
            mats[c["cid"]] = m
            yield {"cid": c["cid"], "items": m["items"], "blobs": m["blobs"], "cpu_s": 120}

    by_cid = {c["cid"]: c for c in cases}
    for wc, obs in pool.run_cases("checks.c16:work", stream(), deadline_s=200, rlimit_as=3 << 30):
        case = by_cid[wc["cid"]]
        m = mats.pop(wc["cid"])
        judge_case(run, case, m, obs)

    fixtures_totality(run)

    c = run.counters
    run.require("eml_messages_compared", c.get("eml_messages_compared", 0), run.n(500, 8000))
    run.require("mbox_messages_compared", c.get("mbox_messages_compared", 0), run.n(500, 8000))
    run.require("mailboxes_judged", c.get("mailboxes_judged", 0), run.n(200, 3000))
    run.require("mailbox_sizes_seen", len([k for k in c if k.startswith("mailbox_size_")]), 9)
    run.require("attachments_compared_bytes", c.get("attachments_compared_bytes", 0), run.n(500, 8000))
    run.require("supported_attachment_extractions_compared", c.get("supported_attachment_extractions_compared", 0), run.n(400, 6000))
    run.require("escaped_from_lines_in_mailboxes", c.get("escaped_from_lines_in_mailboxes", 0), run.n(100, 2000))
    run.require("crlf_mailboxes", c.get("mailbox_eol_CRLF", 0), run.n(30, 500))
    run.require("control_twins_run", c.get("control_twins_run", 0), run.n(100, 1500))
    run.require("msg_fixtures_through_accessors", c.get("fixture_msg_results", 0), 2)
    run.require("header_charsets_seen", len([k for k in c if k.startswith("subject_charset_")]), 6)
    run.require("carrier_cross_comparisons", c.get("carrier_cross_comparisons", 0), run.n(500, 8000))
    run.require("subjects_with_interior_white_space_compared", c.get("subjects_with_interior_white_space_compared", 0), run.n(150, 2500))
    run.require("subject_white_space_kinds_seen", len([k for k in c if k.startswith("subject_ws_")]), len(G.SUBJECT_WS))
    run.require("subjects_with_tab_fold_compared", c.get("subjects_with_tab_fold_compared", 0), run.n(5, 100))
    run.require("mbox_supported_attachment_extractions_compared", c.get("mbox_supported_attachment_extractions_compared", 0), run.n(200, 3000))
    run.require("messages_with_several_inline_text_parts_of_one_subtype", c.get("messages_with_several_inline_text_parts_of_one_subtype", 0), run.n(60, 900))
    run.require("mailboxes_escaping_lookalikes_only", c.get("mailbox_escape_lookalikes-only", 0), run.n(60, 900))
    run.require("senders_own_quoted_from_lines_stored_as_they_are", c.get("senders_own_quoted_from_lines_stored_as_they_are", 0), run.n(100, 1500))
    run.require("mailboxes_written_mboxo", c.get("mailbox_escape_mboxo", 0), run.n(60, 900))
    run.require("mailboxes_written_mboxrd", c.get("mailbox_escape_mboxrd", 0), run.n(60, 900))
    run.require("unescaped_non_separator_from_lines_in_mailboxes", c.get("unescaped_non_separator_from_lines_in_mailboxes", 0), run.n(60, 900))
    run.require("unescaped_from_lines_with_a_year_inside", c.get("unescaped_from_lines_with_a_year_inside", 0), run.n(15, 200))
    run.require("messages_with_rfc2047_attachment_names", c.get("messages_with_name_rfc2047_attachment_names", 0), run.n(80, 1200))
    run.require("messages_with_rfc2047_content_type_name_only", c.get("messages_with_name_rfc2047_name_attachment_names", 0), run.n(40, 600))
    run.require("messages_with_attachments_below_another_container", c.get("messages_with_attachments_below_another_container", 0), run.n(60, 900))
    run.require("container_kinds_seen", len([k for k in c if k.startswith("container_")]), 5)
    run.require("messages_with_two_attachments_of_one_name", c.get("messages_with_two_attachments_of_one_name", 0), run.n(40, 600))
    run.require("messages_without_message_id", c.get("messages_without_message_id", 0), run.n(60, 900))
    run.require("mailboxes_with_two_messages_without_message_id", c.get("mailboxes_with_two_messages_without_message_id", 0), run.n(8, 100))
    run.require("messages_filed_twice_in_one_mailbox", c.get("messages_filed_twice_in_one_mailbox", 0), run.n(15, 250))
    run.require("nested_message_variants_seen", len([k for k in c if k.startswith("nested_variant_")]), len(NESTED_VARIANTS))
    run.require("attachments_with_other_type_than_their_name_says", c.get("attachments_with_other_type_than_their_name_says", 0), run.n(100, 1500))
    run.require("type_name_mismatch_kinds_seen", len([k for k in c if k.startswith("mismatch_")]), len(G.MISMATCHED))
    run.require("messages_with_encrypted_attachment", c.get("messages_with_encrypted_attachment", 0), run.n(20, 300))
    run.require("messages_with_nameless_attachment", c.get("messages_with_nameless_attachment", 0), run.n(30, 500))
    run.require("display_names_with_interior_white_space", c.get("display_names_with_interior_white_space", 0), run.n(100, 1500))
    if c.get("hand_writer_subject_faults"):
        run.inconclusive(f"{c['hand_writer_subject_faults']} generated Subject headers did not read back as the model says (writer fault, not a reader's)")
    if run.inconclusive_cases > 0.02 * max(1, len(cases)):
        run.inconclusive(f"{run.inconclusive_cases} of {len(cases)} cases inconclusive")


def _replay_doc(case, note=None):
    return {"case": {"cid": case["cid"], "risky": case["risky"], "mbox_opts": case["mbox_opts"],
                     "specs": [G.spec_to_json(s) for s in case["specs"]]}, "note": note}


def judge_case(run, case, m, obs):
    specs = case["specs"]
    if any(k in obs for k in ("_died", "_timeout", "_cpu_exhausted", "_oom", "_harness_error")):
        if "_harness_error" in obs:
            run.inconclusive_cases += 1
            run.count("harness_errors")
            run.extras.setdefault("harness_error_sample", obs.get("_harness_error"))
            return
        run.violation(key_of("any", feature_of_case(case), "extraction", "died-or-stalled"), f"worker observation {dict((k, v) for k, v in obs.items() if k.startswith('_'))}", _replay_doc(case))
        return
    run.count("mailboxes_judged")
    run.count(f"mailbox_size_{len(specs)}")
    run.count("mailbox_eol_" + case["mbox_opts"]["eol"])
    run.count("escaped_from_lines_in_mailboxes", m["escaped"])
    run.count("mailbox_escape_" + case["mbox_opts"].get("escape", "mboxrd"))
    if sum(1 for s in specs if not s["message_id"]) >= 2:
        run.count("mailboxes_with_two_messages_without_message_id")
    run.count("unescaped_non_separator_from_lines_in_mailboxes", m.get("raw_from", 0))
    run.count("unescaped_from_lines_with_a_year_inside", m.get("year_inside", 0))
    run.count("senders_own_quoted_from_lines_stored_as_they_are", m.get("own_quote", 0))
    items = obs["items"]
    truths = [dict(truth_of(s), mbox_escape=case["mbox_opts"].get("escape", "mboxrd")) for s in specs]
    eml_obs = {}
    diffs = []                                   # (carrier, msg index, component, symptom, detail)
    twin_dirty = {}                              # msg index -> bool (eml twin), "mbox" -> bool
    mbox_results = None
    for (kind, idx, extra), it in zip(m["index"], items):
        if kind == "eml":
            r = _single(it)
            if isinstance(r, str):
                diffs.append(("eml", idx, "extraction", r, json.dumps(it["error"])[:300]))
                continue
            eml_obs[idx] = r
            for comp, sym, det in compare_message(truths[idx], r, "eml"):
                diffs.append(("eml", idx, comp, sym, det))
            run.count("eml_messages_compared")
            _count_message(run, specs[idx], truths[idx], r)
        elif kind == "mbox":
            if it["error"]:
                diffs.append(("mbox", None, "extraction", "raised-" + str(it["error"].get("cause") or it["error"]["type"]), json.dumps(it["error"])[:300]))
                continue
            mbox_results = it["results"]
            if len(mbox_results) != len(specs):
                got_subj = [_ws(r["subject"])[:40] for r in mbox_results]
                diffs.append(("mbox", None, "boundaries", "more-results-than-messages" if len(mbox_results) > len(specs) else "fewer-results-than-messages",
                              f"{len(mbox_results)} results for {len(specs)} messages; subjects {got_subj!r}"))
            else:
                order = [_ws(r["subject"]) for r in mbox_results]
                if order != [_ws(t["subject"]) for t in truths] and sorted(order) == sorted(_ws(t["subject"]) for t in truths):
                    diffs.append(("mbox", None, "boundaries", "order-differs", f"{order!r}"))
                for i, r in enumerate(mbox_results):
                    for comp, sym, det in compare_message(truths[i], r, "mbox"):
                        diffs.append(("mbox", i, comp, sym, det))
                    run.count("mbox_messages_compared")
                    run.count("mbox_supported_attachment_extractions_compared", len(r.get("sup", [])))
        elif kind == "mbox-twin":
            tspecs = extra
            bad = []
            if it["error"] or len(it["results"]) != len(tspecs):
                bad.append(("boundaries-or-raise", repr(it["error"]) + f" n={len(it['results'])}"))
            else:
                for i, r in enumerate(it["results"]):
                    for comp, sym, det in compare_message(dict(truth_of(tspecs[i]), mbox_escape=case["mbox_opts"].get("escape", "mboxrd")), r, "mbox"):
                        bad.append((f"{comp}-{sym}", det))
            twin_dirty["mbox"] = bad
            run.count("control_twins_run")
        elif kind == "eml-twin":
            r = _single(it)
            bad = []
            if isinstance(r, str):
                bad.append(("extraction-" + r, json.dumps(it["error"])[:300]))
            else:
                for comp, sym, det in compare_message(truth_of(extra), r, "eml"):
                    bad.append((f"{comp}-{sym}", det))
            twin_dirty[idx] = bad
            run.count("control_twins_run")
    # the two carriers against each other
    if mbox_results is not None and len(mbox_results) == len(specs):
        for i, r in enumerate(mbox_results):
            if i in eml_obs:
                run.count("carrier_cross_comparisons")
                for comp, sym, det in compare_carriers(truths[i], eml_obs[i], r):
                    # a disagreement is only news when both sides matched the model or neither diff explains it
                    if not any(dd[1] == i and dd[2] == comp for dd in diffs) and not any(dd[1] is None for dd in diffs):
                        diffs.append(("cross", i, comp, sym, det))
    # ---- classify
    for carrier, idx, comp, sym, det in diffs:
        spec = specs[idx] if idx is not None else None
        feature = "clean"
        if spec is None and case.get("risky") and (carrier, comp, sym) in KNOWN_SYMPTOMS.get(case["risky"], ()):
            tw = twin_dirty.get("mbox")          # mailbox-level symptom of a mailbox holding exactly one risky message
            if tw is not None and not tw:
                feature = case["risky"]
        if spec is not None:
            mine = [f for f in [spec.get("risky")] + list(spec.get("auto_risky") or []) if f and (carrier, comp, sym) in KNOWN_SYMPTOMS.get(f, ())]
            if mine:
                feature = mine[0]
                tw = twin_dirty.get(idx)
                if tw is None or tw:
                    feature = "clean"      # no clean control twin -> not attributable to the risky feature
                if carrier == "mbox" and feature in (spec.get("auto_risky") or ()) and twin_dirty.get("mbox") != []:
                    feature = "clean"      # a symptom of the mailbox reader needs the twin *mailbox* to be exact
            elif carrier == "mbox" and (carrier, comp, sym) in KNOWN_SYMPTOMS["mbox-attachment"] and [a for a in spec["atts"] if a["disp"] != "inline"]:
                feature = "mbox-attachment"
                tw = twin_dirty.get("mbox")
                if tw is None or tw:
                    feature = "clean"
        key = key_of(carrier, feature, comp, sym)
        where = f"message {idx} " if idx is not None else ""
        feats = ",".join(spec["features"]) if spec is not None else f"mailbox of {len(specs)} ({case['mbox_opts']})"
        fresh = key not in run._viol and key not in run._known
        run.violation(key, f"{where}[{feats}] {det}", _replay_doc(case, {"carrier": carrier, "message": idx, "component": comp, "symptom": sym}) if fresh else None)
    for k, bad in twin_dirty.items():
        for name, det in bad or []:
            run.violation(key_of("mbox" if k == "mbox" else "eml", "clean", "control-twin", name), f"control twin of case {case['cid']}: {det}", _replay_doc(case, {"twin": str(k)}))
    # ---- evidence: one run.case per judged message and carrier
    dset = {(c, i) for c, i, *_ in diffs}
    for i, s in enumerate(specs):
        sig_feats = [f for f in s["features"] if f.split(":")[0] in ("hdr", "subj", "date", "struct", "body", "att", "risky", "inner")]
        for carrier in ("eml", "mbox"):
            outcome = "differs" if (carrier, i) in dset else "exact"
            run.case(f"{carrier}|{'|'.join(sig_feats)}|{outcome}",
                     sample={"carrier": carrier, "features": s["features"], "subject": s["subject"][:60], "outcome": outcome} if run.evaluations < 4 else None)
    run.case(f"mailbox|n={len(specs)}|{case['mbox_opts']['eol']}|blank={case['mbox_opts']['blank_lines']}|final={case['mbox_opts']['final_blank']}|{case['mbox_opts'].get('escape', 'mboxrd')}|"
             f"{'ok' if not any(d[2] == 'boundaries' for d in diffs) else 'bad'}")


def feature_of_case(case) -> str:
    return case.get("risky") or "clean"


def _single(it):
    if it["error"]:
        return "raised-" + str(it["error"].get("cause") or it["error"]["type"])
    if len(it["results"]) != 1:
        return f"yielded-{min(len(it['results']), 2)}-results"
    return it["results"][0]


def _count_message(run, spec, truth, r):
    run.count("attachments_compared_bytes", len([a for a in truth["atts"] if not a["inline"]]))
    run.count("inline_parts_reported_as_attachments", len([a for a in truth["atts"] if a["inline"] and any(g["filename"] == a["filename"] for g in r["atts"])]))
    run.count("supported_attachment_extractions_compared", len(r.get("sup", [])))
    for d in r.get("direct", []):
        if "error" in d:
            run.count("direct_extraction_errors")
    if any(f.startswith("subj:ws:") for f in spec["features"]):
        run.count("subjects_with_interior_white_space_compared")
    if len(truth["subject_accept"]) > 1:
        run.count("subjects_with_tab_fold_compared")
    if len(truth["plain_parts"]) > 1 or len(truth["html_parts"]) > 1:
        run.count("messages_with_several_inline_text_parts_of_one_subtype")
    if spec.get("risky") == "nested-rfc822":
        run.count("nested_variant_" + "|".join(f for f in spec["features"] if f.startswith("nested:") and "nameless" not in f))
    for f in spec["features"]:
        if f.startswith("att:mismatch:"):
            run.count("attachments_with_other_type_than_their_name_says")
            run.count("mismatch_" + f[13:])
        elif f == "att:same-name-twice":
            run.count("messages_with_two_attachments_of_one_name")
        elif f == "mid:absent":
            run.count("messages_without_message_id")
        elif f == "mbox:filed-twice":
            run.count("messages_filed_twice_in_one_mailbox")
        elif f.startswith("struct:container:"):
            run.count("messages_with_attachments_below_another_container")
            run.count("container_" + f[17:])
        elif f.startswith("att:name-rfc2047"):
            run.count("messages_with_" + f[4:].replace("-", "_") + "_attachment_names")
        elif f.startswith("att:encrypted:"):
            run.count("messages_with_encrypted_attachment")
        elif f == "att:nameless" or f == "nested:nameless":
            run.count("messages_with_nameless_attachment")
        if f.startswith("subj:ws:"):
            run.count("subject_ws_" + f[8:])
        elif f.startswith("name:ws-quoted") or f.startswith("name:nonascii-ws"):
            run.count("display_names_with_interior_white_space")
        elif f.startswith("risky:"):
            run.count("risky_" + f[6:])
        if f.startswith("subj:") and f.rsplit(":", 1)[-1] in G.CHARSETS + ["ascii"]:
            run.count("subject_charset_" + f.rsplit(":", 1)[-1].replace("us-ascii", "ascii"))
        elif f.startswith("name:nonascii"):
            run.count("display_name_charset_" + f.rsplit(":", 1)[-1])
        elif f.startswith("date:"):
            run.count("date_style_" + f[5:])
        elif f.startswith("struct:") and not f.startswith("struct:related"):
            run.count("structure_" + f[7:])
        elif f.startswith("body:plain:") or f.startswith("body:html:"):
            _, _, cs, cte = f.split(":")
            run.count("body_charset_" + cs)
            run.count("body_cte_" + cte)
    if r["in_reply_to"] != "" and not any(n == "In-Reply-To" and _ws(v) == _ws(r["in_reply_to"]) for n, v in spec["hdr"].get("extra", [])):
        run.count("info_in_reply_to_unexpected")


def fixtures_totality(run):
    """The two .msg fixtures (and the eml/mbox fixtures) through the same accessors: totality only."""
    d = core.FIXTURES / "mails"
    items = []
    for p in sorted(d.iterdir()):
        kind = p.suffix.lstrip(".").lower()
        if kind in ("msg", "eml", "mbox"):
            items.append({"kind": kind, "file": str(p), "path": str(p), "truth_atts": [[]] * 8})
    for wc, obs in pool.run_cases("checks.c16:work", [{"cid": "fixtures", "items": items, "cpu_s": 120}], workers=1, deadline_s=200):
        if "items" not in obs:
            run.violation("C16:fixture:clean:extraction-died-or-stalled", repr({k: v for k, v in obs.items() if k.startswith("_")}), {"fixtures": [i["file"] for i in items]})
            return
        for it, o in zip(items, obs["items"]):
            name = it["file"].rsplit("/", 1)[-1]
            if o["error"] or not o["results"]:
                run.violation(f"C16:{it['kind']}-fixture:clean:accessors-not-total", f"{name}: {o['error']!r} results={len(o['results'])}", {"fixture": it["file"]})
            else:
                for r in o["results"]:
                    if _instant(r["date"]) is None:
                        run.violation(f"C16:{it['kind']}-fixture:clean:date-not-iso", f"{name}: date {r['date']!r}", {"fixture": it["file"]})
                    if "sup_error" in r:
                        run.violation(f"C16:{it['kind']}-fixture:clean:supported-attachments-raised", f"{name}: {r['sup_error']!r}", {"fixture": it["file"]})
                    run.count(f"fixture_{it['kind']}_results")
                    run.count(f"fixture_{it['kind']}_attachments", len(r["atts"]))
                    run.count(f"fixture_{it['kind']}_supported_extracted", len(r.get("sup", [])))
            run.case(f"fixture|{it['kind']}|{name}|{'ok' if not o['error'] else 'raised'}")


def replay(run, doc):
    c = doc["case"]["case"] if "case" in doc.get("case", {}) else doc["case"]
    case = {"cid": c["cid"], "risky": c.get("risky"), "mbox_opts": c["mbox_opts"], "specs": [G.spec_from_json(s) for s in c["specs"]]}
    print("replaying case", case["cid"], "note:", doc.get("case", {}).get("note"))
    m = materialise(case)
    for wc, obs in pool.run_cases("checks.c16:work", [{"cid": case["cid"], "items": m["items"], "blobs": m["blobs"], "cpu_s": 120}], workers=1, deadline_s=200):
        judge_case(run, case, m, obs)
    for k, v in {**run._viol, **run._known}.items():
        print(" ", k, "x", v["count"], "::", v["what"][:600])
