"""C15 — isolation: results independent of history and of concurrent work; global state restored.

Part 1  controlled scheduler (vlib/mon/sched.py) over the real patch / extract / restore critical section of PDF text
        extraction: the patched module attribute is made observable by swapping the module's class; every get/set of
        it is a scheduling point; all interleavings for 2 threads (DFS), preemption-bounded + random for 3 threads.
Part 2  preemptive stress: 8 threads over a PDF-heavy mixed workload with a 1 us switch interval; results compared with
        single-threaded baselines, global state snapshot before/after.
Part 3  histories: random sequences of extractions (incl. failing inputs) in one process; after every step the global
        state snapshot must equal the initial one and every result must equal its fresh-process baseline.
        A step is (bytes, path): the path argument varies per step (None included), and besides the random pool the
        histories walk *context groups* (vlib/gen/isolation_docs.py): documents that share a sub-key (a \'hh escape, a
        part name, a relationship id, a string index, a style id, a member name) and differ in the context that gives
        it its meaning (code page, package, target ...), incl. members whose optional parts are absent or dangling.
        The same groups are run under 8-thread preemption in part 2.
"""
from __future__ import annotations

import gc
import hashlib
import io
import json
import os
import sys
import threading
import types

from vlib import corpus, pool
from vlib.gen import isolation_docs as iso

LEVEL = "exploration"


# ------------------------------------------------------------------------------------------ global state snapshot
def snapshot():
    """Process-global state the library touches (identity-level for patched functions)."""
    from sharepoint2text.parsing.extractors.pdf import pdf_extractor as P
    from sharepoint2text.parsing.extractors import archive_extractor as A
    snap = {}
    try:
        targets, _ = P._get_pypdf_char_map_patcher()
        for mod, name in targets:
            f = getattr(mod, name)
            depth = 0
            g = f
            while getattr(g, "__closure__", None) and g.__name__ == "patched" and depth < 50:
                inner = [c.cell_contents for c in g.__closure__ if callable(c.cell_contents)]
                if not inner:
                    break
                g = inner[0]
                depth += 1
            snap[f"patch:{mod.__name__}.{name}"] = f"{getattr(f, '__module__', '?')}.{getattr(f, '__qualname__', '?')}:depth={depth}"
    except Exception as e:
        snap["patch"] = f"unavailable: {e}"
    snap["archive_config"] = repr(A._config)
    snap["threads"] = threading.active_count()
    # process-wide tables of the standard library that decide results (routing of names the router does not know, content types of images,
    # charsets): they belong to the process, not to whichever extractor module happened to be imported (lazily) first
    import codecs
    import mimetypes
    db = mimetypes._db
    if db is not None:
        tbl = [sorted(db.types_map[True].items()), sorted(db.types_map[False].items()), sorted(db.suffix_map.items()), sorted(db.encodings_map.items())]
        snap["mimetypes:tables"] = hashlib.sha1(json.dumps(tbl).encode()).hexdigest()[:12] + f":{sum(len(t) for t in tbl)} entries"
    probe = []
    for name in CODEC_PROBES:
        try:
            probe.append(codecs.lookup(name).name)
        except LookupError:
            probe.append(None)
    snap["codecs:lookup"] = json.dumps(probe)
    import warnings
    snap["warnings:filters"] = (hashlib.sha1(repr([(a, getattr(m, "pattern", m), c.__name__, getattr(mo, "pattern", mo), ln) for a, m, c, mo, ln in warnings.filters]).encode()).hexdigest()[:12]
                                + f":{len(warnings.filters)} filters:showwarning={getattr(warnings.showwarning, '__module__', '?')}.{getattr(warnings.showwarning, '__qualname__', '?')}")
    snap["interpreter:limits"] = f"recursion={sys.getrecursionlimit()} cwd={os.getcwd()} path={hashlib.sha1(json.dumps(sys.path).encode()).hexdigest()[:8]}"
    try:
        tmp = os.environ.get("TMPDIR") or "/tmp"
        snap["tmp_entries"] = len([n for n in os.listdir(tmp)]) if os.environ.get("VERIF_PRIVATE_TMP") else -1
    except Exception:
        snap["tmp_entries"] = -1
    try:
        snap["open_fds"] = len(os.listdir("/proc/self/fd"))
    except Exception:
        snap["open_fds"] = -1
    return snap


CODEC_PROBES = ["iso-8859-8-i", "iso-8859-8-e", "x-mac-roman", "x-sjis", "windows-31j", "unicode-1-1-utf-7", "x-user-defined", "cp-1252", "win1252", "ansi", "utf8mb4", "binary",
                "iso-8859-1-windows-3.1-latin-1", "ks_c_5601-1987", "x-euc-jp", "x-gbk", "no-such-charset", "dos-862", "cp65001", "unicode"]


def _digest(results):
    out = []
    for r in results:
        out.append(hashlib.sha1(json.dumps(r.to_json(), sort_keys=True, default=repr).encode()).hexdigest()[:16])
    return out


def _step(step):
    """[kind, recipe] or [kind, recipe, path index] -> canonical 3-element step."""
    return [step[0], step[1], step[2] if len(step) > 2 else 1]


def _short(step) -> str:
    """Readable name of a step (base64 payloads of raw sources are replaced by their length and label)."""
    kind, recipe, pidx = _step(step)
    src = recipe["src"]
    if src and src[0] == "raw":
        src = ["raw", f"<{len(src[1]) * 3 // 4} bytes>"] + list(src[2:])
    how = f" path#{pidx}" if not isinstance(pidx, dict) else " via " + " ".join(f"{k}={v}" for k, v in sorted(pidx.items()))
    return f"{kind} {src}" + (f" {recipe['op']}" if recipe.get("op") else "") + how


def _step_key(step) -> str:
    return json.dumps(_step(step), sort_keys=True)


def _rf_root() -> str:
    """Directory of the files for read_file steps: the same absolute path in every process of one run (the path is part of the result's metadata)."""
    return os.environ.get("VERIF_C15_RF_ROOT") or "/tmp/verif-c15-read-file"


def _step_io(step):
    """(kind, bytes, path) of a step; for a step through another entry point (third element a dict: {"entry": "read_file", "pidx": i, <options>})
    the 'path' is that dict, completed with the file name to use."""
    kind, recipe, pidx = _step(step)
    data = iso.make_input(recipe)
    ext = corpus.KIND_EXT.get(kind, ".bin") if kind != "zip" else iso.source_ext(recipe["src"])
    if isinstance(pidx, dict):
        name = iso.path_for(pidx.get("pidx", 1), ext) or ("in" + ext)
        return kind, data, dict(pidx, name=name.lstrip("/"), dir=hashlib.sha1(json.dumps(recipe, sort_keys=True).encode()).hexdigest()[:16])
    return kind, data, iso.path_for(pidx, ext)


def _via_read_file(data, opts):
    """sharepoint2text.read_file on a real file holding ``data`` (the documented file entry point, with its option flags)."""
    import sharepoint2text
    d = os.path.join(_rf_root(), opts["dir"])        # named after the recipe, not the bytes: container timestamps (gzip) may differ between processes
    fp = os.path.join(d, opts["name"])
    if not os.path.exists(fp):
        os.makedirs(os.path.dirname(fp), exist_ok=True)
        tmp = f"{fp}.{os.getpid()}.{threading.get_ident()}.tmp"
        with open(tmp, "wb") as f:
            f.write(data)
        os.replace(tmp, fp)
    kw = {k: v for k, v in opts.items() if k not in ("entry", "pidx", "name", "dir")}
    return list(sharepoint2text.read_file(fp, **kw))


def _extract_digest(kind, data, path):
    from vlib import obs
    if kind == "route":
        # a routing question instead of an extraction: the answers for names only the MIME fallback decides
        import sharepoint2text
        from sharepoint2text.parsing.exceptions import ExtractionFileFormatNotSupportedError
        out = []
        for name in data.decode().split("\n"):
            try:
                s_ = bool(sharepoint2text.is_supported_file(name))
            except Exception as e:
                s_ = f"raises {type(e).__name__}"
            try:
                g_ = getattr(sharepoint2text.get_extractor(name), "__name__", "?")
            except ExtractionFileFormatNotSupportedError:
                g_ = "N"
            except Exception as e:
                g_ = f"raises {type(e).__name__}"
            out.append([name, s_, g_])
        return [hashlib.sha1(json.dumps(out).encode()).hexdigest()[:16]]
    try:
        if isinstance(path, dict):
            return _digest(_via_read_file(data, path))
        return _digest(list(obs.extractor(kind)(io.BytesIO(data), path)))
    except Exception as e:
        return f"raises {type(e).__name__}"


def work_init(init):
    import logging
    logging.disable(logging.CRITICAL)
    import mimetypes
    import tempfile
    mimetypes.init()            # the table as the host provides it is the reference state (the stdlib builds it lazily on first use)
    import sharepoint2text  # noqa
    # deliberately NO pre-import of the extractor modules here: the router imports them lazily, and import-time side effects
    # (registries, codecs, monkey patches) are exactly the kind of history a result must not depend on
    d = tempfile.mkdtemp(prefix="verif-c15-")
    os.environ["TMPDIR"] = d
    os.environ["VERIF_PRIVATE_TMP"] = "1"
    tempfile.tempdir = d
    import atexit
    import shutil
    atexit.register(lambda: shutil.rmtree(d, ignore_errors=True))


# ------------------------------------------------------------------------------------------ part 1: controlled scheduler
def part_scheduler(case):
    from sharepoint2text.parsing.extractors.pdf import pdf_extractor as P
    from vlib.mon import sched
    import random
    targets, _ = P._get_pypdf_char_map_patcher()
    names = {}
    for mod, name in targets:
        names.setdefault(mod, set()).add(name)
    originals = {(mod, name): getattr(mod, name) for mod, name in targets}
    current = {"run": None}

    def hook_class(watch):
        class Hooked(types.ModuleType):
            def __getattribute__(self, name):
                if name in watch and current["run"] is not None:
                    current["run"].point(f"get {name}")
                return types.ModuleType.__getattribute__(self, name)

            def __setattr__(self, name, value):
                if name in watch and current["run"] is not None:
                    current["run"].point(f"set {name}")
                types.ModuleType.__setattr__(self, name, value)
        return Hooked

    old_classes = {}
    for mod, watch in names.items():
        old_classes[mod] = mod.__class__
        mod.__class__ = hook_class(frozenset(watch))
    k = case["threads"]
    bad = []
    states = set()
    # every module-level lock of the extractor becomes a scheduler-aware lock for the duration of the exploration
    real_locks = {n: v for n, v in vars(P).items() if isinstance(v, (type(threading.Lock()), type(threading.RLock())))}
    sched_locks = {n: _SchedLock(current, isinstance(v, type(threading.RLock()))) for n, v in real_locks.items()}
    for n, l in sched_locks.items():
        setattr(P, n, l)
    try:
        def make_fns():
            for (mod, name), orig in originals.items():
                types.ModuleType.__setattr__(mod, name, orig)
            for l in sched_locks.values():
                l.owner, l.depth = None, 0
            for n in ("_char_map_patch_users",):      # the section's own user count starts from zero in every schedule
                if isinstance(getattr(P, n, None), int):
                    setattr(P, n, 0)
            seen_inside = [None] * k

            def body(idx):
                with P._patched_build_char_map():
                    # what pypdf would call during this thread's extraction
                    mod, name = targets[0]
                    seen_inside[idx] = getattr(mod, name)
            return [body] * k, seen_inside

        def on_schedule(run, seen_inside, sid):
            current["run"] = None
            end = []
            for (mod, name), orig in originals.items():
                cur = types.ModuleType.__getattribute__(mod, name)
                end.append(cur is orig)
            inside_unpatched = [i for i, f in enumerate(seen_inside) if f is not None and any(f is o for o in originals.values())]
            states.add((tuple(end), tuple(inside_unpatched)))
            trace = " ".join(f"T{t}:{lbl.split()[0]}" for t, lbl in run.trace if lbl != "start")
            if run.errors:
                bad.append({"sym": "thread-raised", "detail": run.errors[0], "trace": trace})
            if not all(end):
                bad.append({"sym": "patched-function-left-installed", "detail": f"after all {k} threads left the critical section pypdf's function is still a wrapper", "trace": trace})
            if inside_unpatched:
                bad.append({"sym": "unpatched-inside-critical-section", "detail": f"thread(s) {inside_unpatched} saw the original function while inside their own patch section (another thread restored it)", "trace": trace})

        # the scheduler's Run, made aware of the library's own locks: waiting for a lock is a *logical* state (the thread is
        # not enabled until the owner releases), never a wall-clock guess.  The wall-clock stall rule of vlib/mon/sched.py
        # stays as a last resort for blocking the harness does not know, with a bound no machine load reaches.
        orig_run = sched.Run
        sched.Run = _lock_aware_run(sched, current, float(case.get("stall_s", 5.0)))
        try:
            stats = sched.explore(make_fns, k, on_schedule, max_schedules=case.get("max_schedules"), preemption_bound=case.get("preemption_bound"),
                                  rng=random.Random(case.get("seed", 0)), random_schedules=case.get("random_schedules", 0))
        except sched.Deadlock as e:
            stats = {"schedules": 0, "complete": False, "max_depth": 0, "blocked_seen": 0, "with_preemption": 0, "distinct_traces": 0}
            bad.append({"sym": "deadlock", "detail": str(e)[:300], "trace": str(e)[-300:]})
        finally:
            sched.Run = orig_run
            current["run"] = None
    finally:
        for mod, cls in old_classes.items():
            mod.__class__ = cls
        for (mod, name), orig in originals.items():
            setattr(mod, name, orig)
        for name, real in real_locks.items():
            setattr(P, name, real)
    first = {}
    for b in bad:
        first.setdefault(b["sym"], b)
        first[b["sym"]]["count"] = first[b["sym"]].get("count", 0) + 1
    return {"part": "scheduler", "threads": k, "stats": stats, "problems": list(first.values()), "distinct_end_states": len(states),
            "targets": [f"{m.__name__}.{n}" for m, n in targets], "locks": sorted(real_locks)}


# ------------------------------------------------------------------------------------------ part 1b: interpreter-wide setters under the controlled scheduler
def _global_setters():
    """(module, name) of functions that change interpreter- or process-wide state an extraction result may depend on.  Code that calls one of them
    through the module attribute (sys.setrecursionlimit(...)) reaches the harness' wrapper: every such call is a scheduling point."""
    import codecs
    import decimal
    import locale
    import mimetypes
    import re
    import warnings
    return [(sys, "getrecursionlimit"), (sys, "setrecursionlimit"), (sys, "setswitchinterval"), (mimetypes, "add_type"), (mimetypes, "init"),
            (re, "compile"), (codecs, "register"), (codecs, "register_error"), (os, "chdir"), (os, "umask"), (os, "putenv"), (locale, "setlocale"),
            (decimal, "setcontext"), (warnings, "simplefilter"), (warnings, "filterwarnings"), (warnings, "resetwarnings"),
            (warnings.catch_warnings, "__enter__"), (warnings.catch_warnings, "__exit__"), (decimal, "localcontext"), (gc, "disable"), (gc, "enable"), (threading, "setprofile"), (threading, "settrace")]


def part_sched_globals(case):
    """k threads, each extracting one document, explored exhaustively at the granularity of calls to interpreter-wide setters (no such call
    = one schedule per thread order).  After every schedule: each result equals the document's result extracted alone in this process, and
    the interpreter-wide state equals the state before."""
    from vlib.mon import sched
    import random
    steps = [_step(st) for st in case["steps"]]
    inputs = [_step_io(st) for st in steps]
    k = len(inputs)
    solo = [_extract_digest(*inp) for inp in inputs]
    before = snapshot()
    limit0 = sys.getrecursionlimit()
    current = {"run": None}
    targets = _global_setters()
    originals = {}

    def wrap(f, label):
        def hooked(*a, **kw):
            r = current["run"]
            if r is not None:
                r.point(label)
            return f(*a, **kw)
        hooked.__name__ = getattr(f, "__name__", label)
        return hooked
    for mod, name in targets:
        f = getattr(mod, name, None)
        if f is not None:
            originals[(mod, name)] = f
            setattr(mod, name, wrap(f, f"{getattr(mod, '__name__', mod)}.{name}"))
    bad = []
    seen_labels = set()
    hooks_live = [0]
    orig_run = sched.Run
    sched.Run = _lock_aware_run(sched, current, float(case.get("stall_s", 10.0)))
    try:
        # the hooks are live: two threads calling a wrapped setter produce scheduling points
        def probe_fns():
            def body(idx):
                sys.setrecursionlimit(sys.getrecursionlimit())
            return [body] * 2, None

        def probe_done(run, ctx, sid):
            hooks_live[0] = max(hooks_live[0], sum(1 for _t, lbl in run.trace if lbl.startswith("sys.")))
        sched.explore(probe_fns, 2, probe_done, max_schedules=1)

        import warnings
        filters0 = list(warnings.filters)

        def make_fns():
            # every schedule starts from the state before the exploration (a residue is reported for the schedule that leaves it, not for all later ones)
            originals[(sys, "setrecursionlimit")](limit0)
            if case.get("first_use"):
                # ... and from the extractor modules' import-time state: whatever they initialise lazily on first use (tables filled one entry at
                # a time, compiled patterns, memo dicts) is initialised again, under this schedule
                import importlib
                from vlib import obs
                for kind in sorted({st[0] for st in steps if st[0] != "route"}):
                    mod = sys.modules.get(getattr(obs.extractor(kind), "__module__", ""))
                    if mod is not None:
                        importlib.reload(mod)
            if list(warnings.filters) != filters0:
                warnings.filters[:] = filters0
                getattr(warnings, "_filters_mutated", lambda: None)()
            got = [None] * k

            def body(idx):
                got[idx] = _extract_digest(*inputs[idx])
            return [body] * k, got

        def on_schedule(run, got, sid):
            current["run"] = None
            labels = sorted({lbl for _t, lbl in run.trace if lbl not in ("start", "acquire")})
            seen_labels.update(labels)
            feat = "+".join(l.split(".")[-1] for l in labels) or "no-setter-called"
            if case.get("first_use"):
                feat = "+".join(sorted({st[0] for st in steps})) + "-at-" + feat
            trace = " ".join(f"T{t}:{lbl.split('.')[-1]}" for t, lbl in run.trace if lbl != "start")
            if run.errors:
                bad.append({"sym": "thread-raised", "feature": feat, "detail": run.errors[0], "trace": trace})
            for i in range(k):
                if got[i] != solo[i]:
                    bad.append({"sym": "result-differs-from-extraction-alone", "feature": feat, "trace": trace,
                                "detail": f"{_short(steps[i])}: {got[i]} in this schedule vs {solo[i]} alone"})
            after = snapshot()
            for k2 in ("interpreter:limits", "mimetypes:tables", "codecs:lookup", "archive_config", "warnings:filters"):
                if before.get(k2) != after.get(k2):
                    bad.append({"sym": f"global-state-left-changed:{k2.split(':')[0]}", "feature": feat, "trace": trace,
                                "detail": f"{k2}: {before.get(k2)} -> {after.get(k2)} after all {k} threads have finished"})
        try:
            stats = sched.explore(make_fns, k, on_schedule, max_schedules=case.get("max_schedules"), preemption_bound=case.get("preemption_bound"),
                                  rng=random.Random(case.get("seed", 0)), random_schedules=case.get("random_schedules", 0))
        except sched.Deadlock as e:
            stats = {"schedules": 0, "complete": False, "max_depth": 0, "blocked_seen": 0, "with_preemption": 0, "distinct_traces": 0}
            bad.append({"sym": "deadlock", "feature": "", "detail": str(e)[:300], "trace": str(e)[-300:]})
    finally:
        sched.Run = orig_run
        current["run"] = None
        for (mod, name), f in originals.items():
            setattr(mod, name, f)
        sys.setrecursionlimit(limit0)
    first = {}
    for b in bad:
        key = (b["sym"], b["feature"])
        first.setdefault(key, b)
        first[key]["count"] = first[key].get("count", 0) + 1
    return {"part": "sched-globals", "threads": k, "stats": stats, "problems": list(first.values()), "setters_called": sorted(seen_labels), "hooks_live": hooks_live[0],
            "solo": solo, "first_use": bool(case.get("first_use"))}


# ------------------------------------------------------------------------------------------ part 1c: the AES round-key memo under the controlled scheduler
def part_sched_cache(case):
    """k threads asking the module-level LRU memo of AES round keys (at capacity) for keys: a hit on the oldest entry, misses that evict.  Every
    operation on the shared OrderedDict is a scheduling point; all interleavings.  Each thread must get the round keys of *its* key, nobody raises,
    the memo stays within its capacity."""
    from collections import OrderedDict
    from sharepoint2text.parsing.extractors.pdf import _pypdf_aes_fallback as A
    from vlib.mon import sched
    import random
    k = case["threads"]
    current = {"run": None}
    cap = A._ROUND_KEY_CACHE_MAX

    def pt(label):
        r = current["run"]
        if r is not None:
            r.point(label)

    class Hooked(OrderedDict):
        def get(self, key, default=None):
            pt("get")
            return OrderedDict.get(self, key, default)

        def move_to_end(self, key, last=True):
            pt("move_to_end")
            return OrderedDict.move_to_end(self, key, last)

        def __setitem__(self, key, value):
            pt("set")
            return OrderedDict.__setitem__(self, key, value)

        def popitem(self, last=True):
            pt("popitem")
            return OrderedDict.popitem(self, last)

        def __len__(self):
            pt("len")
            return OrderedDict.__len__(self)

        def __contains__(self, key):
            pt("contains")
            return OrderedDict.__contains__(self, key)

        def __getitem__(self, key):
            pt("getitem")
            return OrderedDict.__getitem__(self, key)
    resident = [bytes([0x10 + i]) * 16 for i in range(cap)]
    fresh = [bytes([0x80 + i]) * (16, 32, 24)[i % 3] for i in range(k)]
    # thread 0 asks for the oldest resident key (a hit whose entry is the next to be evicted), the others for keys that are not in the memo
    wanted = [resident[0]] + fresh[: k - 1] if case.get("shape", "hit+miss") == "hit+miss" else [resident[0], resident[1]] + fresh[: k - 2]
    expect = [A._expand_key(w) for w in wanted]
    real_cache = A._ROUND_KEY_CACHE
    real_locks = {n: v for n, v in vars(A).items() if isinstance(v, (type(threading.Lock()), type(threading.RLock())))}
    sched_locks = {n: _SchedLock(current, isinstance(v, type(threading.RLock()))) for n, v in real_locks.items()}
    for n, l in sched_locks.items():
        setattr(A, n, l)
    bad = []
    orig_run = sched.Run
    sched.Run = _lock_aware_run(sched, current, float(case.get("stall_s", 5.0)))
    try:
        def make_fns():
            c = Hooked()
            for r_ in resident:
                OrderedDict.__setitem__(c, r_, A._expand_key(r_))
            A._ROUND_KEY_CACHE = c
            for l in sched_locks.values():
                l.owner, l.depth = None, 0
            got = [None] * k

            def body(idx):
                got[idx] = A._get_round_keys(wanted[idx])
            return [body] * k, (got, c)

        def on_schedule(run, ctx, sid):
            current["run"] = None
            got, c = ctx
            trace = " ".join(f"T{t}:{lbl}" for t, lbl in run.trace if lbl != "start")
            if run.errors:
                bad.append({"sym": "thread-raised", "detail": run.errors[0][:200], "trace": trace})
            for i in range(k):
                if got[i] is not None and got[i] != expect[i]:
                    bad.append({"sym": "wrong-round-keys-returned", "detail": f"thread {i} got the round keys of another key", "trace": trace})
            if OrderedDict.__len__(c) > cap:
                bad.append({"sym": "memo-exceeds-capacity", "detail": f"{OrderedDict.__len__(c)} entries, capacity {cap}", "trace": trace})
        try:
            stats = sched.explore(make_fns, k, on_schedule, max_schedules=case.get("max_schedules"), preemption_bound=case.get("preemption_bound"),
                                  rng=random.Random(case.get("seed", 0)), random_schedules=case.get("random_schedules", 0))
        except sched.Deadlock as e:
            stats = {"schedules": 0, "complete": False, "max_depth": 0, "blocked_seen": 0, "with_preemption": 0, "distinct_traces": 0}
            bad.append({"sym": "deadlock", "detail": str(e)[:300], "trace": str(e)[-300:]})
    finally:
        sched.Run = orig_run
        current["run"] = None
        A._ROUND_KEY_CACHE = real_cache
        for n, real in real_locks.items():
            setattr(A, n, real)
    first = {}
    for b in bad:
        first.setdefault(b["sym"], b)
        first[b["sym"]]["count"] = first[b["sym"]].get("count", 0) + 1
    return {"part": "sched-cache", "threads": k, "stats": stats, "problems": list(first.values()), "locks": sorted(real_locks)}


class _SchedLock:
    """Stand-in for a threading.Lock / RLock of the library while schedules are explored: acquisition is a scheduling point and a
    thread that cannot get the lock is parked as *not enabled* until the owner releases it."""

    def __init__(self, current, reentrant):
        self.current = current
        self.reentrant = reentrant
        self._real = threading.RLock() if reentrant else threading.Lock()
        self.owner = None
        self.depth = 0

    def _who(self):
        run = self.current["run"]
        if run is None:
            return None, None
        return run, getattr(run.local, "idx", None)

    def acquire(self, blocking=True, timeout=-1):
        run, idx = self._who()
        if idx is None:
            return self._real.acquire(blocking, timeout)
        return run.acquire_lock(self, idx, blocking and timeout < 0)

    def release(self):
        run, idx = self._who()
        if idx is None:
            return self._real.release()
        if self.owner != idx:
            raise RuntimeError("release unlocked lock")
        self.depth -= 1
        if self.depth == 0:
            self.owner = None

    def locked(self):
        return self.owner is not None or (not self.reentrant and self._real.locked())

    def __enter__(self):
        self.acquire()
        return True

    def __exit__(self, *a):
        self.release()


def _lock_aware_run(sched, current, stall_s):
    import time

    class LockAwareRun(sched.Run):
        def __init__(self, n_threads, chooser, _stall_s=None):
            super().__init__(n_threads, chooser, stall_s)
            self.want = {}                     # thread idx -> lock it is parked on

        def acquire_lock(self, lock, idx, blocking):
            self.point("acquire")
            while True:
                if lock.owner is None or (lock.reentrant and lock.owner == idx):
                    lock.owner = idx
                    lock.depth += 1
                    return True
                if not blocking:
                    return False
                with self.cv:
                    self.want[idx] = lock
                    self.waiting[idx] = "lock-wait"
                    if self.token == idx:
                        self.token = None
                    self.cv.notify_all()
                    while self.token != idx:
                        self.cv.wait()
                    del self.waiting[idx]
                    self.want.pop(idx, None)
                    self.running_since = time.monotonic()

        def _enabled(self):
            return sorted(i for i in set(self.waiting) - self.finished
                          if not (i in self.want and self.want[i].owner is not None and self.want[i].owner != i))

        def execute(self, fns):
            current["run"] = self
            try:
                return self._execute(fns)
            finally:
                current["run"] = None

        def _execute(self, fns):
            threads = [threading.Thread(target=self._thread_main, args=(i, fns[i]), daemon=True) for i in range(self.n)]
            for t in threads:
                t.start()
            # every thread is parked at its "start" point before the first decision is taken: otherwise the set of enabled
            # threads at step 0 depends on how fast the OS started them, and the enumeration is neither reproducible nor complete
            with self.cv:
                t_end = time.monotonic() + 120
                while len(set(self.waiting) | self.finished) < self.n:
                    if not self.cv.wait(timeout=1.0) and time.monotonic() > t_end:
                        raise sched.Deadlock(f"only {sorted(self.waiting)} of {self.n} threads reached their start point")
            step = 0
            last = None
            blocked = set()
            while True:
                with self.cv:
                    while True:
                        if self.token is None:
                            break
                        if time.monotonic() - self.running_since > self.stall_s and self.token not in self.waiting and self.token not in self.finished:
                            blocked.add(self.token)        # blocked on something that is neither a point nor a known lock
                            self.blocked_seen += 1
                            self.token = None
                            break
                        self.cv.wait(timeout=0.25)
                    blocked -= set(self.waiting) | self.finished
                    if len(self.finished) == self.n:
                        break
                    enabled = self._enabled()
                    if not enabled:
                        parked = set(self.waiting) - self.finished
                        if parked and not blocked and len(parked) + len(self.finished) == self.n:
                            # every live thread waits for a lock whose owner is parked or gone: a real deadlock / leaked lock
                            raise sched.Deadlock(f"threads {sorted(parked)} wait for locks nobody will release; trace={self.trace[-40:]}")
                        if blocked:
                            moved = self.cv.wait(timeout=2 * self.stall_s)
                            if not moved and not self._enabled() and len(self.finished) < self.n:
                                raise sched.Deadlock(f"threads {sorted(blocked)} blocked outside any scheduling point; trace={self.trace[-40:]}")
                            continue
                        self.cv.wait(timeout=0.5)
                        continue
                    chosen = self.chooser(step, enabled, last)
                    self.decisions.append((enabled.index(chosen), len(enabled), enabled))
                    step += 1
                    last = chosen
                    self.token = chosen
                    self.running_since = time.monotonic()
                    self.cv.notify_all()
            for t in threads:
                t.join(timeout=30)
            return self

    return LockAwareRun


# ------------------------------------------------------------------------------------------ part 2: preemptive stress
def part_stress(case):
    import random
    rng = random.Random(case["seed"])
    steps = [_step([k, {"src": s, "op": None}] + list(rest)) for k, s, *rest in case["inputs"]]
    inputs = [_step_io(st) for st in steps]
    expect = list(case.get("expect") or [None] * len(inputs))
    unstable = 0
    other_bytes = {i for i, sha in enumerate(case.get("expect_sha") or []) if expect[i] is not None and sha != hashlib.sha1(inputs[i][1]).hexdigest()[:16]}
    base = {}
    problems = []
    # sequential warm-up: one extraction per input in this process (a history of its own); where the parent knows the
    # isolated (fresh-process) digest of an input, that one is the reference for everything below
    for i, (kind, data, path) in enumerate(inputs):
        d = _extract_digest(kind, data, path)
        if i in other_bytes and d != expect[i]:
            # the generator produced other bytes than for the baseline process (writer not deterministic beyond a container timestamp, or
            # edited during the run) and the result differs: no isolated reference for this input
            expect[i] = None
            unstable += 1
        if expect[i] is not None and d != expect[i]:
            problems.append({"sym": "result-differs-from-isolated-baseline", "feature": _feature(steps[i]), "part": "history",
                             "detail": f"{_short(steps[i])}: {d} sequentially before the threads start vs {expect[i]} in a fresh process"})
        base[i] = expect[i] if expect[i] is not None else d
    before = snapshot()
    lock = threading.Lock()
    old = sys.getswitchinterval()
    # control twin of the "memo at capacity" feature: the same documents with a memo that never has to evict
    from sharepoint2text.parsing.extractors.pdf import _pypdf_aes_fallback as _A
    cache_max = _A._ROUND_KEY_CACHE_MAX
    if case.get("no_memo_eviction"):
        _A._ROUND_KEY_CACHE_MAX = 1 << 30
    sys.setswitchinterval(1e-6)
    runs = [0]

    thread_errors = []

    def body(tid):
        try:
            _body(tid)
        except BaseException as e:   # a dying harness thread must not read as "nothing happened"
            thread_errors.append(f"{type(e).__name__}: {e}")

    def _body(tid):
        r = random.Random(f"{case['seed']}:{tid}")
        for _ in range(case["iterations"]):
            i = r.randrange(len(inputs))
            kind, data, path = inputs[i]
            d = _extract_digest(kind, data, path)
            with lock:
                runs[0] += 1
                if d != base[i]:
                    problems.append({"sym": "result-differs-under-concurrency", "feature": _feature(steps[i]), "detail": f"{_short(steps[i])}: {d} vs baseline {base[i]}"})
    ts = [threading.Thread(target=body, args=(t,)) for t in range(case["threads"])]
    try:
        for t in ts:
            t.start()
        for t in ts:
            t.join()
    finally:
        sys.setswitchinterval(old)
        _A._ROUND_KEY_CACHE_MAX = cache_max
        if case.get("no_memo_eviction"):
            _A._ROUND_KEY_CACHE.clear()
    gc.collect()
    after = snapshot()
    for k2 in before:
        if before[k2] != after[k2] and k2 not in ("open_fds",):
            problems.append({"sym": f"global-state-changed:{k2.split(':')[0]}", "detail": f"{k2}: {before[k2]} -> {after[k2]}"})
    if after["open_fds"] > before["open_fds"] + 2:
        problems.append({"sym": "global-state-changed:open_fds", "detail": f"{before['open_fds']} -> {after['open_fds']}"})
    # after the storm, results must again equal the baseline
    for i, (kind, data, path) in enumerate(inputs):
        d = _extract_digest(kind, data, path)
        if d != base[i]:
            problems.append({"sym": "result-differs-after-concurrent-history", "feature": _feature(steps[i]), "detail": f"{_short(steps[i])}: {d} vs baseline {base[i]}"})
    first = {}
    for p in problems:
        first.setdefault((p["sym"], p.get("feature")), p)
    if thread_errors:
        return {"_harness_error": "stress thread failed: " + thread_errors[0]}
    return {"part": "stress", "extractions": runs[0], "problems": list(first.values()), "isolated_references": sum(1 for e in expect if e is not None), "unstable_inputs": unstable}


def _feature(step) -> str:
    """Mechanism-level name of what a step is: '' for the generic pool ('sequence' / 'mixed-workload'), family + varied context for a context-group member."""
    src = step[1]["src"]
    if len(step) > 2 and isinstance(step[2], dict):
        opts = "+".join(k for k in sorted(step[2]) if k not in ("entry", "pidx", "name", "dir"))
        return f"{step[2]['entry']}-{step[0]}" + (f"-with-{opts}" if opts else "")
    if iso.is_iso(src):
        return iso.feature(src, step[0]) + ("" if not step[1].get("op") else "-damaged")
    if src[0] == "raw" and len(src) > 2:
        return str(src[2])
    return ""


# ------------------------------------------------------------------------------------------ part 2b: first use under overlapping threads (fresh process, no warm-up)
def part_cold(case):
    """The very first thing this (fresh) process does: n threads released together, each extracting one document.  Whatever the library initialises
    lazily on first use (module-level tables, caches, lazily imported modules, one-way patches) is initialised under overlap.  Every result must
    equal the document's isolated baseline (a fresh process extracting it alone), given by the parent."""
    from vlib import obs
    steps = [_step(st) for st in case["steps"]]
    inputs = [_step_io(st) for st in steps]
    expect = case["expect"]
    n = len(inputs)
    if not case.get("cold_import"):
        for kind in sorted({inp[0] for inp in inputs if inp[0] != "route"}):
            obs.extractor(kind)     # importing the extractor modules one after the other; cases with "cold_import" leave even that to the threads
    bar = threading.Barrier(n)
    got = [None] * n
    errs = []

    def body(i):
        try:
            bar.wait()
            got[i] = _extract_digest(*inputs[i])
        except BaseException as e:
            errs.append(f"{type(e).__name__}: {e}")
    old = sys.getswitchinterval()
    sys.setswitchinterval(1e-6)
    ts = [threading.Thread(target=body, args=(i,)) for i in range(n)]
    try:
        for t in ts:
            t.start()
        for t in ts:
            t.join(300)
    finally:
        sys.setswitchinterval(old)
    if errs:
        return {"_harness_error": "cold thread failed: " + errs[0]}
    problems = []
    for i in range(n):
        if expect[i] is not None and got[i] != expect[i]:
            problems.append({"sym": "result-differs-on-overlapping-first-use", "feature": _feature(steps[i]), "detail": f"{_short(steps[i])}: {got[i]} as one of {n} first extractions of a process vs {expect[i]} alone"})
    # afterwards, alone, everything must be as in isolation (a half-initialised table must not stay half-initialised)
    for i in range(n):
        d = _extract_digest(*inputs[i])
        if expect[i] is not None and d != expect[i]:
            problems.append({"sym": "result-differs-after-overlapping-first-use", "feature": _feature(steps[i]), "detail": f"{_short(steps[i])}: {d} afterwards vs {expect[i]} in isolation"})
    first = {}
    for p in problems:
        first.setdefault((p["sym"], p["feature"]), p)
    return {"part": "cold", "threads": n, "compared": sum(1 for e in expect if e is not None), "problems": list(first.values())}


# ------------------------------------------------------------------------------------------ part 2c: interleaved lazy generators in one thread
GEN_MODES = ["suspended-then-other", "zip-lockstep", "abandoned-then-other", "closed-early-then-other", "nested-same-document"]


def part_generators(case):
    """Every extractor is a generator function.  One thread keeps a generator of document A suspended (after its first result, or before it), runs
    another extraction meanwhile, walks two generators in lock-step, abandons or closes one early - and every completed extraction must give
    what the document gives alone.  Runs in a helper thread with a time limit: a consumer must never block on its own suspended generator."""
    from vlib import obs
    steps = [_step(st) for st in case["steps"]]
    inputs = [_step_io(st) for st in steps]
    expect = case.get("expect") or [None] * len(inputs)

    def gen(i):
        kind, data, path = inputs[i]
        if isinstance(path, dict):
            return iter(_via_read_file(data, path))
        return obs.extractor(kind)(io.BytesIO(data), path)

    def digest_of(results):
        return _digest(results)

    def full(i):
        try:
            return digest_of(list(gen(i)))
        except Exception as e:
            return f"raises {type(e).__name__}"
    solo = [full(i) for i in range(len(inputs))]
    ref = [expect[i] if expect[i] is not None else solo[i] for i in range(len(inputs))]
    problems = []
    start = snapshot()

    def check(mode, i, d):
        if d != ref[i]:
            problems.append({"sym": "result-differs-with-a-suspended-generator", "feature": mode + ":" + (_feature(steps[i]) or steps[i][0]), "detail": f"[{mode}] {_short(steps[i])}: {d} vs {ref[i]} alone"})

    def run_mode(mode, a, b):
        if mode == "suspended-then-other":
            ga = gen(a)
            first = []
            try:
                first.append(next(ga))
            except StopIteration:
                pass
            except Exception:
                first = None
            check(mode, b, full(b))
            if first is not None:
                try:
                    check(mode, a, digest_of(first + list(ga)))
                except Exception as e:
                    check(mode, a, f"raises {type(e).__name__}")
        elif mode == "zip-lockstep":
            gens = {"a": [gen(a), [], None], "b": [gen(b), [], None]}
            while True:
                adv = False
                for slot in gens.values():
                    if slot[2] is not None:
                        continue
                    try:
                        slot[1].append(next(slot[0]))
                        adv = True
                    except StopIteration:
                        slot[2] = "done"
                    except Exception as e:
                        slot[2] = f"raises {type(e).__name__}"
                if not adv:
                    break
            for i_, key in ((a, "a"), (b, "b")):
                check(mode, i_, digest_of(gens[key][1]) if gens[key][2] == "done" else gens[key][2])
        elif mode == "abandoned-then-other":
            ga = gen(a)
            try:
                next(ga)
            except (StopIteration, Exception):
                pass
            check(mode, b, full(b))
            del ga
            gc.collect()
            check(mode, a, full(a))
        elif mode == "closed-early-then-other":
            ga = gen(a)
            try:
                next(ga)
            except (StopIteration, Exception):
                pass
            ga.close()
            check(mode, b, full(b))
            check(mode, a, full(a))
        elif mode == "nested-same-document":
            ga = gen(a)
            try:
                next(ga)
            except (StopIteration, Exception):
                pass
            check(mode, a, full(a))
            try:
                list(ga)
            except Exception:
                pass
    done = []

    def worker():
        for mode in case.get("modes", GEN_MODES):
            for a, b in case["pairs"]:
                run_mode(mode, a, b)
                done.append((mode, a, b))
    t = threading.Thread(target=worker, daemon=True)
    t.start()
    t.join(case.get("time_limit", 120))
    blocked = t.is_alive()
    if blocked:
        nxt = len(done)
        seq = [(m, a, b) for m in case.get("modes", GEN_MODES) for a, b in case["pairs"]]
        m, a, b = seq[min(nxt, len(seq) - 1)]
        problems.append({"sym": "extraction-blocks-while-a-generator-is-suspended", "feature": m + ":" + (_feature(steps[b]) or steps[b][0]),
                         "detail": f"[{m}] still blocked after {case.get('time_limit', 120)} s: {_short(steps[a])} suspended, {_short(steps[b])} started in the same thread"})
    else:
        gc.collect()
        now = snapshot()
        for k2 in start:
            if k2 == "open_fds":
                if now[k2] > start[k2] + 2:
                    problems.append({"sym": "global-state-changed:open_fds", "feature": "", "detail": f"after all generators were finished / closed / collected: {start[k2]} -> {now[k2]}"})
            elif k2 != "threads" and now[k2] != start[k2]:
                problems.append({"sym": f"global-state-changed:{k2.split(':')[0]}", "feature": "", "detail": f"after all generators were finished / closed / collected: {k2}: {start[k2]} -> {now[k2]}"})
    first = {}
    for p in problems:
        first.setdefault((p["sym"], p["feature"]), p)
    return {"part": "generators", "interleavings": len(done), "blocked": blocked, "problems": list(first.values())}


# ------------------------------------------------------------------------------------------ part 3: histories
def part_history(case):
    problems = []
    start = snapshot()
    steps = 0
    digests = {}
    shas = {}
    for step, st in enumerate(case["steps"]):
        kind, recipe, pidx = _step(st)
        kind, data, path = _step_io(st)
        d = _extract_digest(kind, data, path)
        digests.setdefault(_step_key(st), []).append(d)
        shas[_step_key(st)] = hashlib.sha1(data).hexdigest()[:16]
        steps += 1
        gc.collect()
        now = snapshot()
        for k2 in start:
            if k2 == "open_fds":
                if now[k2] > start[k2] + 2:
                    problems.append({"sym": "global-state-changed:open_fds", "detail": f"after step {step} ({kind}): {start[k2]} -> {now[k2]}"})
            elif now[k2] != start[k2]:
                problems.append({"sym": f"global-state-changed:{k2.split(':')[0]}", "feature": _feature(_step(st)) if isinstance(pidx, dict) else "",
                                 "detail": f"after step {step} ({_short(st)}): {k2}: {start[k2]} -> {now[k2]}"})
                start[k2] = now[k2]          # reported once, for the step that did it
    first = {}
    for p in problems:
        first.setdefault((p["sym"], p.get("feature")), p)
    return {"part": "history", "steps": steps, "digests": digests, "shas": shas, "problems": list(first.values())}


def part_baseline(case):
    kind, data, path = _step_io(case["step"])
    out = {"part": "baseline", "digest": _extract_digest(kind, data, path), "sha": hashlib.sha1(data).hexdigest()[:16]}
    src = case["step"][1]["src"]
    if iso.is_iso(src) and src[1] != "drop" and kind != "route" and not case["step"][1].get("op") and not isinstance(path, dict):
        # generator self-check: the isolated result shows what the writer says it wrote (its own tokens, decoded escapes)
        from vlib import obs
        t = iso.truth(src)
        try:
            js = json.dumps([r.to_json() for r in obs.extractor(kind)(io.BytesIO(data), path)], ensure_ascii=False, default=repr)
            out["truth_ok"] = all(x in js for x in t.get("has", [])) and ("decoded" not in t or t["decoded"] in js)
        except Exception:
            out["truth_ok"] = False
    return out


def work(case):
    from vlib.worker import arm_cpu
    arm_cpu(300)
    return {"scheduler": part_scheduler, "stress": part_stress, "history": part_history, "baseline": part_baseline, "sched-globals": part_sched_globals, "sched-cache": part_sched_cache, "cold": part_cold, "generators": part_generators}[case["part"]](case)


# ------------------------------------------------------------------------------------------ parent
def _encrypted_pdfs(run):
    from vlib import core
    from vlib.gen import pdfenc, pdfw
    feats = [None] + sorted(pdfw.PDF_FEATURES)[:2]
    members = []
    specs = [("AES-128", run.seed * 10 + i, feats[i % len(feats)]) for i in range(run.n(4, 6))]
    specs += [("AES-256", run.seed * 10 + 7, None)] * (0 if run.quick else 1)      # one: its key derivation alone costs seconds in pure Python
    for alg, seed, feat in specs:
        plain, _ = pdfw.build_pdf(seed, feat)
        members.append(("pdf", ["raw", core.b64(pdfenc.encrypt_pdf(plain, alg, "")), "pdf-aes-encrypted"] + (["aes256"] if alg == "AES-256" else [])))
    plain, _ = pdfw.build_pdf(run.seed * 10, None)
    members.append(("pdf", ["raw", core.b64(pdfenc.encrypt_pdf(plain, "RC4-128", "")), "pdf-rc4-encrypted"]))
    members.append(("pdf", ["raw", core.b64(plain), "pdf-unencrypted-twin"]))
    return members


def main(run):
    run.rule = ("scheduler part: case = one complete schedule of k threads through the real patch/extract/restore section (scheduling points = accesses to the patched module attribute), distinct = distinct "
                "thread-order traces; stress part: case = one extraction under 8-thread preemption (mixed workload, and context groups: documents that share a sub-key and differ in the context that decides its meaning); "
                "history part: case = one step (bytes, path argument) of an extraction sequence — random over the pool, or a shuffled walk over one context group — compared with the same step in a fresh process. "
                "non-trivial = the end-state / digest oracle was evaluated")
    run.assumptions = ["schedules are explored at the granularity of accesses to the patched attribute (the only conflicting operations of the patch/restore race)",
                       "memo tables may grow; the patched function identity, archive configuration, private TMPDIR, thread count and open handles must be restored",
                       "the one-way AES provider patch is documented behaviour and not part of the snapshot",
                       "waiting for one of the extractor module's own locks is a logical scheduler state (thread not enabled until release), not a wall-clock guess; "
                       "the wall-clock stall rule only serves blocking the harness does not know about (counter schedules_where_a_thread_stalled_outside_points_and_locks)"]
    rng = run.rng
    os.environ["VERIF_C15_RF_ROOT"] = f"/tmp/verif-c15-rf-{os.getpid()}"      # inherited by every worker of this run
    sources = corpus.all_sources(n_gen=3, base_seed=run.seed * 1000)
    pdfs = [("pdf", s) for s in sources.get("pdf", []) if s[0] == "gen" or "large_table" not in s[1]]
    others = [(k, s) for k in ("docx", "xlsx", "zip", "html", "odt", "rtf", "eml", "mbox", "msg", "mhtml") for s in sources.get(k, [])[:2]]
    # inputs whose result could depend on process-global registries (codecs, mimetypes): HTML in unusual declared charsets
    others += [("html", s) for s in sources.get("html", []) if s[0] == "htmlcs"]
    import zlib
    # scheduler work is bounded by numbers of schedules (logical steps), never by wall time, and split into several pool cases
    # so that one slow case cannot zero the counters: exhaustive for 2 threads; for 3 threads a preemption-bounded DFS per
    # bound plus independent chunks of random schedules
    cases = [{"part": "scheduler", "threads": 2, "seed": run.seed}]
    for pb, mx in ((2, run.n(350, 6000)), (3, run.n(150, 12000))):
        cases.append({"part": "scheduler", "threads": 3, "seed": run.seed, "preemption_bound": pb, "max_schedules": mx})
    for ch in range(run.n(2, 8)):
        cases.append({"part": "scheduler", "threads": 3, "seed": run.seed * 100 + ch, "max_schedules": 1, "random_schedules": run.n(100, 1000)})
    # interpreter-wide setters (recursion limit, MIME table, codec registry ...) under the controlled scheduler: pairs / triples of documents
    # that could make an extractor touch such state (deep nesting, lazily imported extractors), every interleaving of the setter calls
    deep = [["html", {"src": ["iso", "deep-html", v], "op": None}, 1] for v in ("d1500", "d3000", "d5000")] + [["mhtml", {"src": ["iso", "deep-mhtml", v], "op": None}, 1] for v in ("d1500", "d3000")]
    plainish = [["html", {"src": ["iso", "deep-html", "d300"], "op": None}, 1], ["txt", {"src": ["iso", "plain", "txt"], "op": None}, 1], ["xlsx", {"src": ["iso", "xlsx", "sstA"], "op": None}, 1],
                ["odt", {"src": ["iso", "odt", "imgA"], "op": None}, 1], ["epub", {"src": ["iso", "epub", "A"], "op": None}, 1], ["zip", {"src": ["iso", "zip-mime", "zipA"], "op": None}, 1]]
    setter_cases = [{"part": "sched-globals", "steps": [deep[0], deep[1]], "seed": run.seed}, {"part": "sched-globals", "steps": [deep[2], deep[3]], "seed": run.seed},
                    {"part": "sched-globals", "steps": [deep[1], deep[4], deep[0]], "seed": run.seed, "max_schedules": run.n(300, 3000)},
                    {"part": "sched-globals", "steps": [deep[4], plainish[1], plainish[5]], "seed": run.seed, "max_schedules": run.n(100, 1000)}]
    for i in range(run.n(2, 20)):
        setter_cases.append({"part": "sched-globals", "steps": [rng.choice(deep), rng.choice(deep + plainish)] + ([rng.choice(plainish)] if rng.random() < 0.5 else []),
                             "seed": run.seed * 100 + i, "max_schedules": run.n(100, 1000)})
    # two documents of the same format at once, for every format: a save / set / restore of interpreter-wide state inside one extractor
    # (warnings filters, locale, decimal context ...) only shows when two of its sections overlap
    for fam, spec in sorted(iso.FAMILIES.items()):
        if spec[0] == "route" or len(spec[3]) < 2 or fam.startswith(("deep-", "unb-")) or fam in iso.HEAVY_FAMILIES:
            continue
        v = spec[3]
        setter_cases.append({"part": "sched-globals", "steps": [[spec[0], {"src": ["iso", fam, v[0]], "op": None}, 1], [spec[0], {"src": ["iso", fam, v[1]], "op": None}, 0]],
                             "seed": run.seed, "max_schedules": run.n(200, 2000)})
    # first use of an extractor's lazily initialised state, explored: per format the two largest context-group documents (then the next two) in two
    # threads, the extractor module reloaded before every schedule; scheduling points are the same hooks plus re.compile
    sized = {}
    for fam, spec in sorted(iso.FAMILIES.items()):
        if spec[0] == "route" or fam.startswith("deep-") or fam in ("pdf-font", "pdf-cs") or fam in iso.HEAVY_FAMILIES:
            continue
        for v in spec[3]:
            src_ = ["iso", fam, v]
            sized.setdefault(spec[0], []).append((len(iso.load(src_)), [spec[0], {"src": src_, "op": None}, 1]))
    for kind_, lst in sorted(sized.items()):
        lst.sort(key=lambda x: -x[0])
        for j in range(0, min(len(lst) - 1, run.n(4, 8)), 2):
            setter_cases.append({"part": "sched-globals", "first_use": True, "steps": [lst[j][1], lst[j + 1][1]], "seed": run.seed, "max_schedules": run.n(150, 1500)})
    cases += setter_cases
    # the AES round-key memo at capacity: a hit on the entry that is next to be evicted against misses that evict (all interleavings for 2 threads)
    cases += [{"part": "sched-cache", "threads": 2, "seed": run.seed}, {"part": "sched-cache", "threads": 3, "seed": run.seed, "preemption_bound": 2, "max_schedules": run.n(400, 6000)},
              {"part": "sched-cache", "threads": 3, "shape": "two-hits+miss", "seed": run.seed, "max_schedules": 1, "random_schedules": run.n(200, 3000)}]
    stress_cases = []
    for i in range(run.n(6, 60)):
        ins = rng.sample(pdfs, min(len(pdfs), 5)) + rng.sample(others, min(len(others), 3))
        stress_cases.append({"part": "stress", "seed": run.seed * 1000 + i, "threads": 8, "iterations": run.n(6, 12), "inputs": [list(x) for x in ins]})

    # ---- context groups: members share a sub-key and differ in the context that decides its meaning (+ optional parts absent / dangling)
    def pidx_of(src):
        """A document is seen under two paths: none at all, and one fixed path of its own (quick tier: one of the two per seed,
        so that the number of isolated baselines = fresh processes stays small)."""
        own = 1 + zlib.crc32(json.dumps(src).encode()) % (len(iso.PATHS) - 1)
        if run.quick:
            return (0, own)[zlib.crc32(f"{run.seed}:{json.dumps(src)}".encode()) % 2]
        return rng.choice((0, own))
    groups = iso.groups()
    dropped = iso.dropped_sources(sources, per_kind=run.n(1, 3))
    # corpus documents with optional package parts removed, as one more group per kind (same package, part present / absent)
    by_kind = {}
    for k, s in dropped:
        by_kind.setdefault(k, []).append((k, s))
    for k, ms in sorted(by_kind.items()):
        groups.append({"name": f"{k}:optional-parts-removed/package", "members": ms + [(k, ms[0][1][2])]})
    # PDFs that open with the empty user password, encrypted here in the parent by pypdf's writer over the reference AES (vlib/gen/pdfenc.py):
    # the same cipher kernel, another document key / IV / content per member (plus the unencrypted and the RC4 form of one of them)
    groups.append({"name": "pdf:cipher-kernel/document-key", "members": _encrypted_pdfs(run)})
    iso_steps = [[k, {"src": s, "op": None}, p] for g in groups for k, s in g["members"]
                 for p in ((pidx_of(s),) if run.quick else (0, 1 + zlib.crc32(json.dumps(s).encode()) % (len(iso.PATHS) - 1)))]
    for gi, g in enumerate(groups):
        if run.quick and gi % 3 != run.seed % 3 and g["name"].split(":")[0] not in ("rtf", "docx", "pdf", "router", "archive", "markup", "xlsx"):
            continue        # quick tier: a third of the groups per seed under threads (all of them in the histories below)
        # (the AES-256 member takes seconds per extraction: it stays in the histories, the threads get the cheap members)
        stress_cases.append({"part": "stress", "seed": run.seed * 1000 + 500 + gi, "threads": 8, "iterations": run.n(10, 30), "group": g["name"],
                             "inputs": [[k, s, pidx_of(s)] for k, s in g["members"] if not (s[0] == "raw" and "aes256" in str(s[2:]))]})
        # (the per-object keys of the AES members outnumber the round-key memo, capacity 4: concurrent decryption evicts all the time.  The memo's
        #  lookup / LRU race was found here and is fixed upstream; part 1c explores the memo deterministically.  A case may still set
        #  "no_memo_eviction" / "feature_suffix" to run a control twin with a memo that never evicts, should that mechanism need separating again.)
    hist_cases = []
    pool_steps = [[k, {"src": s, "op": None}] for k, s in pdfs + others]
    # failing / damaged inputs of every kind in the pool (archives included: a failure half-way through unpacking must clean up too)
    for op, ms in (("truncate", 7), ("bitflip", 11), ("zero", 13), ("truncate_tail", 17), ("numbers", 19)):
        pool_steps += [[k, {"src": s, "op": op, "family": "byte", "mseed": ms}] for k, s in (pdfs[:3] + others)]
    pool_steps += [["zip", {"src": s, "op": op, "family": "byte", "mseed": ms}] for s in sources.get("zip", []) for op, ms in (("zero", 23), ("bitflip", 29), ("numbers", 31), ("truncate_tail", 37))]
    # damaged context-group members: a failure half-way must not leave its parts behind for the next document either
    damaged_iso = [[st[0], {"src": st[1]["src"], "op": op, "family": "byte", "mseed": 41}, st[2]] for st in iso_steps[::7] for op in ("truncate_tail", "bitflip")]
    for i in range(run.n(20, 300)):
        steps = [rng.choice(pool_steps) if rng.random() < 0.8 else rng.choice(iso_steps + damaged_iso) for _ in range(rng.randint(6, 20))]
        hist_cases.append({"part": "history", "steps": steps, "id": i})
    # a document that fails deep inside (unfinished formula conversion, markup nested beyond the recursion limit, damaged members that raise),
    # then good documents of the same and of other formats: whatever the failing one left half-done must not reach the later results
    def fails_deep(st):
        src_ = st[1]["src"]
        return iso.is_iso(src_) and ((src_[1] == "docx" and str(src_[2]).startswith("ommlfail")) or (src_[1] in ("deep-html", "deep-mhtml") and src_[2] != "d300"))
    failing = [st for st in iso_steps if fails_deep(st)] + damaged_iso
    formula_good = [st for st in iso_steps if iso.is_iso(st[1]["src"]) and str(st[1]["src"][2]).startswith("ommlgood")] + [["pptx", {"src": ["fx", "modern_ms/pptx_formula_image.pptx"], "op": None}, 1]]
    good = [st for st in iso_steps if not fails_deep(st) and not (iso.is_iso(st[1]["src"]) and iso.feature(st[1]["src"], st[0]) in iso.RISKY_FEATURES)]
    for i in range(run.n(8, 40)):
        steps = []
        for _ in range(rng.randint(3, 6)):
            f_ = rng.choice(failing)
            steps.append(f_)
            same = [st for st in good if st[0] == f_[0]]
            steps += [rng.choice(formula_good if f_[0] in ("docx", "pptx") else (same or good))] + [rng.choice(good) for _ in range(rng.randint(0, 2))]
        hist_cases.append({"part": "history", "steps": steps, "id": f"fail{i}", "group": "failing-document-then-good-ones/unfinished-state"})
    # encrypted PDFs (the password-protected fixture: rejected; generated ones that open with the empty user password) before an ordinary PDF of
    # more than 10 MiB that contains images: whatever opening an encrypted file switches on must be switched off again for the next document
    big = [["pdf", {"src": ["iso", "pdf-big", v], "op": None}, 1] for v in ("images", "images2")]
    enc = [["pdf", {"src": s_, "op": None}, 1] for g_ in groups if g_["name"] == "pdf:cipher-kernel/document-key" for k_, s_ in g_["members"] if "encrypted" in str(s_[2:]) and "aes256" not in str(s_[2:])]
    enc += [["pdf", {"src": s_, "op": None}, 1] for s_ in sources.get("pdf", []) if s_[0] == "fx" and "password" in s_[1]]
    for i in range(run.n(2, 8)):
        e1, e2 = rng.choice(enc), rng.choice(enc)
        steps = ([big[i % 2], e1, big[i % 2]] if i % 2 else [e1, big[i % 2], e2, big[(i + 1) % 2]]) + [rng.choice(pool_steps[:len(pdfs)])]
        hist_cases.append({"part": "history", "steps": steps, "id": f"bigpdf{i}", "group": "pdf:encrypted-then-large-plain/decryption-mode"})
    # every damaged archive of the pool at least once (a failure half-way through unpacking must clean up after itself, whatever the random
    # histories above happened to draw)
    dmg = [st for st in pool_steps if st[0] == "zip" and st[1].get("op")]
    rng.shuffle(dmg)
    for i in range(0, len(dmg), 12):
        hist_cases.append({"part": "history", "steps": dmg[i:i + 12], "id": f"dmg{i}"})
    # the same documents through the file entry point with its option flags (a per-call option must stay per call): archives and a few documents,
    # size limits below / above the file and below / above its members, and "no limit"
    rf_docs = ([("zip", ["iso", "zip-mime", "zipA"]), ("zip", ["iso", "tar-mime", "tarB"]), ("zip", ["iso", "zip", "A"]), ("zip", ["iso", "zip", "B"])]
               + [(k, s) for k, s in (sources.get("zip") and [("zip", s) for s in sources["zip"] if s[0] == "arch"][:3] or [])]
               + [("docx", ["iso", "docx", "hfA"]), ("xlsx", ["iso", "xlsx", "vals-mixed"]), ("txt", ["iso", "plain", "txt"]), ("eml", ["iso", "eml-sized", "file-long"]), ("pdf", pdfs[0][1])])
    limits = [None, 0, 1, 1000, 4096, 60000, 3_000_000, 50_000_000]
    rf_steps = []
    for k, s_ in rf_docs:
        for lim in (limits if not run.quick else [None] + rng.sample(limits[1:], 3)):
            rf_steps.append([k, {"src": s_, "op": None}, dict({"entry": "read_file", "pidx": 1 + zlib.crc32(json.dumps(s_).encode()) % (len(iso.PATHS) - 1)}, **({} if lim is None else {"max_file_size": lim}))])
    for i in range(run.n(6, 40)):
        direct = [[k, {"src": s_, "op": None}, 1] for k, s_ in rf_docs]
        steps = [rng.choice(rf_steps) if rng.random() < 0.6 else rng.choice(direct) for _ in range(rng.randint(6, 14))]
        hist_cases.append({"part": "history", "steps": steps, "id": f"rf{i}", "group": "entry-points:option-flags/process-configuration"})
    for gi, g in enumerate(groups):
        for rep in range(run.n(1, 6)):
            ms = list(g["members"])
            seq = ms + [rng.choice(ms) for _ in range(rng.randint(1, 4))]
            rng.shuffle(seq)
            steps = [[k, {"src": s, "op": None}, pidx_of(s)] for k, s in seq]
            for _ in range(rng.randint(0, 2)):
                steps.insert(rng.randrange(len(steps) + 1), rng.choice(damaged_iso + pool_steps[:len(pdfs) + len(others)]))
            hist_cases.append({"part": "history", "steps": steps, "id": f"g{gi}.{rep}", "group": g["name"]})
    # first use under overlap: per format a fresh process whose first action is up to 8 context-group documents of that format at once (they race
    # for the same lazily initialised state of that extractor); a few mixed ones
    cold_cases = []
    def risky(step):
        return iso.is_iso(step[1]["src"]) and iso.feature(step[1]["src"], step[0]) in iso.RISKY_FEATURES
    by_kind_members = {}
    for g in groups:
        for k, s_ in g["members"]:
            st = [k, {"src": s_, "op": None}, pidx_of(s_)]
            if k != "route" and not risky(st) and not (s_[0] == "raw" and "aes256" in str(s_[2:])):
                by_kind_members.setdefault(k, {})[_step_key(st)] = st
    for k, ms_ in sorted(by_kind_members.items()):
        ms = list(ms_.values())
        for rep in range(run.n(3, 10)):
            pick = rng.sample(ms, min(len(ms), 8))
            while len(pick) < 4:
                pick = pick + pick
            cold_cases.append({"part": "cold", "steps": [list(x) for x in pick], "group": k})
    for i in range(run.n(6, 40)):
        cold_cases.append({"part": "cold", "steps": [list(rng.choice([st for st in iso_steps if not risky(st)])) for _ in range(8)], "group": "mixed"})
    # ... and with nothing imported at all: 8 documents of 2-4 formats whose extractors live in one sub-package (and of any formats) are the first
    # thing the process sees; the lazy imports themselves overlap
    fam_kinds = [("doc", "xls", "ppt", "rtf"), ("docx", "xlsx", "pptx"), ("odt", "ods", "odp", "odg", "odf"), ("eml", "mbox", "msg"), ("html", "epub", "mhtml", "txt", "pdf", "zip")]
    for fk in fam_kinds:
        pool_ = [st for k in fk for st in by_kind_members.get(k, {}).values()]
        if len({st[0] for st in pool_}) < 2:
            continue
        for rep in range(run.n(4, 10)):
            pick = []
            kinds_ = sorted({st[0] for st in pool_})
            for j in range(8):
                kk = kinds_[j % len(kinds_)]
                pick.append(rng.choice([st for st in pool_ if st[0] == kk]))
            cold_cases.append({"part": "cold", "cold_import": True, "steps": [list(x) for x in pick], "group": "first-import:" + "+".join(kinds_)})
    # interleaved lazy generators in one thread: archives (several results per generator) against archives and against documents
    multi = ([["zip", {"src": ["iso", "zip", v], "op": None}, 1] for v in ("A", "B")] + [["zip", {"src": ["iso", "zip-mime", "zipB"], "op": None}, 1], ["zip", {"src": ["iso", "tar-mime", "tarB"], "op": None}, 1]]
             + [["zip", {"src": s_, "op": None}, 1] for s_ in sources.get("zip", []) if s_[0] == "arch"] + [["mbox", {"src": ["iso", "mbox-sized", "box"], "op": None}, 1]])
    single = [["docx", {"src": ["iso", "docx", "hfA"], "op": None}, 1], ["pdf", pdfs[0][1] and {"src": pdfs[0][1], "op": None}, 1], ["xlsx", {"src": ["iso", "xlsx", "vals-mixed"], "op": None}, 1],
              ["rtf", {"src": ["iso", "rtf-cp", "1251:hf"], "op": None}, 1], ["html", {"src": ["iso", "html", "cpA"], "op": None}, 1], ["epub", {"src": ["iso", "epub-multi", "navs"], "op": None}, 1],
              ["eml", {"src": ["iso", "eml-sized", "msg-long"], "op": None}, 1], ["odt", {"src": ["iso", "odt", "imgA"], "op": None}, 1]]
    gen_cases_ = []
    for i in range(run.n(4, 24)):
        steps_ = rng.sample(multi, min(len(multi), 3)) + rng.sample(single, 2)
        if rng.random() < 0.5:      # the file entry point is a generator too
            steps_.append([steps_[0][0], steps_[0][1], {"entry": "read_file", "pidx": 2}])
        idx = list(range(len(steps_)))
        pairs = [(0, 1), (1, 0), (0, 0), (0, 3), (3, 0), (2, 4)] + ([(0, len(steps_) - 1), (len(steps_) - 1, 1)] if len(steps_) > 5 else [])
        gen_cases_.append({"part": "generators", "steps": [list(x) for x in steps_], "pairs": pairs, "time_limit": 60, "modes": GEN_MODES if not run.quick or i < 2 else rng.sample(GEN_MODES, 3)})
    # isolated baselines: every (bytes, path) that occurs in a history or a stress case, each in a fresh process
    wanted = {}
    for cc in cold_cases + gen_cases_:
        for st in cc["steps"]:
            wanted.setdefault(_step_key(st), _step(st))
    for hc in hist_cases:
        for st in hc["steps"]:
            wanted.setdefault(_step_key(st), _step(st))
    for sc in stress_cases:
        for inp in sc["inputs"]:
            st = _step([inp[0], {"src": inp[1], "op": None}] + list(inp[2:]))
            wanted.setdefault(_step_key(st), st)
    base_cases = [{"part": "baseline", "step": st} for st in wanted.values()]
    baselines = {}
    base_sha = {}
    unstable_inputs = 0
    truth_ok = truth_n = 0
    sched_results = []
    # baselines in fresh workers (one input per worker process)
    for case, ob in pool.run_cases("checks.c15:work", base_cases, deadline_s=200, fresh_worker_per_case=True):
        if ob.get("part") == "baseline":
            baselines[_step_key(case["step"])] = ob["digest"]
            if "-encrypted" in _feature(case["step"]) and not case["step"][1].get("op") and isinstance(ob["digest"], list):
                run.count("encrypted_pdfs_decrypted_and_extracted_in_isolation")
            base_sha[_step_key(case["step"])] = ob.get("sha")
            if "truth_ok" in ob:
                truth_n += 1
                truth_ok += 1 if ob["truth_ok"] else 0
                if not ob["truth_ok"]:
                    run.extras.setdefault("context_documents_not_showing_their_ground_truth", []).append(case["step"][1]["src"])
        else:
            run.inconclusive_cases += 1
    for sc in stress_cases:
        sc["expect"] = [baselines.get(_step_key([inp[0], {"src": inp[1], "op": None}] + list(inp[2:]))) for inp in sc["inputs"]]
        sc["expect_sha"] = [base_sha.get(_step_key([inp[0], {"src": inp[1], "op": None}] + list(inp[2:]))) for inp in sc["inputs"]]
    for cc in cold_cases + gen_cases_:
        cc["expect"] = [baselines.get(_step_key(st)) for st in cc["steps"]]
    # fresh worker per case: nothing has been extracted, imported or initialised before the threads start / a generator left blocked dies with its process
    for case, ob in pool.run_cases("checks.c15:work", cold_cases + gen_cases_, deadline_s=900, fresh_worker_per_case=True):
        rep = {"case": {k: v for k, v in case.items() if k != "expect"}}
        if ob.get("_harness_error"):
            run.inconclusive("harness error: " + ob["_harness_error"])
            continue
        if ob.get("_timeout") or ob.get("_died") or ob.get("_cpu_exhausted") or ob.get("_oom"):
            run.inconclusive_cases += 1
            continue
        if ob["part"] == "cold":
            run.count("first_use_cases_in_fresh_processes")
            run.count("first_use_results_compared_with_isolated_baseline", ob["compared"])
            for p in ob["problems"]:
                feat_ = case["group"].replace(":", "-") if case.get("cold_import") else (p["feature"] or "mixed-workload")
                run.violation(f"C15:first-use-{ob['threads']}-threads:{feat_}:{p['sym']}", p["detail"] + f" (group {case.get('group')})", rep)
            run.case(f"cold:{case.get('group')}:{len(ob['problems'])}")
        else:
            run.count("generator_interleavings", ob["interleavings"])
            for p in ob["problems"]:
                run.violation(f"C15:interleaved-generators:{p['feature'] or 'sequence'}:{p['sym']}", p["detail"], rep)
            run.case(f"generators:{ob['interleavings']}:{ob['blocked']}:{len(ob['problems'])}")
    group_steps = 0
    # the deadline is a watchdog against a wedged worker only (every case is bounded logically and by the worker's CPU budget)
    for case, ob in pool.run_cases("checks.c15:work", cases + stress_cases + hist_cases, deadline_s=2400):
        rep = {"case": case if case["part"] != "history" else {"part": "history", "steps": case["steps"]}}
        if ob.get("_harness_error"):
            run.inconclusive("harness error: " + ob["_harness_error"])
            print(ob.get("_tb"))
            continue
        if ob.get("_timeout") or ob.get("_died") or ob.get("_cpu_exhausted") or ob.get("_oom"):
            run.inconclusive_cases += 1
            if case["part"] == "scheduler":
                run.inconclusive(f"scheduler part for {case['threads']} threads did not finish: {str(ob)[:200]}")
            continue
        part = ob["part"]
        if part == "scheduler":
            st = ob["stats"]
            sched_results.append((case["threads"], st))
            run.count(f"schedules_{case['threads']}_threads", st["schedules"])
            run.count(f"schedules_with_preemption_{case['threads']}_threads", st["with_preemption"])
            run.count(f"distinct_traces_{case['threads']}_threads", st["distinct_traces"])
            run.count(f"distinct_end_states_{case['threads']}_threads", ob["distinct_end_states"])
            run.count(f"scheduler_cases_finished_{case['threads']}_threads")
            run.count("schedules_where_a_thread_stalled_outside_points_and_locks", st["blocked_seen"])
            run.extras.setdefault(f"scheduler_{case['threads']}_threads", []).append(
                {"preemption_bound": case.get("preemption_bound"), "random": case.get("random_schedules", 0), "schedules": st["schedules"], "complete": st["complete"],
                 "max_depth": st["max_depth"], "blocked_seen": st["blocked_seen"], "targets": ob["targets"], "locks_made_logical": ob.get("locks")})
            for _ in range(st["schedules"]):
                run.evaluations += 1
            for t in range(st["distinct_traces"]):
                run.distinct.add(f"trace:{case['threads']}:{t}")
            for p in ob["problems"]:
                run.violation(f"C15:pypdf-patch:{case['threads']}-threads:{p['sym']}", f"{p['detail']} in {p.get('count', 1)} of {st['schedules']} schedules; first schedule: {p['trace']}", {"case": case, "trace": p["trace"]})
            if len(run.samples) < 5:
                run.samples.append({"part": "scheduler", "threads": case["threads"], "schedules": st["schedules"], "complete": st["complete"], "distinct_traces": st["distinct_traces"]})
        elif part == "sched-cache":
            st = ob["stats"]
            run.count(f"round_key_memo_schedules_{case['threads']}_threads", st["schedules"])
            run.count("round_key_memo_explorations_complete", 1 if st["complete"] else 0)
            run.evaluations += st["schedules"]
            run.distinct.add(f"memo:{case['threads']}:{case.get('shape')}:{st['distinct_traces'] // 50}:{len(ob['problems'])}")
            for p in ob["problems"]:
                run.violation(f"C15:aes-round-key-memo:{case['threads']}-threads:{p['sym']}", f"{p['detail']} in {p.get('count', 1)} of {st['schedules']} schedules; first schedule: {p['trace']}",
                              {"case": case, "trace": p["trace"]})
        elif part == "sched-globals":
            st = ob["stats"]
            run.count("setter_exploration_cases_finished")
            run.count("schedules_over_interpreter_wide_setters", st["schedules"])
            run.count("setter_explorations_complete", 1 if st["complete"] else 0)
            run.count("setter_hook_points_seen_in_self_test", ob["hooks_live"])
            run.extras.setdefault("interpreter_wide_setters_called_by_extractions", [])
            run.extras["interpreter_wide_setters_called_by_extractions"] = sorted(set(run.extras["interpreter_wide_setters_called_by_extractions"]) | set(ob["setters_called"]))
            run.evaluations += st["schedules"]
            run.distinct.add(f"setters:{case['threads'] if 'threads' in case else len(case['steps'])}:{','.join(ob['setters_called'])}:{len(ob['problems'])}")
            if ob.get("first_use"):
                run.count("first_use_explorations_finished")
                run.count("first_use_schedules", st["schedules"])
            for p in ob["problems"]:
                run.violation(f"C15:{'first-use-exploration' if ob.get('first_use') else 'interpreter-wide-setters'}:{p['feature'] or 'schedule'}:{p['sym']}",
                              f"{p['detail']} in {p.get('count', 1)} of {st['schedules']} schedules; first schedule: {p['trace']}", {"case": case, "trace": p["trace"]})
        elif part == "stress":
            run.count("stress_extractions", ob["extractions"])
            run.count("stress_inputs_with_isolated_reference", ob.get("isolated_references", 0))
            unstable_inputs += ob.get("unstable_inputs", 0)
            if case.get("group"):
                run.count("stress_extractions_on_context_groups", ob["extractions"])
            if case.get("group") == "pdf:cipher-kernel/document-key":
                run.count("stress_extractions_on_encrypted_pdfs", ob["extractions"])
            for p in ob["problems"]:
                feat = p.get("feature")
                if feat and "encrypted" in feat and case.get("feature_suffix"):
                    feat += case["feature_suffix"]
                if p.get("part") == "history":
                    run.violation(f"C15:history:{feat or 'sequence'}:{p['sym']}", p["detail"], rep)
                else:
                    run.violation(f"C15:stress-8-threads:{feat or 'mixed-workload'}:{p['sym']}", p["detail"], rep)
            run.case(f"stress:{case.get('group')}:{len(ob['problems'])}", sample={"part": "stress", "extractions": ob["extractions"], "problems": [p["sym"] for p in ob["problems"]]} if len(run.samples) < 4 else None)
        elif part == "history":
            run.count("history_steps", ob["steps"])
            if case.get("group"):
                group_steps += ob["steps"]
            for p in ob["problems"]:
                run.violation(f"C15:history:{p.get('feature') or 'sequence'}:{p['sym']}", p["detail"], rep)
            for key, ds in ob["digests"].items():
                b = baselines.get(key)
                if b is not None and ob.get("shas", {}).get(key) != base_sha.get(key) and any(d != b for d in ds):
                    # not the bytes the baseline process extracted (writer edited during the run / not deterministic) and another result:
                    # cannot be attributed to the library.  (Bytes that differ only in a container timestamp give equal results.)
                    unstable_inputs += 1
                    continue
                for d in ds:
                    if b is not None:
                        run.count("history_results_compared_with_isolated_baseline")
                    if b is not None and d != b:
                        feat = _feature(json.loads(key))
                        run.violation(f"C15:history:{feat or 'sequence'}:result-differs-from-isolated-baseline",
                                      f"{_short(json.loads(key))}: {d} in a history{' of context group ' + case['group'] if case.get('group') else ''} vs {b} in a fresh process", rep)
            run.case(f"history:{case.get('group')}:{ob['steps']}:{len(ob['problems'])}", sample={"part": "history", "steps": ob["steps"]} if len(run.samples) < 5 else None)
    if unstable_inputs:
        run.inconclusive(f"{unstable_inputs} inputs were not bit-identical between their isolated baseline process and the history / stress process "
                         "(a generator that is not deterministic, or one edited while the check was running)")
    import shutil
    shutil.rmtree(_rf_root(), ignore_errors=True)
    run.count("context_groups", len(groups))
    run.count("context_group_history_steps", group_steps)
    run.count("context_documents_showing_their_ground_truth_in_isolation", truth_ok)
    run.extras["context_groups"] = [g["name"] for g in groups]
    two = [st for k, st in sched_results if k == 2]
    run.require("two_thread_exploration_complete", 1 if two and two[0]["complete"] else 0, 1)
    run.require("scheduler_cases_finished_3_threads", run.counters.get("scheduler_cases_finished_3_threads", 0), 2)
    run.require("schedules_2_threads", run.counters.get("schedules_2_threads", 0), 50)
    run.require("schedules_with_preemption_2_threads", run.counters.get("schedules_with_preemption_2_threads", 0), 1)
    run.require("schedules_3_threads", run.counters.get("schedules_3_threads", 0), run.n(300, 10000))
    run.require("stress_extractions", run.counters.get("stress_extractions", 0), run.n(200, 3000))
    run.require("history_steps", run.counters.get("history_steps", 0), run.n(150, 3000))
    run.require("baselines", len(baselines), 10)
    run.require("history_results_compared_with_isolated_baseline", run.counters.get("history_results_compared_with_isolated_baseline", 0), run.n(300, 3000))
    run.require("context_groups", len(groups), 39)
    run.require("round_key_memo_schedules_2_threads", run.counters.get("round_key_memo_schedules_2_threads", 0), 20)
    run.require("round_key_memo_schedules_3_threads", run.counters.get("round_key_memo_schedules_3_threads", 0), 300)
    run.require("first_use_cases_in_fresh_processes", run.counters.get("first_use_cases_in_fresh_processes", 0), run.n(40, 150))
    run.require("generator_interleavings", run.counters.get("generator_interleavings", 0), run.n(60, 500))
    run.require("setter_exploration_cases_finished", run.counters.get("setter_exploration_cases_finished", 0), run.n(25, 40))
    run.require("first_use_explorations_finished", run.counters.get("first_use_explorations_finished", 0), run.n(15, 30))
    run.require("setter_hook_points_seen_in_self_test", run.counters.get("setter_hook_points_seen_in_self_test", 0), 4)
    run.require("stress_extractions_on_encrypted_pdfs", run.counters.get("stress_extractions_on_encrypted_pdfs", 0), run.n(60, 200))
    run.require("encrypted_pdfs_decrypted_and_extracted_in_isolation", run.counters.get("encrypted_pdfs_decrypted_and_extracted_in_isolation", 0), 4)
    run.require("context_group_history_steps", group_steps, run.n(200, 1200))
    run.require("stress_extractions_on_context_groups", run.counters.get("stress_extractions_on_context_groups", 0), run.n(400, 2000))
    run.require("context_documents_showing_their_ground_truth_in_isolation", truth_ok, int(0.9 * truth_n) if truth_n else 1)


def replay(run, doc):
    case = doc["case"]["case"]
    for c, ob in pool.run_cases("checks.c15:work", [case], workers=1, deadline_s=600):
        print({k: v for k, v in ob.items() if k != "digests"})
    run.case("replay")
    run.case("replay2")
