"""C15 — isolation: results independent of history and of concurrent work; global state restored.

Part 1  controlled scheduler (vlib/mon/sched.py) over the real patch / extract / restore critical section of PDF text
        extraction: the patched module attribute is made observable by swapping the module's class; every get/set of
        it is a scheduling point; all interleavings for 2 threads (DFS), preemption-bounded + random for 3 threads.
Part 2  preemptive stress: 8 threads over a PDF-heavy mixed workload with a 1 us switch interval; results compared with
        single-threaded baselines, global state snapshot before/after.
Part 3  histories: random sequences of extractions (incl. failing inputs) in one process; after every step the global
        state snapshot must equal the initial one and every result must equal its fresh-process baseline.
"""
from __future__ import annotations

import gc
import hashlib
import io
import json
import os
import sys
import threading
import types

from vlib import corpus, pool

LEVEL = "exploration"


# ------------------------------------------------------------------------------------------ global state snapshot
def snapshot():
    """Process-global state the library touches (identity-level for patched functions)."""
    from sharepoint2text.parsing.extractors.pdf import pdf_extractor as P
    from sharepoint2text.parsing.extractors import archive_extractor as A
    snap = {}
    try:
        targets, _ = P._get_pypdf_char_map_patcher()
        for mod, name in targets:
            f = getattr(mod, name)
            depth = 0
            g = f
            while getattr(g, "__closure__", None) and g.__name__ == "patched" and depth < 50:
                inner = [c.cell_contents for c in g.__closure__ if callable(c.cell_contents)]
                if not inner:
                    break
                g = inner[0]
                depth += 1
            snap[f"patch:{mod.__name__}.{name}"] = f"{getattr(f, '__module__', '?')}.{getattr(f, '__qualname__', '?')}:depth={depth}"
    except Exception as e:
        snap["patch"] = f"unavailable: {e}"
    snap["archive_config"] = repr(A._config)
    snap["threads"] = threading.active_count()
    try:
        tmp = os.environ.get("TMPDIR") or "/tmp"
        snap["tmp_entries"] = len([n for n in os.listdir(tmp)]) if os.environ.get("VERIF_PRIVATE_TMP") else -1
    except Exception:
        snap["tmp_entries"] = -1
    try:
        snap["open_fds"] = len(os.listdir("/proc/self/fd"))
    except Exception:
        snap["open_fds"] = -1
    return snap


def _digest(results):
    out = []
    for r in results:
        out.append(hashlib.sha1(json.dumps(r.to_json(), sort_keys=True, default=repr).encode()).hexdigest()[:16])
    return out


def work_init(init):
    import logging
    logging.disable(logging.CRITICAL)
    import tempfile
    import sharepoint2text  # noqa
    # deliberately NO pre-import of the extractor modules here: the router imports them lazily, and import-time side effects
    # (registries, codecs, monkey patches) are exactly the kind of history a result must not depend on
    d = tempfile.mkdtemp(prefix="verif-c15-")
    os.environ["TMPDIR"] = d
    os.environ["VERIF_PRIVATE_TMP"] = "1"
    tempfile.tempdir = d
    import atexit
    import shutil
    atexit.register(lambda: shutil.rmtree(d, ignore_errors=True))


# ------------------------------------------------------------------------------------------ part 1: controlled scheduler
def part_scheduler(case):
    from sharepoint2text.parsing.extractors.pdf import pdf_extractor as P
    from vlib.mon import sched
    import random
    targets, _ = P._get_pypdf_char_map_patcher()
    names = {}
    for mod, name in targets:
        names.setdefault(mod, set()).add(name)
    originals = {(mod, name): getattr(mod, name) for mod, name in targets}
    current = {"run": None}

    def hook_class(watch):
        class Hooked(types.ModuleType):
            def __getattribute__(self, name):
                if name in watch and current["run"] is not None:
                    current["run"].point(f"get {name}")
                return types.ModuleType.__getattribute__(self, name)

            def __setattr__(self, name, value):
                if name in watch and current["run"] is not None:
                    current["run"].point(f"set {name}")
                types.ModuleType.__setattr__(self, name, value)
        return Hooked

    old_classes = {}
    for mod, watch in names.items():
        old_classes[mod] = mod.__class__
        mod.__class__ = hook_class(frozenset(watch))
    k = case["threads"]
    bad = []
    states = set()
    try:
        def make_fns():
            for (mod, name), orig in originals.items():
                types.ModuleType.__setattr__(mod, name, orig)
            seen_inside = [None] * k

            def body(idx):
                with P._patched_build_char_map():
                    # what pypdf would call during this thread's extraction
                    mod, name = targets[0]
                    seen_inside[idx] = getattr(mod, name)
            return [body] * k, seen_inside

        orig_run_execute = sched.Run.execute

        def on_schedule(run, seen_inside, sid):
            current["run"] = None
            end = []
            for (mod, name), orig in originals.items():
                cur = types.ModuleType.__getattribute__(mod, name)
                end.append(cur is orig)
            inside_unpatched = [i for i, f in enumerate(seen_inside) if f is not None and any(f is o for o in originals.values())]
            states.add((tuple(end), tuple(inside_unpatched)))
            trace = " ".join(f"T{t}:{lbl.split()[0]}" for t, lbl in run.trace if lbl != "start")
            if run.errors:
                bad.append({"sym": "thread-raised", "detail": run.errors[0], "trace": trace})
            if not all(end):
                bad.append({"sym": "patched-function-left-installed", "detail": f"after all {k} threads left the critical section pypdf's function is still a wrapper", "trace": trace})
            if inside_unpatched:
                bad.append({"sym": "unpatched-inside-critical-section", "detail": f"thread(s) {inside_unpatched} saw the original function while inside their own patch section (another thread restored it)", "trace": trace})

        # Run.execute must see the hook only while a schedule executes
        def execute(self, fns):
            current["run"] = self
            try:
                return orig_run_execute(self, fns)
            finally:
                current["run"] = None
        sched.Run.execute = execute
        try:
            stats = sched.explore(make_fns, k, on_schedule, max_schedules=case.get("max_schedules"), preemption_bound=case.get("preemption_bound"),
                                  rng=random.Random(case.get("seed", 0)), random_schedules=case.get("random_schedules", 0))
        finally:
            sched.Run.execute = orig_run_execute
    finally:
        for mod, cls in old_classes.items():
            mod.__class__ = cls
        for (mod, name), orig in originals.items():
            setattr(mod, name, orig)
    first = {}
    for b in bad:
        first.setdefault(b["sym"], b)
        first[b["sym"]]["count"] = first[b["sym"]].get("count", 0) + 1
    return {"part": "scheduler", "threads": k, "stats": stats, "problems": list(first.values()), "distinct_end_states": len(states),
            "targets": [f"{m.__name__}.{n}" for m, n in targets]}


# ------------------------------------------------------------------------------------------ part 2: preemptive stress
def part_stress(case):
    from vlib import obs
    import random
    rng = random.Random(case["seed"])
    inputs = [(k, corpus.load(s), corpus.source_ext(s)) for k, s in case["inputs"]]
    base = {}
    for i, (kind, data, ext) in enumerate(inputs):
        try:
            base[i] = _digest(list(obs.extractor(kind)(io.BytesIO(data), "dir/in" + ext)))
        except Exception as e:
            base[i] = f"raises {type(e).__name__}"
    before = snapshot()
    problems = []
    lock = threading.Lock()
    old = sys.getswitchinterval()
    sys.setswitchinterval(1e-6)
    runs = [0]

    thread_errors = []

    def body(tid):
        try:
            _body(tid)
        except BaseException as e:   # a dying harness thread must not read as "nothing happened"
            thread_errors.append(f"{type(e).__name__}: {e}")

    def _body(tid):
        r = random.Random(f"{case['seed']}:{tid}")
        for _ in range(case["iterations"]):
            i = r.randrange(len(inputs))
            kind, data, ext = inputs[i]
            try:
                d = _digest(list(obs.extractor(kind)(io.BytesIO(data), "dir/in" + ext)))
            except Exception as e:
                d = f"raises {type(e).__name__}"
            with lock:
                runs[0] += 1
                if d != base[i]:
                    problems.append({"sym": "result-differs-under-concurrency", "detail": f"{case['inputs'][i][1]}: {d} vs baseline {base[i]}"})
    ts = [threading.Thread(target=body, args=(t,)) for t in range(case["threads"])]
    try:
        for t in ts:
            t.start()
        for t in ts:
            t.join()
    finally:
        sys.setswitchinterval(old)
    gc.collect()
    after = snapshot()
    for k2 in before:
        if before[k2] != after[k2] and k2 not in ("open_fds",):
            problems.append({"sym": f"global-state-changed:{k2.split(':')[0]}", "detail": f"{k2}: {before[k2]} -> {after[k2]}"})
    if after["open_fds"] > before["open_fds"] + 2:
        problems.append({"sym": "global-state-changed:open_fds", "detail": f"{before['open_fds']} -> {after['open_fds']}"})
    # after the storm, results must again equal the baseline
    for i, (kind, data, ext) in enumerate(inputs):
        try:
            d = _digest(list(obs.extractor(kind)(io.BytesIO(data), "dir/in" + ext)))
        except Exception as e:
            d = f"raises {type(e).__name__}"
        if d != base[i]:
            problems.append({"sym": "result-differs-after-concurrent-history", "detail": f"{case['inputs'][i][1]}: {d} vs baseline {base[i]}"})
    first = {}
    for p in problems:
        first.setdefault(p["sym"], p)
    if thread_errors:
        return {"_harness_error": "stress thread failed: " + thread_errors[0]}
    return {"part": "stress", "extractions": runs[0], "problems": list(first.values())}


# ------------------------------------------------------------------------------------------ part 3: histories
def part_history(case):
    from vlib import obs
    problems = []
    start = snapshot()
    steps = 0
    digests = {}
    for step, (kind, recipe) in enumerate(case["steps"]):
        data = corpus.make_input(recipe)
        ext = corpus.KIND_EXT.get(kind, ".bin") if kind != "zip" else corpus.source_ext(recipe["src"])
        try:
            d = _digest(list(obs.extractor(kind)(io.BytesIO(data), "dir/in" + ext)))
        except Exception as e:
            d = f"raises {type(e).__name__}"
        key = json.dumps([kind, recipe], sort_keys=True)
        digests.setdefault(key, []).append(d)
        steps += 1
        gc.collect()
        now = snapshot()
        for k2 in start:
            if k2 == "open_fds":
                if now[k2] > start[k2] + 2:
                    problems.append({"sym": "global-state-changed:open_fds", "detail": f"after step {step} ({kind}): {start[k2]} -> {now[k2]}"})
            elif now[k2] != start[k2]:
                problems.append({"sym": f"global-state-changed:{k2.split(':')[0]}", "detail": f"after step {step} ({kind} {recipe.get('op')}): {k2}: {start[k2]} -> {now[k2]}"})
    first = {}
    for p in problems:
        first.setdefault(p["sym"], p)
    return {"part": "history", "steps": steps, "digests": digests, "problems": list(first.values())}


def part_baseline(case):
    from vlib import obs
    kind, recipe = case["step"]
    data = corpus.make_input(recipe)
    ext = corpus.KIND_EXT.get(kind, ".bin") if kind != "zip" else corpus.source_ext(recipe["src"])
    try:
        d = _digest(list(obs.extractor(kind)(io.BytesIO(data), "dir/in" + ext)))
    except Exception as e:
        d = f"raises {type(e).__name__}"
    return {"part": "baseline", "digest": d}


def work(case):
    from vlib.worker import arm_cpu
    arm_cpu(300)
    return {"scheduler": part_scheduler, "stress": part_stress, "history": part_history, "baseline": part_baseline}[case["part"]](case)


# ------------------------------------------------------------------------------------------ parent
def main(run):
    run.rule = ("scheduler part: case = one complete schedule of k threads through the real patch/extract/restore section (scheduling points = accesses to the patched module attribute), distinct = distinct "
                "thread-order traces; stress part: case = one extraction under 8-thread preemption; history part: case = one step of a random extraction sequence. non-trivial = the end-state / digest oracle was evaluated")
    run.assumptions = ["schedules are explored at the granularity of accesses to the patched attribute (the only conflicting operations of the patch/restore race)",
                       "memo tables may grow; the patched function identity, archive configuration, private TMPDIR, thread count and open handles must be restored",
                       "the one-way AES provider patch is documented behaviour and not part of the snapshot"]
    rng = run.rng
    sources = corpus.all_sources(n_gen=3, base_seed=run.seed * 1000)
    pdfs = [("pdf", s) for s in sources.get("pdf", []) if s[0] == "gen" or "large_table" not in s[1]]
    others = [(k, s) for k in ("docx", "xlsx", "zip", "html", "odt", "rtf", "eml", "mbox", "msg", "mhtml") for s in sources.get(k, [])[:2]]
    # inputs whose result could depend on process-global registries (codecs, mimetypes): HTML in unusual declared charsets
    others += [("html", s) for s in sources.get("html", []) if s[0] == "htmlcs"]
    cases = [
        {"part": "scheduler", "threads": 2, "seed": run.seed},
        {"part": "scheduler", "threads": 3, "seed": run.seed, "preemption_bound": run.n(2, 3), "max_schedules": run.n(500, 40000), "random_schedules": run.n(150, 5000)},
    ]
    for i in range(run.n(6, 60)):
        ins = rng.sample(pdfs, min(len(pdfs), 5)) + rng.sample(others, min(len(others), 3))
        cases.append({"part": "stress", "seed": run.seed * 1000 + i, "threads": 8, "iterations": run.n(6, 12), "inputs": ins})
    hist_cases = []
    pool_steps = [(k, {"src": s, "op": None}) for k, s in pdfs + others]
    # failing / damaged inputs of every kind in the pool (archives included: a failure half-way through unpacking must clean up too)
    for op, ms in (("truncate", 7), ("bitflip", 11), ("zero", 13), ("truncate_tail", 17), ("numbers", 19)):
        pool_steps += [(k, {"src": s, "op": op, "family": "byte", "mseed": ms}) for k, s in (pdfs[:3] + others)]
    pool_steps += [("zip", {"src": s, "op": op, "family": "byte", "mseed": ms}) for s in sources.get("zip", []) for op, ms in (("zero", 23), ("bitflip", 29), ("numbers", 31), ("truncate_tail", 37))]
    for i in range(run.n(20, 300)):
        steps = [rng.choice(pool_steps) for _ in range(rng.randint(6, 20))]
        hist_cases.append({"part": "history", "steps": steps, "id": i})
    base_cases = [{"part": "baseline", "step": s} for s in pool_steps]
    baselines = {}
    sched_results = []
    hist_obs = []
    # baselines in fresh workers (one input per worker process)
    for case, ob in pool.run_cases("checks.c15:work", base_cases, deadline_s=200, fresh_worker_per_case=True):
        if ob.get("part") == "baseline":
            baselines[json.dumps(case["step"], sort_keys=True)] = ob["digest"]
        else:
            run.inconclusive_cases += 1
    for case, ob in pool.run_cases("checks.c15:work", cases + hist_cases, deadline_s=600):
        rep = {"case": case if case["part"] != "history" else {"part": "history", "steps": case["steps"]}}
        if ob.get("_harness_error"):
            run.inconclusive("harness error: " + ob["_harness_error"])
            print(ob.get("_tb"))
            continue
        if ob.get("_timeout") or ob.get("_died") or ob.get("_cpu_exhausted") or ob.get("_oom"):
            run.inconclusive_cases += 1
            if case["part"] == "scheduler":
                run.inconclusive(f"scheduler part for {case['threads']} threads did not finish: {str(ob)[:200]}")
            continue
        part = ob["part"]
        if part == "scheduler":
            st = ob["stats"]
            sched_results.append((case["threads"], st))
            run.count(f"schedules_{case['threads']}_threads", st["schedules"])
            run.count(f"schedules_with_preemption_{case['threads']}_threads", st["with_preemption"])
            run.count(f"distinct_traces_{case['threads']}_threads", st["distinct_traces"])
            run.count(f"distinct_end_states_{case['threads']}_threads", ob["distinct_end_states"])
            run.extras[f"scheduler_{case['threads']}_threads"] = {"complete": st["complete"], "max_depth": st["max_depth"], "blocked_seen": st["blocked_seen"], "targets": ob["targets"]}
            for _ in range(st["schedules"]):
                run.evaluations += 1
            for t in range(st["distinct_traces"]):
                run.distinct.add(f"trace:{case['threads']}:{t}")
            for p in ob["problems"]:
                run.violation(f"C15:pypdf-patch:{case['threads']}-threads:{p['sym']}", f"{p['detail']} in {p.get('count', 1)} of {st['schedules']} schedules; first schedule: {p['trace']}", {"case": case, "trace": p["trace"]})
            if len(run.samples) < 5:
                run.samples.append({"part": "scheduler", "threads": case["threads"], "schedules": st["schedules"], "complete": st["complete"], "distinct_traces": st["distinct_traces"]})
        elif part == "stress":
            run.count("stress_extractions", ob["extractions"])
            for p in ob["problems"]:
                run.violation(f"C15:stress-8-threads:mixed-workload:{p['sym']}", p["detail"], rep)
            run.case(f"stress:{len(ob['problems'])}", sample={"part": "stress", "extractions": ob["extractions"], "problems": [p["sym"] for p in ob["problems"]]} if len(run.samples) < 4 else None)
        elif part == "history":
            run.count("history_steps", ob["steps"])
            for p in ob["problems"]:
                run.violation(f"C15:history:sequence:{p['sym']}", p["detail"], rep)
            for key, ds in ob["digests"].items():
                b = baselines.get(key)
                for d in ds:
                    if b is not None and d != b:
                        run.violation("C15:history:sequence:result-differs-from-isolated-baseline", f"{key[:200]}: {d} in a history vs {b} in a fresh process", rep)
            run.case(f"history:{ob['steps']}:{len(ob['problems'])}", sample={"part": "history", "steps": ob["steps"]} if len(run.samples) < 5 else None)
    two = [st for k, st in sched_results if k == 2]
    run.require("two_thread_exploration_complete", 1 if two and two[0]["complete"] else 0, 1)
    run.require("schedules_2_threads", run.counters.get("schedules_2_threads", 0), 50)
    run.require("schedules_with_preemption_2_threads", run.counters.get("schedules_with_preemption_2_threads", 0), 1)
    run.require("schedules_3_threads", run.counters.get("schedules_3_threads", 0), 300)
    run.require("stress_extractions", run.counters.get("stress_extractions", 0), run.n(200, 3000))
    run.require("history_steps", run.counters.get("history_steps", 0), run.n(150, 3000))
    run.require("baselines", len(baselines), 10)


def replay(run, doc):
    case = doc["case"]["case"]
    for c, ob in pool.run_cases("checks.c15:work", [case], workers=1, deadline_s=600):
        print({k: v for k, v in ob.items() if k != "digests"})
    run.case("replay")
    run.case("replay2")
