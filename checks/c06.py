"""C06 — extraction is a deterministic, side-effect-free function of (bytes, path); observing is idempotent.

Purity monitor: sha256 of the caller's buffer before/after; field-level digests of canonical to_json() for the same input
(a) twice in one process, (b) in fresh processes under PYTHONHASHSEED 0, 1, 2 and 'random'; and, per result, the digest
before, between and after a seeded random word of observer calls (full text, units, unit accessors, images, bytes, tables,
metadata, to_json) — any change is a violation keyed by the field that changed.

A result, once returned, never changes because of later extractions: every worker keeps the last few results alive and
re-digests them after each later extraction of another input (opportunistic, whatever the pool happened to schedule),
and *sequence* cases do the same deterministically over context groups of vlib/gen/isolation_docs.py — documents that
share a sub-key and differ in its context, packages whose optional parts (meta.xml, docProps, styles) are absent or only
referenced, each with its own path argument (None included) — and finally repeat the first extractions of the sequence.
"""
from __future__ import annotations

import hashlib
import io
import json
import random

from vlib import corpus, pool
from vlib.gen import isolation_docs as iso

LEVEL = "exploration"
OBSERVERS = ["partial_iterations", "full_text", "units", "unit_text", "unit_images", "unit_tables", "unit_meta", "images", "image_bytes", "image_meta", "tables", "metadata", "to_json", "unit_to_json",
             "other_accessors", "other_accessors"]
_COVERED = {"get_full_text", "iterate_units", "iterate_images", "iterate_tables", "get_metadata", "to_json"}


def work_init(init):
    import logging
    logging.disable(logging.CRITICAL)
    import sharepoint2text  # noqa
    from vlib import obs
    for k in corpus.KINDS:
        obs.extractor(k)


def _sha(o) -> str:
    return hashlib.sha1(json.dumps(o, sort_keys=True, ensure_ascii=True, default=repr).encode()).hexdigest()[:12]


def field_digests(j, depth=2, prefix="") -> dict:
    """Digest per field path (two levels deep; lists of dataclasses one level into their elements' fields, merged)."""
    out = {}
    if isinstance(j, dict) and depth > 0:
        for k, v in j.items():
            p = f"{prefix}.{k}" if prefix else k
            if isinstance(v, dict):
                out.update(field_digests(v, depth - 1, p))
            elif isinstance(v, list) and v and all(isinstance(x, dict) for x in v) and depth > 1:
                merged = {}
                for x in v:
                    for kk, vv in x.items():
                        merged.setdefault(kk, []).append(vv)
                for kk, vv in merged.items():
                    out[f"{p}[].{kk}"] = _sha(vv)
            else:
                out[p] = _sha(v)
    else:
        out[prefix or "$"] = _sha(j)
    return out


def _observe(r, name):
    if name == "full_text":
        return r.get_full_text()
    if name == "units":
        return [u.to_json() for u in r.iterate_units()]
    if name == "unit_text":
        return [u.get_text() for u in r.iterate_units()]
    if name == "unit_images":
        return [[i.get_bytes().read() for i in u.get_images()] for u in r.iterate_units()]
    if name == "unit_tables":
        return [[t.get_table() for t in u.get_tables()] for u in r.iterate_units()]
    if name == "unit_meta":
        return [repr(u.get_metadata()) for u in r.iterate_units()]
    if name == "images":
        return [(i.get_content_type(), i.get_caption(), i.get_description()) for i in r.iterate_images()]
    if name == "image_bytes":
        return [i.get_bytes().read() for i in r.iterate_images()]
    if name == "image_meta":
        return [dict(i.get_metadata()) for i in r.iterate_images()]
    if name == "tables":
        return [(t.get_table(), repr(t.get_dim())) for t in r.iterate_tables()]
    if name == "metadata":
        m = r.get_metadata()
        return m.to_dict() if hasattr(m, "to_dict") else repr(m)
    if name == "to_json":
        return r.to_json()
    if name == "unit_to_json":
        return [u.to_json() for u in r.iterate_units()]
    if name == "partial_iterations":
        # a consumer that does not run an iterator to its end: peek at the first element (next), leave a loop early (break), walk two
        # iterators of the same result in step; every iterate_* accessor of the result type
        import itertools
        out = {}
        for attr in sorted(a for a in dir(type(r)) if a.startswith("iterate_")):
            f = getattr(r, attr, None)
            if not callable(f):
                continue
            try:
                first = next(iter(f()), None)
                some = []
                for j, x in enumerate(f()):
                    some.append(type(x).__name__)
                    if j >= 1:
                        break
                paired = [type(a_).__name__ for a_, _b in zip(f(), itertools.islice(f(), 1))]
            except TypeError:
                continue
            out[attr] = [first.to_json() if hasattr(first, "to_json") else (type(first).__name__ if first is not None else None), some, paired]
        return out
    if name == "other_accessors":
        # every further public read accessor the result type offers (iterate_* / get_* without required arguments), whatever it is called:
        # e.g. the attachments of a mail extracted at call time.  Generators are consumed; nested results are serialised.
        import inspect
        out = {}
        for attr in sorted(dir(type(r))):
            if attr in _COVERED or not attr.startswith(("iterate_", "get_")):
                continue
            f = getattr(r, attr, None)
            if not callable(f):
                continue
            try:
                sig = inspect.signature(f)
            except (TypeError, ValueError):
                continue
            if any(p.default is p.empty and p.kind in (p.POSITIONAL_ONLY, p.POSITIONAL_OR_KEYWORD, p.KEYWORD_ONLY) for p in sig.parameters.values()):
                continue
            v = f()
            if inspect.isgenerator(v) or (hasattr(v, "__iter__") and not isinstance(v, (str, bytes, dict, list, tuple))):
                v = list(v)
            if isinstance(v, (list, tuple)):
                v = [x.to_json() if hasattr(x, "to_json") else (x.get_bytes().read() if hasattr(x, "get_bytes") else repr(x)) for x in v]
            elif hasattr(v, "to_json"):
                v = v.to_json()
            out[attr] = v
        return out
    raise ValueError(name)


_HELD: list = []          # results of earlier cases of this worker process, kept alive: [label, fmt, results, digests]
HELD_MAX = 4


def _digest_results(results, tag=""):
    d = {}
    for i, r in enumerate(results[:10]):
        for k, v in field_digests(r.to_json()).items():
            d[f"{type(r).__name__}#{tag}{i}.{k}"] = v
    return d


def _field(k: str) -> str:
    return k.split(".", 1)[1] if "." in k else k


def _recheck(entry, problems, by):
    """Re-digest results returned earlier; a difference means a later extraction reached into an object it had handed out."""
    label, fmt, results, before = entry[:4]
    try:
        now = _digest_results(results, entry[4] if len(entry) > 4 else "")
    except Exception as e:
        problems.append({"cmp": "later-extraction", "field": f"earlier-result-to_json-raises-{type(e).__name__}", "fmt": fmt, "by": by, "earlier": label})
        return
    changed = sorted(k for k in set(before) | set(now) if before.get(k) != now.get(k))
    for k in changed[:3]:
        problems.append({"cmp": "later-extraction", "field": f"earlier-result-changed:{_field(k)}", "fmt": fmt, "by": by, "earlier": label})
    if changed:
        entry[3] = now


def _fmt_of(kind, recipe):
    src = recipe["src"]
    if iso.is_iso(src):
        return kind
    return src[1] if src[0] == "gen" else kind


def work_seq(case):
    """A deterministic sequence of extractions in one process: all results stay alive and are re-digested after every later step;
    at the end every step is repeated and must give what it gave first."""
    import time
    from vlib import obs
    from vlib.worker import arm_cpu
    arm_cpu(120)
    out = {"kind": "seq", "problems": [], "digest": {}}
    insha = hashlib.sha256()
    alive = []
    firsts = []
    rechecks = 0
    for j, (kind, recipe, pidx) in enumerate(case["steps"]):
        data = iso.make_input(recipe)
        ext = corpus.KIND_EXT[kind] if kind != "zip" else iso.source_ext(recipe["src"])
        path = iso.path_for(pidx, ext)
        label = f"step {j}: {kind} {recipe['src'][1:]} path={path!r}"
        insha.update(hashlib.sha256(data).digest())
        try:
            rs = list(obs.extractor(kind)(io.BytesIO(data), path))
            d = _digest_results(rs, f"s{j}r")
        except Exception as e:
            rs, d = None, {f"$exc#s{j}r0.$exc": type(e).__name__}
        out["digest"].update(d)
        for entry in alive[-3:]:            # the most recent ones after every step (says which step did it); all of them at the end
            _recheck(entry, out["problems"], label)
            rechecks += 1
        if rs is not None:          # a step that failed handed out no result that could change later
            alive.append([label, _fmt_of(kind, recipe), rs, d, f"s{j}r"])
        if len(firsts) < 40:            # every step is repeated at the end (the documents are small)
            firsts.append((kind, data, path, d, j, _fmt_of(kind, recipe)))
    for kind, data, path, d0, j, fmt in firsts:
        try:
            d1 = _digest_results(list(obs.extractor(kind)(io.BytesIO(data), path)), f"s{j}r")
        except Exception as e:
            d1 = {f"$exc#s{j}r0.$exc": type(e).__name__}
        for k in sorted(set(d0) | set(d1)):
            if d0.get(k) != d1.get(k):
                out["problems"].append({"cmp": "same-process-repeat-after-other-extractions", "field": _field(k), "fmt": fmt})
    for entry in alive:
        _recheck(entry, out["problems"], "a later step or the repeat of one of the first steps")
        rechecks += 1
    out["rechecks"] = rechecks
    out["steps"] = len(case["steps"])
    out["input_sha"] = insha.hexdigest()[:16]
    return out


def _budget_check():
    """The worker's CPU budget is delivered as an exception inside the case; code under test that swallows it (bare except in a parsing loop)
    keeps running.  At every stage boundary the case gives up for good once the budget has fired."""
    import sys
    worker = sys.modules.get("__main__")            # the worker runs as ``python -m vlib.worker``: its live state is in __main__, not in an imported copy
    if not hasattr(worker, "_TICKS"):
        from vlib import worker
    if worker._TICKS >= worker._N_TICKS:
        raise worker.CpuBudget()


def work(case):
    import time
    from vlib import obs
    from vlib.worker import arm_cpu
    if case["kind"] == "seq":
        return work_seq(case)
    arm_cpu(case.get("cpu", 60))
    t_cpu = time.process_time()
    data = iso.make_input(case["recipe"])
    kind = case["kind"]
    ext = corpus.KIND_EXT[kind] if kind != "zip" else iso.source_ext(case["recipe"]["src"])
    path = iso.path_for(case.get("pidx", 1), ext)
    out = {"kind": kind, "problems": []}
    fn = obs.extractor(kind)
    buf = io.BytesIO(data)
    before = hashlib.sha256(buf.getvalue()).hexdigest()
    out["input_sha"] = before[:16]
    try:
        ra = list(fn(buf, path))
    except Exception as e:
        _budget_check()
        out["exc"] = obs.exc_record(e)
        # failures must be deterministic too
        try:
            list(fn(io.BytesIO(data), path))
            out["problems"].append({"cmp": "same-process-repeat", "field": "raises-then-succeeds"})
        except Exception as e2:
            if type(e2) is not type(e):
                out["problems"].append({"cmp": "same-process-repeat", "field": f"exception-type {type(e).__name__} vs {type(e2).__name__}"})
        out["digest"] = {"$exc": type(e).__name__}
        out["rechecks"] = _recheck_held(out["problems"], f"case {case['id']} ({kind}, failing)")
        return out
    _budget_check()
    if hashlib.sha256(buf.getvalue()).hexdigest() != before or len(buf.getvalue()) != len(data):
        out["problems"].append({"cmp": "buffer", "field": "caller-buffer-content-changed"})
    # digests are taken before any observer is called
    try:
        da = {}
        for i, r in enumerate(ra[:10]):
            for k, v in field_digests(r.to_json()).items():
                da[f"{type(r).__name__}#{i}.{k}"] = v
    except Exception as e:
        out["problems"].append({"cmp": "to_json", "field": f"raises-{type(e).__name__}"})
        out["digest"] = {}
        return out
    out["digest"] = da
    out["n_results"] = len(ra)
    try:
        rb = list(fn(io.BytesIO(data), path))
        _budget_check()
        db = {}
        for i, r in enumerate(rb[:10]):
            for k, v in field_digests(r.to_json()).items():
                db[f"{type(r).__name__}#{i}.{k}"] = v
        for k in sorted(set(da) | set(db)):
            if da.get(k) != db.get(k):
                out["problems"].append({"cmp": "same-process-repeat", "field": k.split(".", 1)[1] if "." in k else k})
    except Exception as e:
        _budget_check()
        out["problems"].append({"cmp": "same-process-repeat", "field": f"second-run-raises-{type(e).__name__}"})
    # observer words
    rng = random.Random(f"obs:{case['id']}:{case.get('wseed', 0)}")
    words = 0
    for i, r in enumerate(ra[:4]):
        base = field_digests(r.to_json())
        word = [rng.choice(OBSERVERS) for _ in range(rng.randint(3, 12))]
        last_val = {}
        for name in word:
            _budget_check()
            try:
                v = _sha(_observe(r, name))
            except Exception as e:
                out["problems"].append({"cmp": f"observer:{name}", "field": f"raises-{type(e).__name__}"})
                continue
            if name in last_val and last_val[name] != v:
                out["problems"].append({"cmp": "observer", "field": f"not-idempotent:{name}", "by": name})
            last_val[name] = v
            now = field_digests(r.to_json())
            changed = sorted(k for k in set(base) | set(now) if base.get(k) != now.get(k))
            if changed:
                for k in changed[:3]:
                    out["problems"].append({"cmp": "observer", "field": f"to_json-changed:{k}", "by": name})
                base = now
        words += 1
    out["observer_words"] = words
    # observer order: what an observer returns must not depend on which other observers were called on that result before.  For every observer
    # its value on an untouched extraction (one fresh extraction per observer) is the reference; two more extractions are walked by all
    # observers, one in list order and one in reverse, and every value must equal the reference.  Only for inputs that are cheap to extract.
    out["order_pairs"] = 0
    repeat_differs = any(p_["cmp"] == "same-process-repeat" for p_ in out["problems"])     # then values of different extractions cannot be compared at all
    if case.get("order_walks", True) and not repeat_differs and time.process_time() - t_cpu < 1.5:
        try:
            names = [n for n in dict.fromkeys(OBSERVERS)]
            t1 = time.process_time()
            fwd = list(fn(io.BytesIO(data), path))[:1]
            cheap = time.process_time() - t1 < 0.05
            rev = list(fn(io.BytesIO(data), path))[:1]

            def val(r, n):
                _budget_check()
                try:
                    return _sha(_observe(r, n))
                except Exception as e:
                    return f"raises-{type(e).__name__}"
            if fwd and rev:
                vf = {n: val(fwd[0], n) for n in names}
                vr = {n: val(rev[0], n) for n in reversed(names)}
                ref = {}
                if cheap:
                    for n in names:
                        fresh = list(fn(io.BytesIO(data), path))[:1]
                        ref[n] = val(fresh[0], n) if fresh else None
                out["order_pairs"] += len(names) * (2 if cheap else 1)
                for n in names:
                    if vf[n] != vr[n] or (cheap and (ref[n] != vf[n] or ref[n] != vr[n])):
                        out["problems"].append({"cmp": "observer-order", "field": f"{n}-depends-on-observers-called-before"})
        except Exception as e:
            _budget_check()
            out["problems"].append({"cmp": "observer-order", "field": f"untouched-extraction-raises-{type(e).__name__}"})
    # results returned by earlier cases of this process must still say what they said
    out["rechecks"] = _recheck_held(out["problems"], f"case {case['id']} ({kind} {case['recipe']['src'][1:]})")
    t0 = time.perf_counter()
    try:
        d = _digest_results(ra[:4])
    except Exception:
        d = None
    if d is not None and time.perf_counter() - t0 < 0.02:          # only cheap-to-digest results are kept
        _HELD.append([f"case {case['id']} ({kind} {case['recipe']['src'][1:]} path={path!r})", _fmt_of(kind, case["recipe"]), ra[:4], d])
        del _HELD[:-HELD_MAX]
    out["cpu_s"] = round(time.process_time() - t_cpu, 2)
    return out


def _recheck_held(problems, by) -> int:
    for entry in _HELD:
        _recheck(entry, problems, by)
    return len(_HELD)


def gen_cases(run):
    rng = run.rng
    from vlib.gen import mutate
    sources = corpus.all_sources(n_gen=run.n(3, 25), base_seed=run.seed * 1000)
    cid = 0
    for kind in corpus.KINDS:
        for src in sources.get(kind, []):
            cid += 1
            yield {"id": cid, "kind": kind, "recipe": {"src": src, "op": None}, "wseed": run.seed}
            for _ in range(run.n(1, 6)):
                fams = [("byte", op) for op in ("bitflip", "zero", "numbers", "truncate_tail")]
                if kind in corpus.ZIP_KINDS:
                    fams += [("zip", op) for op in mutate.ZIP_OPS]
                fam, op = rng.choice(fams)
                cid += 1
                yield {"id": cid, "kind": kind, "recipe": {"src": src, "op": op, "family": fam, "mseed": rng.randrange(1 << 30)}, "wseed": run.seed}
    # context-group documents (shared sub-key / different context; optional parts absent or dangling), each under a path of its own
    iso_srcs = iso.all_sources() + iso.dropped_sources(sources, per_kind=run.n(1, 4))
    for n, (kind, src) in enumerate(iso_srcs):
        for pidx in ((cid % len(iso.PATHS)),) if run.quick else range(len(iso.PATHS)):
            cid += 1
            yield {"id": cid, "kind": kind, "recipe": {"src": src, "op": None}, "wseed": run.seed, "pidx": pidx}
        if rng.random() < (0.3 if run.quick else 1.0):
            cid += 1
            yield {"id": cid, "kind": kind, "recipe": {"src": src, "op": rng.choice(("bitflip", "truncate_tail", "zero")), "family": "byte", "mseed": rng.randrange(1 << 30)},
                   "wseed": run.seed, "pidx": cid % len(iso.PATHS)}
    # sequences over the groups: every member at least once, some twice, shuffled, every step with its own path (None included)
    groups = [dict(g, members=[m for m in g["members"] if m[0] != "route"]) for g in iso.groups()]      # routing questions are C07's / C15's
    groups = [g for g in groups if len(g["members"]) >= 2]
    by_kind = {}
    for kind, src in iso_srcs:
        if src[1] == "drop":
            by_kind.setdefault(kind, []).append((kind, src))
    for kind, ms in sorted(by_kind.items()):
        groups.append({"name": f"{kind}:optional-parts-removed/package", "members": ms + [(kind, ms[0][1][2])]})
    for g in groups:
        for rep in range(run.n(2, 8)):
            ms = list(g["members"])
            seq = ms + [rng.choice(ms) for _ in range(rng.randint(1, 4))]
            rng.shuffle(seq)
            cid += 1
            yield {"id": cid, "kind": "seq", "group": g["name"], "steps": [[k, {"src": s, "op": None}, rng.randrange(len(iso.PATHS))] for k, s in seq]}


def main(run):
    run.rule = ("case = one (bytes, path) input extracted twice in one process and once per fresh process under PYTHONHASHSEED 0/1/2/random, each result walked by a random observer word; "
                "or one deterministic sequence of extractions over a context group (shared sub-key / different context, optional parts absent; own path argument per step) in which every earlier result "
                "is re-digested after later steps and the first steps are repeated at the end; "
                "distinct = (kind, feature, mutated?, outcome, problem set); non-trivial = digests of >= 1 result were compared")
    run.assumptions = ["the path is non-existent (or None) so that file metadata cannot depend on the host",
                       "a worker keeps the last few cheap-to-digest results of earlier cases alive; which cases meet in one worker is decided by the pool (the sequence cases are the deterministic form)", "field-level digests two levels deep localise a difference to a field name"]
    cases = list(gen_cases(run))
    for c in cases:
        c["cpu"] = run.n(25, 60)        # CPU budget of one case (two extractions + observer word); cases over it are counted, not compared
    by_seed = {}
    problems = {}
    notes = {}
    slow = []
    input_shas = {}
    words = rechecks = seq_steps = order_pairs = 0
    gave_up = set()         # cases that used up their CPU budget / died in one pass cannot be compared: they are not run again in the later passes
    for hs in ("0", "1", "2", "random"):
        digests = {}
        # (the forward / reverse observer walks do not depend on the hash seed: first pass only)
        for case, ob in pool.run_cases("checks.c06:work", [dict(c, order_walks=(hs == "0")) for c in cases if c["id"] not in gave_up], deadline_s=300, hashseed=hs, rlimit_as=2 * 2**30):
            if ob.get("_harness_error"):
                run.inconclusive("harness error: " + ob["_harness_error"])
                print(ob.get("_tb"))
                continue
            if ob.get("_timeout") or ob.get("_died") or ob.get("_cpu_exhausted") or ob.get("_oom"):
                run.inconclusive_cases += 1
                gave_up.add(case["id"])
                run.extras.setdefault("cases_that_used_up_their_cpu_budget", []).append({"recipe": case.get("recipe"), "at": ob.get("_cpu_exhausted_at") or ob.get("_stuck_at")})
                continue
            digests[case["id"]] = ob.get("digest", {})
            input_shas.setdefault(case["id"], set()).add(ob.get("input_sha"))
            words += ob.get("observer_words", 0)
            rechecks += ob.get("rechecks", 0)
            order_pairs += ob.get("order_pairs", 0)
            if ob.get("cpu_s", 0) > 5:
                slow.append((ob["cpu_s"], hs, case.get("recipe")))
            seq_steps += ob.get("steps", 0)
            for p in ob.get("problems", []):
                problems.setdefault(case["id"], set()).add((p["cmp"], p["field"], p.get("fmt")))
                if p.get("earlier"):
                    notes.setdefault((case["id"], p["cmp"], p["field"], p.get("fmt")), f"result of {p['earlier']} changed after {p['by']}")
        by_seed[hs] = digests
    case_by_id = {c["id"]: c for c in cases}
    compared = 0
    unstable_inputs = []
    for cid, c in case_by_id.items():
        ds = [by_seed[hs].get(cid) for hs in by_seed]
        if any(d is None for d in ds):
            run.case(None, nontrivial=False)
            continue
        if len(input_shas.get(cid, ())) > 1 and any(d != ds[0] for d in ds[1:]):
            # the generator did not hand the same bytes to the four passes (a writer that is not bit-deterministic, or one edited while
            # the check was running) *and* the results differ: the difference cannot be attributed to the library
            # (bytes that differ only in a container timestamp, e.g. the gzip header, give equal results and are compared as usual)
            unstable_inputs.append(c.get("group") or c["recipe"]["src"])
            run.case(None, nontrivial=False)
            continue
        compared += 1
        ref = ds[0]
        for hs, d in zip(list(by_seed)[1:], ds[1:]):
            for k in sorted(set(ref) | set(d)):
                if ref.get(k) != d.get(k):
                    # in a sequence the format is the one of the step whose result differs (type name of the result object)
                    pf = k.split("#", 1)[0].lower().removesuffix("content") if c["kind"] == "seq" and "#" in k else None
                    problems.setdefault(cid, set()).add(("fresh-process-or-hash-seed", k.split(".", 1)[1] if "." in k else k, pf or None))
        if c["kind"] == "seq":
            src, feat, fmt, mutated = ["seq", c["group"]], c["group"], "sequence", False
        else:
            src = c["recipe"]["src"]
            if iso.is_iso(src):
                feat = iso.feature(src, c["kind"])
                fmt = c["kind"]
            else:
                feat = src[3] if src[0] == "gen" and src[3] else ("fixture" if src[0] == "fx" else "clean")
                fmt = src[1] if src[0] == "gen" else c["kind"]
            mutated = bool(c["recipe"].get("op"))
        seen = set()
        risky = ""
        if c["kind"] == "seq":
            feats = {iso.feature(st[1]["src"], st[0]) for st in c["steps"] if iso.is_iso(st[1]["src"])}
            risky = "+".join(sorted(f for f in feats if f in iso.RISKY_FEATURES))
        elif feat in iso.RISKY_FEATURES:
            risky = feat
        for cmp_, field, pfmt in sorted(problems.get(cid, ()), key=str):
            key = f"C06:{pfmt or fmt}{'+' + risky if risky else ''}:{cmp_}:{field}"
            seen.add(key)
            what = f"{fmt} ({feat}{', mutated ' + c['recipe']['op'] if mutated else ''}, {src}): {cmp_}: {field} differs"
            if (cid, cmp_, field, pfmt) in notes:
                what += " — " + notes[(cid, cmp_, field, pfmt)]
            run.violation(key, what, {"case": c})
        run.case(f"{c['kind']}:{feat}:{mutated}:{len(ref)}:{','.join(sorted(seen))}", nontrivial=bool(ref) and "$exc" not in ref,
                 sample={"kind": c["kind"], "src": src, "op": c.get("recipe", {}).get("op"), "fields_digested": len(ref), "problems": sorted(seen)} if cid % 53 == 0 else None)
    run.count("inputs_compared_across_4_hash_seeds", compared)
    run.extras["slowest_cases_cpu_s"] = [list(x) for x in sorted(slow, key=lambda x: -x[0])[:8]]
    if unstable_inputs:
        run.extras["inputs_not_bit_identical_across_passes"] = unstable_inputs[:20]
        run.inconclusive(f"{len(unstable_inputs)} generated inputs were not bit-identical in the four passes and gave different results (generator not deterministic or edited during the run), e.g. {unstable_inputs[:3]}")
    run.count("observer_words_walked", words)
    run.require("inputs_compared_across_4_hash_seeds", compared, run.n(200, 2000))
    run.require("observer_words_walked", words, run.n(500, 5000))
    run.count("earlier_results_redigested_after_later_extractions", rechecks)
    run.count("observers_compared_between_forward_and_reverse_walks", order_pairs)
    run.require("observers_compared_between_forward_and_reverse_walks", order_pairs, run.n(6000, 50000))
    run.count("sequence_steps", seq_steps)
    n_iso = sum(1 for c in cases if c["kind"] != "seq" and iso.is_iso(c["recipe"]["src"]))
    run.count("context_group_documents", n_iso)
    run.count("documents_without_optional_parts", sum(1 for c in cases if c["kind"] != "seq" and iso.is_iso(c["recipe"]["src"]) and not c["recipe"].get("op")
                                                      and (c["recipe"]["src"][1] == "drop" or (c["recipe"]["src"][1], c["recipe"]["src"][2]) in iso.OPTIONAL_ABSENT)))
    run.count("path_argument_forms", len({c.get("pidx", 1) for c in cases if c["kind"] != "seq"}))
    run.require("earlier_results_redigested_after_later_extractions", rechecks, run.n(3000, 30000))
    run.require("sequence_steps", seq_steps, run.n(4 * 300, 4 * 1200))
    run.require("documents_without_optional_parts", run.counters["documents_without_optional_parts"], 40)
    run.require("path_argument_forms", run.counters["path_argument_forms"], len(iso.PATHS))


def replay(run, doc):
    case = doc["case"]["case"]
    for hs in ("0", "1"):
        for c, ob in pool.run_cases("checks.c06:work", [case], workers=1, deadline_s=300, hashseed=hs):
            print(hs, {k: v for k, v in ob.items() if k != "digest"})
    run.case("replay")
    run.case("replay2")
