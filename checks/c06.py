"""C06 — extraction is a deterministic, side-effect-free function of (bytes, path); observing is idempotent.

Purity monitor: sha256 of the caller's buffer before/after; field-level digests of canonical to_json() for the same input
(a) twice in one process, (b) in fresh processes under PYTHONHASHSEED 0, 1, 2 and 'random'; and, per result, the digest
before, between and after a seeded random word of observer calls (full text, units, unit accessors, images, bytes, tables,
metadata, to_json) — any change is a violation keyed by the field that changed.
"""
from __future__ import annotations

import hashlib
import io
import json
import random

from vlib import corpus, pool

LEVEL = "exploration"
OBSERVERS = ["full_text", "units", "unit_text", "unit_images", "unit_tables", "unit_meta", "images", "image_bytes", "image_meta", "tables", "metadata", "to_json", "unit_to_json"]


def work_init(init):
    import logging
    logging.disable(logging.CRITICAL)
    import sharepoint2text  # noqa
    from vlib import obs
    for k in corpus.KINDS:
        obs.extractor(k)


def _sha(o) -> str:
    return hashlib.sha1(json.dumps(o, sort_keys=True, ensure_ascii=True, default=repr).encode()).hexdigest()[:12]


def field_digests(j, depth=2, prefix="") -> dict:
    """Digest per field path (two levels deep; lists of dataclasses one level into their elements' fields, merged)."""
    out = {}
    if isinstance(j, dict) and depth > 0:
        for k, v in j.items():
            p = f"{prefix}.{k}" if prefix else k
            if isinstance(v, dict):
                out.update(field_digests(v, depth - 1, p))
            elif isinstance(v, list) and v and all(isinstance(x, dict) for x in v) and depth > 1:
                merged = {}
                for x in v:
                    for kk, vv in x.items():
                        merged.setdefault(kk, []).append(vv)
                for kk, vv in merged.items():
                    out[f"{p}[].{kk}"] = _sha(vv)
            else:
                out[p] = _sha(v)
    else:
        out[prefix or "$"] = _sha(j)
    return out


def _observe(r, name):
    if name == "full_text":
        return r.get_full_text()
    if name == "units":
        return [u.to_json() for u in r.iterate_units()]
    if name == "unit_text":
        return [u.get_text() for u in r.iterate_units()]
    if name == "unit_images":
        return [[i.get_bytes().read() for i in u.get_images()] for u in r.iterate_units()]
    if name == "unit_tables":
        return [[t.get_table() for t in u.get_tables()] for u in r.iterate_units()]
    if name == "unit_meta":
        return [repr(u.get_metadata()) for u in r.iterate_units()]
    if name == "images":
        return [(i.get_content_type(), i.get_caption(), i.get_description()) for i in r.iterate_images()]
    if name == "image_bytes":
        return [i.get_bytes().read() for i in r.iterate_images()]
    if name == "image_meta":
        return [dict(i.get_metadata()) for i in r.iterate_images()]
    if name == "tables":
        return [(t.get_table(), repr(t.get_dim())) for t in r.iterate_tables()]
    if name == "metadata":
        m = r.get_metadata()
        return m.to_dict() if hasattr(m, "to_dict") else repr(m)
    if name == "to_json":
        return r.to_json()
    if name == "unit_to_json":
        return [u.to_json() for u in r.iterate_units()]
    raise ValueError(name)


def work(case):
    from vlib import obs
    from vlib.worker import arm_cpu
    arm_cpu(120)
    data = corpus.make_input(case["recipe"])
    kind = case["kind"]
    ext = corpus.KIND_EXT[kind] if kind != "zip" else corpus.source_ext(case["recipe"]["src"])
    path = "dir/in" + ext
    out = {"kind": kind, "problems": []}
    fn = obs.extractor(kind)
    buf = io.BytesIO(data)
    before = hashlib.sha256(buf.getvalue()).hexdigest()
    try:
        ra = list(fn(buf, path))
    except Exception as e:
        out["exc"] = obs.exc_record(e)
        # failures must be deterministic too
        try:
            list(fn(io.BytesIO(data), path))
            out["problems"].append({"cmp": "same-process-repeat", "field": "raises-then-succeeds"})
        except Exception as e2:
            if type(e2) is not type(e):
                out["problems"].append({"cmp": "same-process-repeat", "field": f"exception-type {type(e).__name__} vs {type(e2).__name__}"})
        out["digest"] = {"$exc": type(e).__name__}
        return out
    if hashlib.sha256(buf.getvalue()).hexdigest() != before or len(buf.getvalue()) != len(data):
        out["problems"].append({"cmp": "buffer", "field": "caller-buffer-content-changed"})
    # digests are taken before any observer is called
    try:
        da = {}
        for i, r in enumerate(ra[:10]):
            for k, v in field_digests(r.to_json()).items():
                da[f"{type(r).__name__}#{i}.{k}"] = v
    except Exception as e:
        out["problems"].append({"cmp": "to_json", "field": f"raises-{type(e).__name__}"})
        out["digest"] = {}
        return out
    out["digest"] = da
    out["n_results"] = len(ra)
    try:
        rb = list(fn(io.BytesIO(data), path))
        db = {}
        for i, r in enumerate(rb[:10]):
            for k, v in field_digests(r.to_json()).items():
                db[f"{type(r).__name__}#{i}.{k}"] = v
        for k in sorted(set(da) | set(db)):
            if da.get(k) != db.get(k):
                out["problems"].append({"cmp": "same-process-repeat", "field": k.split(".", 1)[1] if "." in k else k})
    except Exception as e:
        out["problems"].append({"cmp": "same-process-repeat", "field": f"second-run-raises-{type(e).__name__}"})
    # observer words
    rng = random.Random(f"obs:{case['id']}:{case.get('wseed', 0)}")
    words = 0
    for i, r in enumerate(ra[:4]):
        base = field_digests(r.to_json())
        word = [rng.choice(OBSERVERS) for _ in range(rng.randint(3, 12))]
        last_val = {}
        for name in word:
            try:
                v = _sha(_observe(r, name))
            except Exception as e:
                out["problems"].append({"cmp": f"observer:{name}", "field": f"raises-{type(e).__name__}"})
                continue
            if name in last_val and last_val[name] != v:
                out["problems"].append({"cmp": "observer", "field": f"not-idempotent:{name}", "by": name})
            last_val[name] = v
            now = field_digests(r.to_json())
            changed = sorted(k for k in set(base) | set(now) if base.get(k) != now.get(k))
            if changed:
                for k in changed[:3]:
                    out["problems"].append({"cmp": "observer", "field": f"to_json-changed:{k}", "by": name})
                base = now
        words += 1
    out["observer_words"] = words
    return out


def gen_cases(run):
    rng = run.rng
    from vlib.gen import mutate
    sources = corpus.all_sources(n_gen=run.n(3, 25), base_seed=run.seed * 1000)
    cid = 0
    for kind in corpus.KINDS:
        for src in sources.get(kind, []):
            cid += 1
            yield {"id": cid, "kind": kind, "recipe": {"src": src, "op": None}, "wseed": run.seed}
            for _ in range(run.n(1, 6)):
                fams = [("byte", op) for op in ("bitflip", "zero", "numbers", "truncate_tail")]
                if kind in corpus.ZIP_KINDS:
                    fams += [("zip", op) for op in mutate.ZIP_OPS]
                fam, op = rng.choice(fams)
                cid += 1
                yield {"id": cid, "kind": kind, "recipe": {"src": src, "op": op, "family": fam, "mseed": rng.randrange(1 << 30)}, "wseed": run.seed}


def main(run):
    run.rule = ("case = one (bytes, path) input extracted twice in one process and once per fresh process under PYTHONHASHSEED 0/1/2/random, each result walked by a random observer word; "
                "distinct = (kind, feature, mutated?, outcome, problem set); non-trivial = digests of >= 1 result were compared")
    run.assumptions = ["the path is relative and non-existent so that file metadata cannot depend on the host", "field-level digests two levels deep localise a difference to a field name"]
    cases = list(gen_cases(run))
    by_seed = {}
    problems = {}
    words = 0
    for hs in ("0", "1", "2", "random"):
        digests = {}
        for case, ob in pool.run_cases("checks.c06:work", cases, deadline_s=300, hashseed=hs, rlimit_as=2 * 2**30):
            if ob.get("_harness_error"):
                run.inconclusive("harness error: " + ob["_harness_error"])
                print(ob.get("_tb"))
                continue
            if ob.get("_timeout") or ob.get("_died") or ob.get("_cpu_exhausted") or ob.get("_oom"):
                run.inconclusive_cases += 1
                continue
            digests[case["id"]] = ob.get("digest", {})
            words += ob.get("observer_words", 0)
            for p in ob.get("problems", []):
                problems.setdefault(case["id"], set()).add((p["cmp"], p["field"]))
        by_seed[hs] = digests
    case_by_id = {c["id"]: c for c in cases}
    compared = 0
    for cid, c in case_by_id.items():
        ds = [by_seed[hs].get(cid) for hs in by_seed]
        if any(d is None for d in ds):
            run.case(None, nontrivial=False)
            continue
        compared += 1
        ref = ds[0]
        for hs, d in zip(list(by_seed)[1:], ds[1:]):
            for k in sorted(set(ref) | set(d)):
                if ref.get(k) != d.get(k):
                    problems.setdefault(cid, set()).add(("fresh-process-or-hash-seed", k.split(".", 1)[1] if "." in k else k))
        src = c["recipe"]["src"]
        feat = src[3] if src[0] == "gen" and src[3] else ("fixture" if src[0] == "fx" else "clean")
        fmt = src[1] if src[0] == "gen" else c["kind"]
        mutated = bool(c["recipe"].get("op"))
        seen = set()
        for cmp_, field in sorted(problems.get(cid, ())):
            key = f"C06:{fmt}:{cmp_}:{field}"
            seen.add(key)
            run.violation(key, f"{fmt} ({feat}{', mutated ' + c['recipe']['op'] if mutated else ''}, {src}): {cmp_}: {field} differs", {"case": c})
        run.case(f"{c['kind']}:{feat}:{mutated}:{len(ref)}:{','.join(sorted(seen))}", nontrivial=bool(ref) and "$exc" not in ref,
                 sample={"kind": c["kind"], "src": src, "op": c["recipe"].get("op"), "fields_digested": len(ref), "problems": sorted(seen)} if cid % 53 == 0 else None)
    run.count("inputs_compared_across_4_hash_seeds", compared)
    run.count("observer_words_walked", words)
    run.require("inputs_compared_across_4_hash_seeds", compared, run.n(200, 2000))
    run.require("observer_words_walked", words, run.n(500, 5000))


def replay(run, doc):
    case = doc["case"]["case"]
    for hs in ("0", "1"):
        for c, ob in pool.run_cases("checks.c06:work", [case], workers=1, deadline_s=300, hashseed=hs):
            print(hs, {k: v for k, v in ob.items() if k != "digest"})
    run.case("replay")
    run.case("replay2")
