"""C03 — see DESIGN.md §8; ground-truth documents (vlib/gen) x real extractors x the oracle in vlib/gen/expect.py."""
from vlib import doccheck

LEVEL = "exploration"


def main(run):
    run.rule = RULE
    run.assumptions = ASSUMPTIONS
    doccheck.run_property(run, relevant=RELEVANT)


def replay(run, doc):
    doccheck.replay_case(run, doc)


RULE = ("case = one generated multi-unit document; distinct = (format, feature, #units, symptom set); non-trivial = iterate_units() was consumed and unit count, "
        "numbering, per-unit token attribution and (for the formats the property lists) join equality were judged")
ASSUMPTIONS = ["flowing-text formats (docx, odt, doc, rtf without page breaks) may yield one unit or one per heading section; only coverage/attribution is judged there"]
RELEVANT = None
