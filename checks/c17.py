"""C17 — removed markup is removed completely and takes nothing else with it.

Workload: vlib/gen/htmlgrammar.py writes HTML bodies whose every text leaf is a unique class-tagged
token (b/v visible before/after a removed construct, r inside script/style/noscript/iframe/object/
embed/applet or a comment, u unjudged).  Each body is pushed through four carriers in sandboxed
workers: read_html (.html file), read_mhtml (multipart/related built with the stdlib email package),
read_epub (own minimal EPUB, body as a chapter) and read_msg_format_mail (own minimal Outlook .msg
written with vlib/gen/cfb.py: subject, transport headers, the body in PidTagHtml, optionally a plain
alternative in PidTagBody; what the library's own _looks_like_html() says about the body is recorded).
Every sixth clean EPUB body is additionally read as the chapter BEHIND a chapter that ends with something
still open (G.CHAPTER_ENDINGS, cycled; twin: that chapter ends properly): content documents are
independent, the judged chapter must come out as on its own (chapter-after-open-ended-chapter).
An .msg body that does not "announce" itself (G.announces_html: no doctype / <html / <body / bare
<p> <div> <br> <span> <table> <tr> <td>) is a known mechanism of its own
(msg-html-fragment-without-common-tag): such a fragment goes into the clean MSG case wrapped in
<div>..</div>, and unwrapped into a risky case whose control twin is the wrapped one.  The MHTML root part is text/html (quoted-printable / base64 / 8bit) or, in about 3 of 10 archives,
application/xhtml+xml / application/xml sent 8bit: no part is labelled text/html then and the library
finds the document by searching the raw archive bytes (a counting stand-in for
mhtml_extractor._RE_RAW_HTML proves that path was taken; the body is then a complete <html>..</html>
document).  EML and mbox are not carriers: they return an HTML-only body as raw HTML
(documented in the README), no removal is claimed there.

Oracle (parent, pure function of ground truth + observation): tokenise get_full_text(), the unit
texts and the table cells with the fixed token regex.  r token anywhere (also headings/links/title)
=> leaked; b token nowhere => preceding-text-lost; v token nowhere => following-text-lost; visible
token more than once in the full text (or more than once in the tables) => duplicated.  "Extracted"
means full text OR table cell (the EPUB parser keeps cell text in the chapter's tables only).

"Takes nothing else with it" is judged against a reference: the same document with every removable
construct deleted (Body.render(strip=True)), pushed through the same carrier with the same parameters.
The visible tokens of the real document must come out in the same order as in the reference
(=> reordered), in the same place, full text vs. table cell, as often (=> placement-changed) and two
visible tokens must not be glued together where the reference keeps them apart (=> glued).  Nothing
absolute is demanded about white space, order or decoration: only that removing the element changed
nothing else.  Every (construct name x position) body and a seeded share of all others get a reference.

Known mechanisms: a body is clean or carries exactly one risky construct and is run together with
its control twin (same body, benign form).  Risky families (vlib/gen/htmlgrammar.py RISKY): bare void
child / bare <embed> / stray end tag / unclosed start tag inside a removed element, the latter two
also with the tag of ANOTHER removable element (</iframe> inside noscript, <object> left open inside
iframe), a document that ends inside an unterminated comment / declaration / PI (twin: terminated), and an
orphan end tag of a removable element between removed elements (twin: an empty element).  The visible
fillers include complete comments AROUND and BETWEEN visible markup (downlevel-revealed conditional
comment pairs, a comment opening like a conditional one and closed by a plain -->): each comment is a
construct of its own, deleted in the reference, the markup between them is ordinary visible text.  Key = C17:<carrier>:<risky feature|clean>:<symptom>.
"""
from __future__ import annotations

import io
import itertools
from collections import Counter

LEVEL = "exploration"
CARRIERS = ("html", "mhtml", "epub", "msg")
_X = {}


# ------------------------------------------------------------------------------------------ worker side
def work_init(init: dict) -> None:
    from sharepoint2text.parsing.extractors.epub_extractor import read_epub
    from sharepoint2text.parsing.extractors.html_extractor import read_html
    from sharepoint2text.parsing.extractors.mail import msg_email_extractor as msgx
    from sharepoint2text.parsing.extractors.mhtml_extractor import read_mhtml

    _X.update(read_html=read_html, read_mhtml=read_mhtml, read_epub=read_epub, msgx=msgx)
    # monitor: the last-resort search of the raw archive bytes (mhtml_extractor._RE_RAW_HTML) counts its calls
    from sharepoint2text.parsing.extractors import mhtml_extractor as mx
    pat = getattr(mx, "_RE_RAW_HTML", None)
    if pat is not None and not isinstance(pat, _CountingPattern):
        mx._RE_RAW_HTML = _CountingPattern(pat)


_RAW_SEARCH = {"hits": 0}


class _CountingPattern:
    """Stands in for a compiled pattern of the library and counts how often it is used."""

    def __init__(self, pat):
        self._pat = pat

    def __getattr__(self, name):
        attr = getattr(self._pat, name)
        if name in ("search", "match", "finditer", "findall", "sub", "fullmatch"):
            def counted(*a, **k):
                _RAW_SEARCH["hits"] += 1
                return attr(*a, **k)
            return counted
        return attr


def carrier_bytes(carrier: str, doc: str, params: dict) -> bytes:
    from vlib.gen import htmlgrammar as G

    if carrier == "html":
        data = doc.encode("utf-8")
        return (b"\xef\xbb\xbf" + data) if params.get("bom") else data
    if carrier == "mhtml":
        return G.render_mhtml(doc, params)
    if carrier == "epub":
        return G.render_epub(doc, params)
    raise ValueError(carrier)


def sequence(text: str) -> tuple[list, list]:
    """Tokens of ``text`` in order of appearance, and the adjacent pairs with nothing at all between them."""
    from vlib.gen import htmlgrammar as G

    seq, glued, prev = [], [], None
    for m in G.TOKEN_RE.finditer(text):
        if prev is not None and prev.end() == m.start():
            glued.append([prev.group(), m.group()])
        seq.append(m.group())
        prev = m
    return seq, glued


def work(case: dict) -> dict:
    from vlib import worker
    from vlib.gen import htmlgrammar as G

    if not _X:
        work_init({})
    worker.arm_cpu(float(case.get("cpu", 10)))
    carrier, doc, params = case["carrier"], case["doc"], case.get("params", {})
    find = G.TOKEN_RE.findall
    obs: dict = {"cid": case.get("cid")}
    try:
        if carrier == "msg":
            if hasattr(_X["msgx"], "_looks_like_html"):
                obs["looks_like_html"] = bool(_X["msgx"]._looks_like_html(doc))
            res = list(_X["msgx"].read_msg_format_mail(io.BytesIO(G.render_msg(doc, params)), path="case.msg"))
            obs["n_results"] = len(res)
            full = "\n".join(r.get_full_text() for r in res)
            units = [u.get_text() for r in res for u in r.iterate_units()] + [r.body_plain or "" for r in res]
            cells = [str(c) for r in res for t in r.iterate_tables() for row in t.get_table() for c in row]
            other = [str(r.subject or "") for r in res]
            obs["html_fallback"] = any(not r.body_plain and bool(r.body_html) for r in res)
        else:
            data = carrier_bytes(carrier, doc, params)
            fn = _X["read_" + carrier]
            if carrier == "mhtml":
                _RAW_SEARCH["hits"] = 0
            res = list(fn(io.BytesIO(data), path="case." + carrier))
            if carrier == "mhtml":
                obs["raw_search"] = _RAW_SEARCH["hits"]
            obs["n_results"] = len(res)
            full = "\n".join(r.get_full_text() for r in res)
            units = [u.get_text() for r in res for u in r.iterate_units()]
            cells = [str(c) for r in res for t in r.iterate_tables() for row in t.get_table() for c in row]
            other = []
            for r in res:
                if carrier == "epub":
                    other += [ch.title for ch in r.chapters] + [str(x) for x in r.toc]
                else:
                    other += [h.get("text", "") for h in r.headings] + [l.get("text", "") for l in r.links] + [r.metadata.title or ""]
    except worker.CpuBudget:
        raise
    except Exception as e:
        obs["exc"] = f"{type(e).__name__}: {e}"[:300]
        return obs
    if case.get("literal"):
        obs["literal_ok"] = case["literal"] in full
    obs["seq"], obs["glued"] = sequence(full)
    obs["cellseq"], obs["cellglued"] = sequence("\n".join(cells))
    obs["full"] = dict(Counter(find(full)))
    obs["units"] = dict(Counter(find("\n".join(units))))
    obs["cells"] = dict(Counter(find("\n".join(cells))))
    obs["other"] = sorted(set(find("\n".join(other))))
    obs["n_units"] = len(units)
    obs["excerpt"] = full[:400]
    return obs


# ------------------------------------------------------------------------------------------ oracle
def judge(tokens: dict, obs: dict) -> list[tuple[str, str]]:
    """Symptoms of one observation against the ground truth; [] = property held on this case."""
    if obs.get("_timeout") or obs.get("_cpu_exhausted"):
        return [("hang", f"no result within the CPU/wall budget (cpu_s={obs.get('cpu_s')})")]
    if obs.get("_died") or obs.get("_oom"):
        return [("crash", f"worker died rc={obs.get('returncode')} {obs.get('stderr', '')[-200:]}")]
    if "exc" in obs:
        return [("raised", obs["exc"])]
    full, units, cells = obs["full"], obs["units"], obs["cells"]
    present = set(full) | set(units) | set(cells)
    everywhere = present | set(obs["other"])
    out = []
    leaked = [t for t, c in tokens.items() if c == "r" and t in everywhere]
    lost_b = [t for t, c in tokens.items() if c == "b" and t not in present]
    lost_v = [t for t, c in tokens.items() if c == "v" and t not in present]
    dup = [t for t, c in tokens.items() if c in "bv" and (full.get(t, 0) > 1 or cells.get(t, 0) > 1)]
    foreign = [t for t in everywhere if t not in tokens]
    if leaked:
        out.append(("leaked", f"{len(leaked)} hidden token(s) in the output, e.g. {leaked[:3]}"))
    if lost_v:
        out.append(("following-text-lost", f"{len(lost_v)} visible token(s) after a removed construct missing, e.g. {lost_v[:3]}"))
    if lost_b:
        out.append(("preceding-text-lost", f"{len(lost_b)} visible token(s) before the first removed construct missing, e.g. {lost_b[:3]}"))
    if dup:
        out.append(("duplicated", f"{len(dup)} visible token(s) extracted more than once, e.g. {dup[:3]}"))
    if obs.get("literal_ok") is False and not (lost_b or lost_v):
        out.append(("text-altered", "the document's last words are extracted, but not literally"))
    if foreign:
        out.append(("foreign-token", f"token(s) that are not in the document: {foreign[:3]}"))
    return out


def judge_vs_ref(tokens: dict, obs: dict, ref: dict, absolute: list) -> tuple[list[tuple[str, str]], int]:
    """Symptoms of an observation against the reference (same document, removable constructs deleted).

    Returns (symptoms, number of adjacent visible pairs whose order / separation was compared)."""
    vis = {t for t, c in tokens.items() if c in "bv"}
    out, compared = [], 0
    explained = any(s in ("following-text-lost", "preceding-text-lost", "duplicated") for s, _ in absolute)
    for where, k_seq, k_glued in (("full text", "seq", "glued"), ("table cells", "cellseq", "cellglued")):
        a = [t for t in obs[k_seq] if t in vis]
        b = [t for t in ref[k_seq] if t in vis]
        if Counter(a) != Counter(b):
            if not explained:
                d = sorted((Counter(a) - Counter(b)) + (Counter(b) - Counter(a)))
                out.append(("placement-changed", f"{where}: {d[:3]} extracted {[a.count(x) for x in d[:3]]}x, without the removed markup {[b.count(x) for x in d[:3]]}x"))
            continue
        compared += max(len(a) - 1, 0)
        if a != b:
            i = next(i for i, (x, y) in enumerate(zip(a, b)) if x != y)
            out.append(("reordered", f"{where}: visible tokens come out as {a[max(i - 1, 0):i + 3]}, without the removed markup as {b[max(i - 1, 0):i + 3]}"))
        rg = {tuple(p) for p in ref[k_glued]}
        g = [p for p in obs[k_glued] if p[0] in vis and p[1] in vis and tuple(p) not in rg]
        if g:
            out.append(("glued", f"{where}: {g[:2]} run together, without the removed markup they are apart"))
    seen = set()
    return [x for x in out if not (x[0] in seen or seen.add(x[0]))], compared


# ------------------------------------------------------------------------------------------ case construction
_XH = ('<?xml version="1.0" encoding="utf-8"?>\n<html xmlns="http://www.w3.org/1999/xhtml"><head><title>Ch</title></head>\n<body>\n',
       "\n</body></html>\n")


def epub_doc(doc: str, wrapper: str) -> str:
    if wrapper == "fragment":
        return _XH[0] + doc + _XH[1]
    if wrapper == "body-only":
        return '<html xmlns="http://www.w3.org/1999/xhtml"><head><title>Ch</title></head>\n' + doc + "\n</html>\n"
    return doc


QUIET = "msg-html-fragment-without-common-tag"
AFTER_OPEN = "chapter-after-open-ended-chapter"


def carrier_params(rng, carrier: str) -> dict:
    if carrier == "html":
        return {"bom": rng.random() < 0.15}
    if carrier == "mhtml":
        # root: media type of the root part; anything but text/html sends the library to its raw search of the archive bytes
        return {"cte": rng.choice(("quoted-printable", "quoted-printable", "base64", "8bit")), "related": rng.random() < 0.7,
                "root": rng.choice(("text/html",) * 7 + ("application/xhtml+xml", "application/xhtml+xml", "application/xml"))}
    if carrier == "msg":
        return {"plain_too": rng.random() < 0.3, "tree": rng.choice(("balanced", "balanced", "chain"))}
    if carrier == "epub":
        return {"media": rng.choice(("xhtml", "xhtml", "html")), "dir": rng.choice(("OEBPS/", "OEBPS/", "")),
                "deflate": rng.random() < 0.8, "second": rng.random() < 0.3}
    return {}


def build_cases(run, bodies, ref_share: float = 1.0) -> tuple[list[dict], dict]:
    """One case per (body, carrier) (+ the control twin of a risky body, + the reference document: bodies with
    ``want_ref`` always, the others with probability ``ref_share``).  Returns (cases, meta by cid)."""
    from vlib.gen import htmlgrammar as G

    rng = run.rng
    cases, meta = [], {}
    n_epub_clean = 0
    for bi, body in enumerate(bodies):
        doc = body.render()
        twin = body.render(benign=True) if body.risky else None
        ref = body.render(strip=True) if (body.want_ref or rng.random() < ref_share) else None
        for carrier in (("epub",) if body.epub_only else CARRIERS):
            params = carrier_params(rng, carrier)
            tokens = dict(body.tokens)
            d, t, rf = doc, twin, ref
            if carrier == "mhtml" and params["root"] != "text/html" and body.risky == "unterminated-trailing-construct":
                params["root"] = "text/html"        # a broken-off document has no </html>: nothing for a raw search to find
            if carrier == "epub" or (carrier == "mhtml" and params["root"] != "text/html"):
                d = epub_doc(d, body.wrapper)       # a complete (X)HTML document around fragments
                t = epub_doc(t, body.wrapper) if t else None
                rf = epub_doc(rf, body.wrapper) if rf else None
                if params.get("second"):
                    extra = f"qv{rng.randrange(90000, 99999):05d}z"
                    if extra in tokens:
                        params["second"] = False
                    else:
                        tokens[extra] = "v"
                        params["second"] = _XH[0] + f"<p>{extra}</p>" + _XH[1]
            groups = [(None, tokens, (("main", d, params), ("twin", t, params), ("ref", rf, params)))]
            if carrier == "msg" and not all(G.announces_html(x) for x in (d, t, rf) if x):
                assert body.wrapper == "fragment"
                wrap = lambda x: f"<div>{x}</div>" if x else None
                groups = [(None, tokens, (("main", wrap(d), params), ("twin", wrap(t), params), ("ref", wrap(rf), params)))]
                if body.risky is None:
                    groups.append((QUIET, tokens, (("main", d, params), ("twin", wrap(d), params))))
            if carrier == "epub" and body.risky is None:
                n_epub_clean += 1
                if n_epub_clean % 6 == 0:
                    # the same chapter BEHIND a chapter that ends with something still open (twin: that chapter ends properly)
                    ending = G.CHAPTER_ENDINGS[(n_epub_clean // 6) % len(G.CHAPTER_ENDINGS)]
                    vis, unj = (f"q{c}{rng.randrange(90000, 99999):05d}z" for c in "vu")
                    if vis not in tokens and unj not in tokens and vis[2:] != unj[2:]:
                        tk = dict(tokens, **{vis: "v", unj: "u"})
                        closers = (n_epub_clean // 6 // len(G.CHAPTER_ENDINGS)) % 2 == 1
                        pm = dict(params, before=G.open_ended_chapter(ending, vis, unj, False, closers), ending=ending[0])
                        pt = dict(params, before=G.open_ended_chapter(ending, vis, unj, True, closers), ending=ending[0])
                        groups.append((AFTER_OPEN, tk, (("main", d, pm), ("twin", d, pt))))
            for grisky, tk, roles in groups:
                group = len(meta)
                for role, dd, pp in roles:
                    if dd is None:
                        continue
                    cid = len(meta)
                    meta[cid] = {"body": bi, "carrier": carrier, "role": role, "group": group, "tokens": tk, "params": pp, "doc": dd,
                                 "risky": grisky or body.risky}
                    cases.append({"cid": cid, "carrier": carrier, "doc": dd, "params": pp})
                    if body.literal:
                        cases[-1]["literal"] = body.literal
                        meta[cid]["literal"] = body.literal
    return cases, meta


def _what(body, carrier, role, doc, syms, obs) -> str:
    s = "; ".join(f"{k}: {v}" for k, v in syms)
    return (f"[{carrier}/{role}] {s} | features={sorted(body.features)} risky={body.risky} | doc={doc[:700]!r} "
            f"| output starts {obs.get('excerpt', '')[:200]!r}")


def evaluate(run, bodies, cases, meta, results) -> None:
    from vlib.gen import htmlgrammar as G

    groups: dict[int, dict] = {}
    for cid, m in meta.items():
        groups.setdefault(m["group"], {})[m["role"]] = cid
    feat_hist: Counter = Counter()
    endings_seen: Counter = Counter()
    el_carrier: Counter = Counter()
    for g, roles in sorted(groups.items()):
        m = meta[roles["main"]]
        body, carrier = bodies[m["body"]], m["carrier"]
        grisky = m["risky"]
        verdicts = {}
        ref_obs = None
        for role in ("ref", "main", "twin"):
            if role not in roles:
                continue
            cid = roles[role]
            obs = results.get(cid)
            if obs is None or "_harness_error" in obs or obs.get("_startup"):
                run.inconclusive_cases += 1
                run.count("harness_errors")
                if obs and len(run.extras.setdefault("harness_error_samples", [])) < 3:
                    run.extras["harness_error_samples"].append(str(obs)[:500])
                verdicts[role] = None
                continue
            if (obs.get("_timeout") and 0 <= obs.get("cpu_s", -1) < 5):
                run.inconclusive_cases += 1          # wall watchdog without CPU use: the machine, not the code
                verdicts[role] = None
                continue
            if carrier == "msg" and obs.get("html_fallback") and not any(c in "bv" for c in meta[cid]["tokens"].values()):
                # README: a mail returns body_plain when present, else body_html.  A body without any visible text has no
                # body_plain, the raw HTML is the documented unit; nothing about removal is claimed for it.
                run.count("msg_body_without_visible_text_documented_html_fallback")
                verdicts[role] = None
                continue
            syms = judge(meta[cid]["tokens"], obs)
            if role == "ref":
                if not syms:
                    ref_obs = obs
                    run.count(f"references_usable_{carrier}")
            elif ref_obs is not None and "full" in obs:
                more, compared = judge_vs_ref(meta[cid]["tokens"], obs, ref_obs, syms)
                syms = syms + more
                run.count(f"compared_with_reference_{carrier}")
                run.count(f"adjacent_visible_pairs_compared_{carrier}", compared)
                if role == "main" and any(f.startswith("pos:ctx-") for f in body.features):
                    run.count(f"context_positions_compared_{carrier}")
            verdicts[role] = syms
            outcome = "+".join(s for s, _ in syms) or "ok"
            feats = sorted(body.features | ({"risky:" + grisky} if grisky and role == "main" else set()))
            run.case(f"{carrier}|{role}|{','.join(feats)}|{outcome}",
                     sample={"carrier": carrier, "role": role, "risky": grisky, "doc": meta[cid]["doc"][:300], "outcome": outcome})
            run.count(f"cases_{carrier}")
            if carrier == "mhtml":
                run.count("mhtml_root_" + meta[cid]["params"].get("root", "text/html"))
                if obs.get("raw_search"):
                    run.count("mhtml_raw_search_path_taken")
                    if role == "main" and body.features & {"c:raw:document-write", "c:normal:full-document", "c:comment:page-skeleton"}:
                        run.count("mhtml_raw_search_with_document_inside_removed_content")
            if carrier == "msg" and role == "main" and body.wrapper == "fragment" and any(f.startswith("long:") for f in body.features) \
                    and body.features & {"pos:doc-start", "pos:head"} and "full" in obs:
                run.count("msg_long_preamble_first_in_fragment")
            if carrier == "msg" and role != "ref":
                run.count("msg_looks_like_html_" + str(bool(obs.get("looks_like_html"))).lower())
            if carrier == "epub" and role == "main":
                run.count("epub_chapter_wellformed_xml_" + str(G.is_wellformed_xml(meta[cid]["doc"])).lower())
            if "full" in obs and role != "ref":
                tk = meta[cid]["tokens"]
                present = set(obs["full"]) | set(obs["units"]) | set(obs["cells"])
                for c in "bvru":
                    run.count(f"tokens_{'judged' if c != 'u' else 'unjudged'}_{c}", sum(1 for x in tk.values() if x == c))
                run.count(f"visible_tokens_confirmed_present_{carrier}", sum(1 for t, c in tk.items() if c in "bv" and t in present))
                run.count(f"hidden_tokens_confirmed_absent_{carrier}", sum(1 for t, c in tk.items() if c == "r" and t not in present))
            if role == "main":
                for f in feats:
                    feat_hist[f] += 1
                for s in body.constructs:
                    el_carrier[f"{s['name']}@{carrier}"] += 1
        main_syms, twin_syms = verdicts.get("main"), verdicts.get("twin")

        def rep(role):
            cid = roles[role]
            return {"carrier": carrier, "role": role, "doc": meta[cid]["doc"], "params": meta[cid]["params"], "tokens": meta[cid]["tokens"],
                    "risky": grisky, "features": sorted(body.features),
                    "twin_doc": meta[roles["twin"]]["doc"] if "twin" in roles else None,
                    "ref_doc": meta[roles["ref"]]["doc"] if "ref" in roles else None, "recipe": body.recipe()}

        for s_, _ in (verdicts.get("ref") or []):      # the reference holds no removable markup at all: a clean document
            run.violation(f"C17:{carrier}:clean:{s_}", _what(body, carrier, "ref", meta[roles["ref"]]["doc"], verdicts["ref"], results[roles["ref"]]), rep("ref"))

        if grisky is None:
            for s, _ in (main_syms or []):
                run.violation(f"C17:{carrier}:clean:{s}", _what(body, carrier, "main", meta[roles["main"]]["doc"], main_syms, results[roles["main"]]), rep("main"))
            continue
        run.count(f"risky_pairs_{grisky}_{carrier}")
        if grisky == AFTER_OPEN and main_syms is not None and twin_syms is not None:
            endings_seen[m["params"]["ending"]] += 1
        if twin_syms:
            for s, _ in twin_syms:      # the twin is a clean document
                run.violation(f"C17:{carrier}:clean:{s}", _what(body, carrier, "twin", meta[roles["twin"]]["doc"], twin_syms, results[roles["twin"]]), rep("twin"))
        elif twin_syms is not None:
            run.count("control_twins_clean")
        if main_syms:
            feature = grisky if twin_syms == [] else grisky + "+twin-not-clean"
            for s, _ in main_syms:
                run.violation(f"C17:{carrier}:{feature}:{s}", _what(body, carrier, "main", meta[roles["main"]]["doc"], main_syms, results[roles["main"]])
                              + (f" | the chapter in front ends with: {m['params']['ending']}" if m["params"].get("ending") else ""), rep("main"))
            run.count(f"risky_cases_with_symptom_{grisky}")
        elif main_syms is not None:
            run.count(f"risky_cases_without_symptom_{grisky}")
    run.extras["chapter_endings_before_judged_chapter"] = dict(sorted(endings_seen.items()))
    run.extras["features"] = dict(sorted(feat_hist.items()))
    run.extras["constructs_per_carrier"] = dict(sorted(el_carrier.items()))


def main(run) -> None:
    from vlib import pool
    from vlib.gen import htmlgrammar as G

    rng = run.rng
    run.rule = ("case = (carrier, role main|twin, feature set of the body, outcome class); non-trivial = the extractor returned "
                "and its full text / unit texts / table cells were tokenised and compared with the body's ground truth")
    run.assumptions = [
        "inside/outside a removable element follows the HTML tokenisation rules where unambiguous; debatable constructs are not generated (list in vlib/gen/htmlgrammar.py docstring)",
        "the visible skeleton is well-formed; malformed markup only occurs inside removable constructs, except in the unterminated-trailing-construct family where the input breaks off inside a comment / declaration / PI (closing tags cut, last paragraph or div left open) — twin and reference share the same broken-off skeleton",
        "an input that ends inside an unterminated comment, declaration or processing instruction is comment to the end of input (HTML tokenisation): its tokens are hidden, nothing visible follows",
        "order / separation / placement of visible text is only judged relative to the same document with the removable constructs deleted, never absolutely",
        "MSG path = read_msg_format_mail on a minimal synthetic .msg (vlib/gen/cfb.py) with the body in PidTagHtml; EML/mbox return raw HTML and are out of scope; an MSG body without any visible text falls back to the raw HTML as documented (README) and is not judged",
        "the EPUB chapter parser is html.parser based (not XML), so the same tag-soup bodies are used; self-closed removable elements are judged in EPUB (XHTML) only",
        "risky constructs are placed at non-table positions only (inside table cells the same mechanisms also eat the cell end tag and show as other symptoms)",
    ]
    bodies = list(itertools.chain(
        G.systematic_clean(rng),
        G.systematic_epub_only(rng),
        G.systematic_preambles(rng),
        G.systematic_bare_tails(rng),
        G.quiet_fragments(rng, run.n(30, 400)),
        G.systematic_risky(rng),
        G.random_clean(rng, run.n(750, 30000)),
        G.random_risky(rng, run.n(250, 8000)),
    ))
    for b in bodies:        # generator self-check: twin shares the ground truth, tokens are really in the document
        d = b.render()
        assert set(G.TOKEN_RE.findall(d)) == set(b.tokens), "generator: token table does not match document"
        if b.risky:
            assert set(G.TOKEN_RE.findall(b.render(benign=True))) == set(b.tokens) and b.render(benign=True) != d
        assert set(G.TOKEN_RE.findall(b.render(strip=True))) == {t for t, c in b.tokens.items() if c != "r"}, "generator: reference document"
    cases, meta = build_cases(run, bodies, run.n(0.15, 0.3))
    results = {}
    for case, obs in pool.run_cases("checks.c17:work", cases, deadline_s=40.0, rlimit_as=2 << 30):
        results[case["cid"]] = obs
    evaluate(run, bodies, cases, meta, results)

    run.count("bodies", len(bodies))
    run.count("bodies_risky", sum(1 for b in bodies if b.risky))
    c = run.counters
    for carrier in CARRIERS:
        run.require(f"cases_{carrier}", c.get(f"cases_{carrier}", 0), run.n(800, 10000))
        run.require(f"visible_tokens_confirmed_present_{carrier}", c.get(f"visible_tokens_confirmed_present_{carrier}", 0), run.n(5000, 60000))
        run.require(f"hidden_tokens_confirmed_absent_{carrier}", c.get(f"hidden_tokens_confirmed_absent_{carrier}", 0), run.n(1500, 20000))
        run.require(f"compared_with_reference_{carrier}", c.get(f"compared_with_reference_{carrier}", 0), run.n(400, 9000))
        run.require(f"adjacent_visible_pairs_compared_{carrier}", c.get(f"adjacent_visible_pairs_compared_{carrier}", 0), run.n(3000, 50000))
        run.require(f"context_positions_compared_{carrier}", c.get(f"context_positions_compared_{carrier}", 0), run.n(100, 1500))
        for name in G.NAMES:
            run.require(f"constructs_{name}@{carrier}", run.extras["constructs_per_carrier"].get(f"{name}@{carrier}", 0), 40)
        for f in G.RISKY:
            run.require(f"risky_pairs_{f}_{carrier}", c.get(f"risky_pairs_{f}_{carrier}", 0), 10)
    for cls in "bvr":
        run.require(f"tokens_judged_{cls}", c.get(f"tokens_judged_{cls}", 0), run.n(3000, 40000))
    run.require("mhtml_raw_search_path_taken", c.get("mhtml_raw_search_path_taken", 0), run.n(300, 5000))
    run.require("mhtml_raw_search_with_document_inside_removed_content", c.get("mhtml_raw_search_with_document_inside_removed_content", 0), run.n(15, 300))
    seen = run.extras["chapter_endings_before_judged_chapter"]
    run.require("chapter_endings_in_front_of_a_judged_chapter", sum(1 for e in G.CHAPTER_ENDINGS if seen.get(e[0], 0) >= run.n(3, 40)), len(G.CHAPTER_ENDINGS))
    run.require(f"risky_pairs_{QUIET}_msg", c.get(f"risky_pairs_{QUIET}_msg", 0), run.n(20, 300))
    run.require("msg_long_preamble_first_in_fragment", c.get("msg_long_preamble_first_in_fragment", 0), run.n(12, 40))
    run.require("msg_bodies_that_look_like_html", c.get("msg_looks_like_html_true", 0), run.n(600, 8000))
    need = [f"pos:{p}" for p in G.POSITIONS] + [f"attr:{a}" for a in G.ATTR_KINDS] + [f"case:{k}" for k in G.CASE_KINDS] + \
           [f"close:{k}" for k in G.CLOSE_KINDS] + [f"c:raw:{k}" for k in G.RAW_KINDS] + [f"c:normal:{k}" for k in G.NORMAL_KINDS] + \
           [f"c:comment:{k}" for k in G.COMMENT_KINDS] + [f"c:embed:{k}" for k in G.EMBED_KINDS] + ["c:normal:selfclosed-removable"] + \
           [f"tail:{k}" for k in G.TAIL_KINDS] + [f"trunc:{k}" for k in G.TRUNC_KINDS] + list(G.FILLER_FEATURES) + ["end:bare-text-with-ampersand"] + [f"long:{n}" for n in G.LONG_SIZES] + \
           ["c:normal:orphan-endtag", "c:raw:orphan-endtag"]
    missing = [f for f in need if run.extras["features"].get(f, 0) < 4]
    run.require("grammar_features_covered", len(need) - len(missing), len(need))
    if missing:
        run.extras["features_missing"] = missing
    total = sum(c.get(f"cases_{k}", 0) for k in CARRIERS)
    if run.inconclusive_cases > 0.02 * max(total, 1):
        run.inconclusive(f"{run.inconclusive_cases} of {total} cases inconclusive (>2 %)")


def replay(run, doc: dict) -> None:
    from vlib import pool

    c = doc["case"]
    cases = [{"cid": 0, "carrier": c["carrier"], "doc": c["doc"], "params": c.get("params", {})}]
    if c.get("twin_doc") and c.get("role") == "main":
        cases.append({"cid": 1, "carrier": c["carrier"], "doc": c["twin_doc"], "params": c.get("params", {})})
    if c.get("ref_doc") and c.get("role") != "ref":
        cases.append({"cid": 2, "carrier": c["carrier"], "doc": c["ref_doc"], "params": c.get("params", {})})
    res = {}
    for case, obs in pool.run_cases("checks.c17:work", cases, workers=1, deadline_s=40.0):
        res[case["cid"]] = obs
    print("document:\n" + c["doc"])
    ref = res.get(2) if 2 in res and "_harness_error" not in res[2] and judge(c["tokens"], res[2]) == [] else None

    def full_judge(obs):
        syms = judge(c["tokens"], obs)
        if ref is not None and "full" in obs:
            syms = syms + judge_vs_ref(c["tokens"], obs, ref, syms)[0]
        return syms

    for cid, obs in sorted(res.items()):
        syms = (judge(c["tokens"], obs) if cid == 2 else full_judge(obs)) if "_harness_error" not in obs else [("harness", str(obs))]
        print(f"--- {('recorded case', 'control twin', 'reference (removable markup deleted)')[cid]}: symptoms={syms}\n    output excerpt: {obs.get('excerpt', '')!r}")
        run.case(f"replay|{cid}")
        if cid == 0:
            twin_dirty = 1 in res and "_harness_error" not in res[1] and full_judge(res[1])
            feature = "clean" if not c.get("risky") or c.get("role") in ("twin", "ref") else (c["risky"] + ("+twin-not-clean" if twin_dirty else ""))
            for s, why in syms:
                run.violation(f"C17:{c['carrier']}:{feature}:{s}", why, c)
