"""C08 — encrypted input is rejected as encrypted (before any content), plain input never is.

(plain, protected) pairs are built from generated documents for each protection mechanism; the worker runs both members
of a pair through the direct extractor, read_file and the CLI and records results / exception type.  PDFs are encrypted
in the parent with pypdf's writer over the *reference* AES (vlib/gen/pdfenc.py), so the repository's own AES decrypts
what an independent implementation encrypted (also feeding C20 end-to-end).
"""
from __future__ import annotations

import io
import os
import random
import struct
import sys
import zipfile

from vlib import core, pool

LEVEL = "exploration"


def work_init(init):
    import logging
    logging.disable(logging.CRITICAL)
    import sharepoint2text  # noqa
    import sharepoint2text.cli  # noqa
    from vlib import corpus, obs
    for k in corpus.KINDS:
        obs.extractor(k)


# ------------------------------------------------------------------------------------------ pair builders (worker side unless noted)
def _ooxml_in_cfb(plain: bytes, rng, variant: str) -> bytes:
    from vlib.gen import cfb
    streams = {}
    if variant in ("both", "info-only"):
        streams["EncryptionInfo"] = struct.pack("<HHI", 4, 4, 0x40) + b"<encryption/>" + bytes(rng.randrange(256) for _ in range(64))
    if variant in ("both", "package-only"):
        streams["EncryptedPackage"] = struct.pack("<Q", len(plain)) + bytes(rng.randrange(256) for _ in range(max(4096, len(plain) // 2)))
    streams["\x06DataSpaces/Version"] = b"\x3c\x00\x00\x00" + "Microsoft.Container.DataSpaces".encode("utf-16-le")
    streams["\x06DataSpaces/DataSpaceMap"] = bytes(rng.randrange(256) for _ in range(64))
    return cfb.make_cfb(streams)


def _odf_manifest_variant(plain: bytes, variant: str) -> bytes:
    """Rewrite META-INF/manifest.xml of a generated ODF."""
    zin = zipfile.ZipFile(io.BytesIO(plain))
    out = io.BytesIO()
    with zipfile.ZipFile(out, "w") as z:
        for zi in zin.infolist():
            data = zin.read(zi)
            if zi.filename == "META-INF/manifest.xml":
                text = data.decode()
                enc = ('<manifest:encryption-data manifest:checksum-type="urn:oasis:names:tc:opendocument:xmlns:manifest:1.0#sha256-1k" manifest:checksum="AAAA">'
                       '<manifest:algorithm manifest:algorithm-name="http://www.w3.org/2001/04/xmlenc#aes256-cbc" manifest:initialisation-vector="AAAA"/>'
                       '<manifest:key-derivation manifest:key-derivation-name="PBKDF2" manifest:key-size="32" manifest:iteration-count="100000" manifest:salt="AAAA"/></manifest:encryption-data>')
                if variant in ("encrypted", "encrypted-utf16-manifest", "encrypted-utf16be-manifest", "encrypted-doctype-manifest"):
                    text = text.replace('<manifest:file-entry manifest:full-path="content.xml" manifest:media-type="text/xml"/>',
                                        f'<manifest:file-entry manifest:full-path="content.xml" manifest:media-type="text/xml" manifest:size="123">{enc}</manifest:file-entry>')
                elif variant == "encrypted-other-prefix":
                    text = text.replace("manifest:", "m:").replace("xmlns:m=", "xmlns:m=")
                    text = text.replace('<m:file-entry m:full-path="content.xml" m:media-type="text/xml"/>',
                                        '<m:file-entry m:full-path="content.xml" m:media-type="text/xml" m:size="123"><m:encryption-data m:checksum="AAAA"><m:algorithm m:algorithm-name="x"/></m:encryption-data></m:file-entry>')
                elif variant == "plain-name-contains-trigger":
                    text = text.replace("</manifest:manifest>", '<manifest:file-entry manifest:full-path="Pictures/encryption-data-diagram.png" manifest:media-type="image/png"/></manifest:manifest>')
                elif variant == "plain-comment-contains-trigger":
                    text = text.replace("</manifest:manifest>", "<!-- no manifest:algorithm here, this file is not encrypted --></manifest:manifest>")
                if "doctype" in variant:
                    # the DOCTYPE line OpenOffice.org 1.x/2.x wrote into every manifest (no internal subset, no entities)
                    import re as _re
                    decl = _re.match(r"^<\?xml[^>]*\?>\s*", text)
                    head = decl.group(0) if decl else ""
                    text = head + '<!DOCTYPE manifest:manifest PUBLIC "-//OpenOffice.org//DTD Manifest 1.0//EN" "Manifest.dtd">\n' + text[len(head):]
                    if "name-contains-trigger" in variant:
                        text = text.replace("</manifest:manifest>", '<manifest:file-entry manifest:full-path="Pictures/encryption-data-flow.png" manifest:media-type="image/png"/></manifest:manifest>')
                data = text.encode()
                if "utf16" in variant:
                    # the same manifest in another legal XML encoding: UTF-16 with byte-order mark (and a declaration saying so)
                    import re as _re
                    text16 = _re.sub(r"^<\?xml[^>]*\?>", "", text)
                    text16 = '<?xml version="1.0" encoding="UTF-16"?>' + text16
                    data = (b"\xff\xfe" + text16.encode("utf-16-le")) if "utf16be" not in variant else (b"\xfe\xff" + text16.encode("utf-16-be"))
            if variant.startswith("encrypted") and zi.filename == "content.xml":
                data = bytes((b * 7 + 3) & 0xFF for b in data[:200])      # ciphertext-looking garbage
            z.writestr(zipfile.ZipInfo(zi.filename, date_time=zi.date_time), data, zipfile.ZIP_STORED if zi.filename == "mimetype" else zipfile.ZIP_DEFLATED)
    return out.getvalue()


def _ole_variant(plain: bytes, fmt: str, variant: str, rng) -> bytes:
    from vlib.gen import cfb
    streams = dict(cfb.read_cfb(plain))
    if fmt == "doc":
        w = bytearray(streams["WordDocument"])
        w[0x0B] |= 0x01                      # fEncrypted (bit 8 of the flags word at 0x0A)
        if variant == "fib-flag-word95-signature":
            w[0:2] = b"\xdc\xa5"             # wIdent of Word 6.0/95 (the reader accepts both signatures; both keep the flag word at 0x0A)
        streams["WordDocument"] = bytes(w)
    elif fmt == "xls":
        wb = streams["Workbook"]
        filepass = struct.pack("<HH", 0x002F, 6) + b"\x01\x00\x01\x00\x01\x00"
        # record boundaries
        offs, o = [], 0
        while o + 4 <= len(wb):
            offs.append(o)
            o += 4 + int.from_bytes(wb[o + 2:o + 4], "little")
        pos = {"after-bof": offs[1], "later": offs[min(len(offs) - 1, 4)], "before-first-eof": offs[-1] if len(offs) < 3 else offs[len(offs) // 3]}[variant]
        streams["Workbook"] = wb[:pos] + filepass + wb[pos:]
    elif fmt == "ppt":
        if variant == "encrypted-summary":
            streams["EncryptedSummary"] = bytes(rng.randrange(256) for _ in range(128))
        elif variant == "encrypted-summary-information":
            streams["EncryptedSummaryInformation"] = bytes(rng.randrange(256) for _ in range(128))
        else:
            streams["EncryptionInfo"] = bytes(rng.randrange(256) for _ in range(128))
    return cfb.make_cfb(streams)


def _epub_variant(plain: bytes, variant: str) -> bytes:
    zin = zipfile.ZipFile(io.BytesIO(plain))
    out = io.BytesIO()
    with zipfile.ZipFile(out, "w") as z:
        for zi in zin.infolist():
            z.writestr(zipfile.ZipInfo(zi.filename, date_time=zi.date_time), zin.read(zi), zipfile.ZIP_STORED if zi.filename == "mimetype" else zipfile.ZIP_DEFLATED)
        if variant == "encryption-xml":
            z.writestr("META-INF/encryption.xml", '<?xml version="1.0"?><encryption xmlns="urn:oasis:names:tc:opendocument:xmlns:container" xmlns:enc="http://www.w3.org/2001/04/xmlenc#">'
                       '<enc:EncryptedData><enc:EncryptionMethod Algorithm="http://www.w3.org/2001/04/xmlenc#aes128-cbc"/><enc:CipherData><enc:CipherReference URI="OEBPS/text/ch1.xhtml"/></enc:CipherData></enc:EncryptedData></encryption>')
        elif variant == "rights-xml":
            z.writestr("META-INF/rights.xml", '<?xml version="1.0"?><adept:rights xmlns:adept="http://ns.adobe.com/adept"><licenseToken/></adept:rights>')
        elif variant in ("rights-xml+empty-encryption-xml", "rights-xml+encrypted-key-only"):
            # Adobe licence token next to an encryption.xml that lists no EncryptedData: still a DRM-protected book
            z.writestr("META-INF/rights.xml", '<?xml version="1.0"?><adept:rights xmlns:adept="http://ns.adobe.com/adept"><licenseToken/></adept:rights>')
            inner = "" if "empty" in variant else '<enc:EncryptedKey Id="EK"><enc:EncryptionMethod Algorithm="http://www.w3.org/2001/04/xmlenc#rsa-1_5"/><enc:CipherData><enc:CipherValue>AAAA</enc:CipherValue></enc:CipherData></enc:EncryptedKey>'
            z.writestr("META-INF/encryption.xml", '<?xml version="1.0"?><encryption xmlns="urn:oasis:names:tc:opendocument:xmlns:container" xmlns:enc="http://www.w3.org/2001/04/xmlenc#">' + inner + "</encryption>")
        elif variant == "rights-xml+encryption-xml":
            z.writestr("META-INF/rights.xml", '<?xml version="1.0"?><adept:rights xmlns:adept="http://ns.adobe.com/adept"><licenseToken/></adept:rights>')
            z.writestr("META-INF/encryption.xml", '<?xml version="1.0"?><encryption xmlns="urn:oasis:names:tc:opendocument:xmlns:container" xmlns:enc="http://www.w3.org/2001/04/xmlenc#">'
                       '<enc:EncryptedData><enc:EncryptionMethod Algorithm="http://www.w3.org/2001/04/xmlenc#aes128-cbc"/><enc:CipherData><enc:CipherReference URI="OEBPS/text/ch1.xhtml"/></enc:CipherData></enc:EncryptedData></encryption>')
        elif variant == "plain-font-obfuscation-only":
            # encryption.xml without EncryptedData elements (empty) must NOT make the book 'encrypted'
            z.writestr("META-INF/encryption.xml", '<?xml version="1.0"?><encryption xmlns="urn:oasis:names:tc:opendocument:xmlns:container"/>')
    return out.getvalue()


def build_pair(case):
    """-> (kind, ext, plain bytes, variant bytes, expect_encrypted: bool)"""
    from vlib.gen import archives, docs, sevenz
    mech, fmt, variant, seed = case["mech"], case["fmt"], case["variant"], case["seed"]
    rng = random.Random(f"c08:{seed}:{mech}:{variant}")
    if mech == "pdf":
        return "pdf", ".pdf", core.unb64(case["plain_b64"]), core.unb64(case["variant_b64"]), case["expect_encrypted"]
    if mech == "fixture":
        data = (core.FIXTURES / case["path"]).read_bytes()
        return case["kind"], case["ext"], None, data, True
    if mech in ("zip-flag", "7z-aes"):
        members = [{"name": f"m{i}.txt", "data": f"qa{seed % 1000:03d}{i:02d}z member {i}\n".encode()} for i in range(rng.randint(1, 4))]
        plain = archives.build("zip-deflated" if mech == "zip-flag" else "7z-lzma-solid", members)
        if mech == "zip-flag" and variant in ("hidden-member", "unsupported-member", "nested-archive-member"):
            extra = {"hidden-member": ".credentials.txt", "unsupported-member": "keys.bin", "nested-archive-member": "inner.zip"}[variant]
            enc_members = members + [{"name": extra, "data": b"secret bytes", "encrypted": True}]
            rng.shuffle(enc_members)
            return "zip", ".zip", plain, archives.build("zip-deflated", enc_members), True
        if mech == "zip-flag" and variant == "plain-non-ascii-member-names":
            # zipfile sets general-purpose bit 11 (names are UTF-8) on such members: a flag word that is not zero, and not encryption
            named = [dict(m, name=["\u00dcbersicht %d.txt", "\u5831\u544a %d.txt", "r\u00e9sum\u00e9 %d.txt", "plain %d.txt"][i % 4] % i) for i, m in enumerate(members)]
            return "zip", ".zip", archives.build("zip-deflated", members), archives.build("zip-deflated", named), False
        if mech == "zip-flag" and variant == "plain-unsupported-compression-method":
            # a member stored with a method zipfile cannot decode (9 = Deflate64): unreadable, but not encrypted -> must not be
            # *rejected as encrypted*; whether and how it fails otherwise is not this property's business (expect_encrypted None)
            import struct
            raw = bytearray(plain)
            i, j = raw.find(b"PK\x03\x04"), raw.find(b"PK\x01\x02")
            raw[i + 8:i + 10] = struct.pack("<H", 9)
            raw[j + 10:j + 12] = struct.pack("<H", 9)
            return "zip", ".zip", plain, bytes(raw), None
        if mech == "zip-flag":
            idx = {"first": 0, "last": len(members) - 1, "only": 0}[variant]
            if variant == "only":
                members = members[:1]
                plain = archives.build("zip-deflated", members)
            enc_members = [dict(m, encrypted=(i == idx)) for i, m in enumerate(members)]
            return "zip", ".zip", plain, archives.build("zip-deflated", enc_members), True
        entries = [{"name": m["name"], "data": m["data"]} for m in members]
        if variant == "main-folder":
            return "zip", ".7z", plain, sevenz.make_7z(entries, coder=sevenz.AES, layout="solid"), True
        if variant == "encrypted-header":
            return "zip", ".7z", plain, sevenz.make_7z(entries, coder=sevenz.LZMA, layout="solid", encoded_header=True, header_coder=sevenz.AES), True
        if variant == "one-of-several-folders":
            return "zip", ".7z", plain, sevenz.make_7z(entries + [{"name": "z.txt", "data": b"x"}], layout="per-file", mixed_coders=[sevenz.LZMA, sevenz.AES]), True
        raise ValueError(variant)
    if mech == "wrong-container":
        # a plain file of one container family under a name of another family (report.doc saved as report.docx): unreadable for that
        # reader, but not encrypted -> the only demand is "not rejected as encrypted" (expect_encrypted None)
        src_fmt, as_fmt = variant.split("-as-")
        data, _ = docs.build(src_fmt, seed)
        return docs.BUILDERS[as_fmt][2], docs.BUILDERS[as_fmt][3], None, data, None
    plain, _ = docs.build(fmt, seed)
    kind, ext = docs.BUILDERS[fmt][2], docs.BUILDERS[fmt][3]
    if mech == "ooxml-cfb":
        return kind, ext, plain, _ooxml_in_cfb(plain, rng, variant), True
    if mech == "odf-manifest":
        return kind, ext, plain, _odf_manifest_variant(plain, variant), variant.startswith("encrypted")
    if mech == "ole-flag":
        return kind, ext, plain, _ole_variant(plain, fmt, variant, rng), True
    if mech == "epub-drm":
        return kind, ext, plain, _epub_variant(plain, variant), not variant.startswith("plain")
    raise ValueError(mech)


def _run_entry(kind, ext, data, entry, tmpdir):
    """-> {"n": results before end/raise, "exc": record|None, "text": digest of texts, "cli_exit", ...}"""
    from vlib import obs
    import hashlib
    out = {"entry": entry}
    texts = []
    if entry in ("direct", "direct-unrewound", "direct-after-sniff"):
        n = 0
        stream = io.BytesIO(data)
        if entry == "direct-unrewound":
            stream = io.BytesIO()
            stream.write(data)              # a buffer the caller filled and did not rewind
        elif entry == "direct-after-sniff":
            stream.read(8)                  # the caller looked at the magic bytes first
        try:
            for r in obs.extractor(kind)(stream, "dir/in" + ext):
                n += 1
                texts.append((r.get_full_text(), [u.get_text() for u in r.iterate_units()], [obs.sha1(i.get_bytes().read()) for i in r.iterate_images()]))
        except Exception as e:
            out["exc"] = obs.exc_record(e, n)
        out["n"] = n
    elif entry == "attachment":
        # the input as a named, typed attachment of an .eml: EmailContent.iterate_supported_attachments() is an entry point too
        import mimetypes
        from email.message import EmailMessage
        from email import policy
        m = EmailMessage()
        m["From"], m["To"], m["Subject"] = "Sender <sender@example.org>", "rcpt@example.org", "carrier"
        m["Date"], m["Message-ID"] = "Mon, 01 Jan 2024 10:00:00 +0000", "<carrier@example.org>"
        m.set_content("body\n")
        ctype = mimetypes.guess_type("in" + ext)[0] or "application/octet-stream"
        m.add_attachment(data, maintype=ctype.split("/")[0], subtype=ctype.split("/", 1)[1], filename="in" + ext)
        n = 0
        out["attachments_seen"] = 0
        try:
            for mail in obs.extractor("eml")(io.BytesIO(m.as_bytes(policy=policy.SMTP)), "dir/carrier.eml"):
                out["attachments_seen"] += len(mail.attachments)
                out["attachment_supported"] = [bool(a.is_supported_mime_type) for a in mail.attachments]
                for r in mail.iterate_supported_attachments():
                    n += 1
                    texts.append((r.get_full_text(), [u.get_text() for u in r.iterate_units()], [obs.sha1(i.get_bytes().read()) for i in r.iterate_images()]))
        except Exception as e:
            out["exc"] = obs.exc_record(e, n)
        out["n"] = n
    else:
        p = os.path.join(tmpdir, "in" + ext)
        with open(p, "wb") as f:
            f.write(data)
        if entry == "read_file":
            import sharepoint2text
            n = 0
            try:
                for r in sharepoint2text.read_file(p):
                    n += 1
                    texts.append((r.get_full_text(), [u.get_text() for u in r.iterate_units()], [obs.sha1(i.get_bytes().read()) for i in r.iterate_images()]))
            except Exception as e:
                out["exc"] = obs.exc_record(e, n)
            out["n"] = n
        else:
            from sharepoint2text import cli
            so, se = io.StringIO(), io.StringIO()
            old = sys.stdout, sys.stderr
            sys.stdout, sys.stderr = so, se
            try:
                out["cli_exit"] = cli.main([p])
            except BaseException as e:
                out["cli_exit"] = f"raised {type(e).__name__}"
            finally:
                sys.stdout, sys.stderr = old
            out["cli_stdout_len"] = len(so.getvalue())
            out["cli_stderr"] = se.getvalue()[:200]
    out["digest"] = hashlib.sha1(repr(texts).encode()).hexdigest()[:16]
    return out


def work(case):
    import tempfile
    from vlib.worker import arm_cpu
    arm_cpu(120)
    kind, ext, plain, variant, expect_enc = build_pair(case)
    res = {"expect_encrypted": expect_enc, "kind": kind, "plain": {}, "variant": {}}
    with tempfile.TemporaryDirectory(prefix="verif-c08-") as td:
        for entry in ("direct", "direct-unrewound", "direct-after-sniff", "read_file", "cli", "attachment"):
            if plain is not None:
                res["plain"][entry] = _run_entry(kind, ext, plain, entry, td)
            res["variant"][entry] = _run_entry(kind, ext, variant, entry, td)
    return res


def encrypt_work(case):
    """Separate pool task: encrypt a generated PDF with pypdf's writer over the reference AES (the repository is not involved)."""
    from vlib.gen import pdfenc, pdfw
    plain, _ = pdfw.build_pdf(case["seed"], case.get("feature"))
    enc = pdfenc.encrypt_pdf(plain, case["alg"], case["pw"], **({"owner_password": case["owner"]} if "owner" in case else {}))
    return {"plain_b64": core.b64(plain), "variant_b64": core.b64(enc)}


# ------------------------------------------------------------------------------------------ parent
def gen_cases(run):
    from vlib.gen import pdfenc, pdfw
    rng = run.rng
    cid = 0
    reps = run.n(4, 40)
    base = run.seed * 10000

    def mk(**kw):
        nonlocal cid
        cid += 1
        return dict(id=cid, **kw)
    for r in range(reps):
        for fmt in ("docx", "pptx", "xlsx"):
            for variant in ("both", "info-only", "package-only"):
                yield mk(mech="ooxml-cfb", fmt=fmt, variant=variant, seed=base + r)
        for fmt in ("odt", "odp", "ods", "odg"):
            for variant in ("encrypted", "encrypted-other-prefix", "encrypted-utf16-manifest", "encrypted-utf16be-manifest", "plain-utf16-manifest", "plain-name-contains-trigger", "plain-comment-contains-trigger",
                            "plain-doctype-manifest", "plain-doctype-manifest+name-contains-trigger", "encrypted-doctype-manifest"):
                yield mk(mech="odf-manifest", fmt=fmt, variant=variant, seed=base + r)
        yield mk(mech="ole-flag", fmt="doc", variant="fib-flag", seed=base + r)
        yield mk(mech="ole-flag", fmt="doc", variant="fib-flag-word95-signature", seed=base + r)
        for variant in ("doc-as-docx", "xls-as-xlsx", "ppt-as-pptx", "xls-as-docx", "doc-as-odt", "ppt-as-odp", "docx-as-doc", "xlsx-as-xls", "pptx-as-ppt", "odt-as-docx", "docx-as-odt", "pdf-as-docx", "rtf-as-doc"):
            yield mk(mech="wrong-container", fmt=variant.split("-as-")[1], variant=variant, seed=base + r)
        for variant in ("after-bof", "later", "before-first-eof"):
            yield mk(mech="ole-flag", fmt="xls", variant=variant, seed=base + r)
        for variant in ("encrypted-summary", "encrypted-summary-information", "encryption-info"):
            yield mk(mech="ole-flag", fmt="ppt", variant=variant, seed=base + r)
        for variant in ("first", "last", "only", "hidden-member", "unsupported-member", "nested-archive-member", "plain-unsupported-compression-method", "plain-non-ascii-member-names"):
            yield mk(mech="zip-flag", fmt="zip", variant=variant, seed=base + r)
        for variant in ("main-folder", "one-of-several-folders", "encrypted-header"):
            yield mk(mech="7z-aes", fmt="7z", variant=variant, seed=base + r)
        for variant in ("encryption-xml", "rights-xml", "rights-xml+empty-encryption-xml", "rights-xml+encrypted-key-only", "rights-xml+encryption-xml", "plain-font-obfuscation-only"):
            yield mk(mech="epub-drm", fmt="epub", variant=variant, seed=base + r)
    # PDFs: encrypted by a separate pool task (reference AES), then handed to the extraction workers
    jobs = []
    for r in range(run.n(3, 25)):
        feat = [None, "multi-image-pages", "large-image"][r % 3]      # (large-image: a file above 10 KiB, far below the documented 10 MB image-skip limit)
        for alg in ("RC4-40", "RC4-128", "AES-128", "AES-256"):
            if alg == "AES-256" and r >= run.n(1, 6):
                continue        # the R6 key derivation costs seconds per file with pure-Python AES on both sides
            for pw in ("", "s3cret"):
                jobs.append({"seed": base + r, "feature": feat, "alg": alg, "pw": pw})
            if alg != "AES-256":
                # the owner password left at its default, which is the user password: both empty (opens without a prompt)
                jobs.append({"seed": base + r, "feature": feat, "alg": alg, "pw": "", "owner": ""})
                jobs.append({"seed": base + r, "feature": feat, "alg": alg, "pw": "s3cret", "owner": "s3cret"})
    for job, ob in pool.run_cases("checks.c08:encrypt_work", jobs, deadline_s=300):
        if "variant_b64" not in ob:
            run.inconclusive(f"could not encrypt a generated PDF with {job['alg']}: {str(ob)[:200]}")
            continue
        yield mk(mech="pdf", fmt="pdf", variant=f"{job['alg']}:{'empty' if not job['pw'] else 'nonempty'}-user-password{'+same-owner-password' if 'owner' in job else ''}", seed=job["seed"],
                 plain_b64=ob["plain_b64"], variant_b64=ob["variant_b64"], expect_encrypted=bool(job["pw"]))
    for p in core.fixtures(include_protected=True):
        if "password_protected" in p.parts:
            name = p.name.lower()
            ext = "." + name.rsplit(".", 1)[-1]
            from vlib import corpus
            kind = corpus.EXT_KIND.get(ext)
            if kind:
                yield mk(mech="fixture", fmt=ext[1:], variant=p.name, seed=0, path=str(p.relative_to(core.FIXTURES)), kind=kind, ext=ext)


def main(run):
    run.rule = ("case = one (plain, protected-or-lookalike) pair for a protection mechanism, run through the direct extractor, read_file and the CLI; distinct = (mechanism, format, variant, outcome per entry point); "
                "non-trivial = both members of the pair were run through all three entry points and judged")
    run.assumptions = ["PDFs are encrypted by pypdf's writer over the reference AES in the parent process; the repository's AES only decrypts",
                       "OOXML/legacy protected files are containers with the marker streams / flags, not real ciphertext: the property is about rejection before content is returned"]
    mechs = {}
    for case, ob in pool.run_cases("checks.c08:work", gen_cases(run), deadline_s=300):
        rep = {"case": {k: v for k, v in case.items() if not k.endswith("_b64")}}
        if "plain_b64" in case:
            rep["case"]["variant_b64"] = case["variant_b64"]
            rep["case"]["plain_b64"] = case["plain_b64"]
            rep["case"]["expect_encrypted"] = case["expect_encrypted"]
        if ob.get("_harness_error"):
            run.inconclusive("harness error: " + ob["_harness_error"])
            print(ob.get("_tb"))
            continue
        if ob.get("_timeout") or ob.get("_died") or ob.get("_cpu_exhausted") or ob.get("_oom"):
            run.inconclusive_cases += 1
            run.case(None, nontrivial=False)
            continue
        mech, fmt, variant = case["mech"], case["fmt"], case["variant"]
        label = f"{mech}:{fmt}:{variant}" if mech != "fixture" else f"fixture:{fmt}:protected"
        seen = set()

        def v(sym, detail):
            key = f"C08:{fmt}:{mech}/{variant if mech != 'fixture' else 'protected-fixture'}:{sym}"
            if key not in seen:
                seen.add(key)
                run.violation(key, f"{label} (seed {case['seed']}): {detail}", rep)
        exp_enc = ob["expect_encrypted"]
        for entry in ("direct", "direct-unrewound", "direct-after-sniff", "read_file", "cli", "attachment"):
            pv, vv = ob["plain"].get(entry), ob["variant"].get(entry)
            if vv is None:
                continue
            if entry == "attachment":
                # judged only where the attachment route exists for this type: the library itself calls the attachment's MIME type
                # supported, and (where there is a plain twin) the twin came out through the same route
                routed = any(vv.get("attachment_supported") or []) and (pv is None or (pv.get("n", 0) >= 1 and not pv.get("exc")))
                if not routed:
                    continue
                run.count("pairs_judged_through_attachment_iterator")
            # the plain member must never be rejected as encrypted
            if pv is not None:
                if entry != "cli":
                    if pv.get("exc") and pv["exc"]["name"] == "ExtractionFileEncryptedError":
                        v("plain-input-rejected-as-encrypted", f"plain twin via {entry}: {pv['exc']['msg']}")
                    elif pv.get("exc"):
                        v("plain-twin-not-extracted", f"plain twin via {entry}: {pv['exc']['name']}: {pv['exc']['msg']}")
                elif pv.get("cli_exit") != 0:
                    v("plain-twin-cli-failed", f"plain twin: CLI exit {pv.get('cli_exit')}: {pv.get('cli_stderr')}")
            if exp_enc is None:
                # unreadable for another reason: the only demand is "not rejected as encrypted"
                exc = vv.get("exc") if entry != "cli" else None
                if exc is not None and exc["name"] == "ExtractionFileEncryptedError":
                    v("unencrypted-input-rejected-as-encrypted", f"via {entry}: {exc['msg']}")
                if entry == "cli" and "ncrypted" in (vv.get("cli_stderr") or "") and vv.get("cli_exit") != 0:
                    v("unencrypted-lookalike-cli-rejected", f"CLI exit {vv.get('cli_exit')}: {vv.get('cli_stderr')}")
            elif exp_enc:
                if entry == "cli":
                    if vv.get("cli_exit") != 1 or vv.get("cli_stdout_len"):
                        v("protected-input-cli-not-rejected", f"CLI exit {vv.get('cli_exit')} with {vv.get('cli_stdout_len')} chars on stdout for a protected input")
                else:
                    exc = vv.get("exc")
                    if exc is None:
                        v("protected-input-yields-results", f"{vv.get('n')} result(s) via {entry} for a protected input")
                    elif exc["name"] != "ExtractionFileEncryptedError":
                        v(f"protected-input-rejected-as-{exc['name']}", f"via {entry}: {exc['name']} ({exc['cause']}): {exc['msg']}")
                    elif exc["yielded_before"]:
                        v("content-returned-before-rejection", f"{exc['yielded_before']} result(s) yielded before the encrypted error via {entry}")
            else:
                # not encrypted (look-alike, or PDF with the empty user password): must extract, and equal the plain original
                if entry == "cli":
                    if vv.get("cli_exit") != 0:
                        v("unencrypted-lookalike-cli-rejected", f"CLI exit {vv.get('cli_exit')}: {vv.get('cli_stderr')}")
                else:
                    exc = vv.get("exc")
                    if exc is not None and exc["name"] == "ExtractionFileEncryptedError":
                        v("unencrypted-input-rejected-as-encrypted", f"via {entry}: {exc['msg']}")
                    elif exc is not None:
                        v(f"unencrypted-input-fails-{exc['name']}", f"via {entry}: {exc['msg']} ({exc['cause']})")
                    elif pv is not None and vv.get("digest") != pv.get("digest"):
                        v("content-differs-from-unencrypted-original", f"via {entry}: text/units/images differ from the plain original")
        mechs[f"{mech}:{fmt}"] = mechs.get(f"{mech}:{fmt}", 0) + 1
        outcomes = ",".join(f"{e}:{(ob['variant'][e].get('exc') or {}).get('name', ob['variant'][e].get('cli_exit', 'ok'))}" for e in ("direct", "direct-unrewound", "direct-after-sniff", "read_file", "cli", "attachment") if e in ob["variant"])
        run.case(f"{label}:{outcomes}:{','.join(sorted(seen))}", sample={"mechanism": mech, "format": fmt, "variant": variant, "expect_encrypted": exp_enc, "outcomes": outcomes, "violations": sorted(seen)} if case["id"] % 23 == 0 else None)
    run.extras["pairs_per_mechanism"] = mechs
    run.count("mechanism_format_combinations", len(mechs))
    run.require("mechanism_format_combinations", len(mechs), 20)
    run.require("pairs_judged_through_attachment_iterator", run.counters.get("pairs_judged_through_attachment_iterator", 0), 40)


def replay(run, doc):
    case = doc["case"]["case"]
    for c, ob in pool.run_cases("checks.c08:work", [case], workers=1, deadline_s=300):
        print(ob)
    run.case("replay")
    run.case("replay2")
