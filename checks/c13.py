"""C13 — see DESIGN.md §8; ground-truth documents (vlib/gen) x real extractors x the oracle in vlib/gen/expect.py."""
from vlib import doccheck

LEVEL = "exploration"


def main(run):
    run.rule = RULE
    run.assumptions = ASSUMPTIONS
    doccheck.run_property(run, relevant=RELEVANT)


def replay(run, doc):
    doccheck.replay_case(run, doc)


RULE = ("case = one generated document with 0..n tables; distinct = (format, feature, #tables, symptom set); non-trivial = iterate_tables() compared with the source grids "
        "(count, order, shape, every cell's tokens / typed value, get_dim)")
ASSUMPTIONS = ["spreadsheets: the sheet is the table; xlsx first row is the header row (documented 'Unnamed: i' for blanks)"]


def RELEVANT(fmt):
    from vlib.gen import docs
    data, exp = docs.build(fmt, 1)
    return exp.tables_claimed
