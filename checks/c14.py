"""C14 — see DESIGN.md §8; ground-truth documents (vlib/gen) x real extractors x the oracle in vlib/gen/expect.py."""
from vlib import doccheck

LEVEL = "exploration"


def main(run):
    run.rule = RULE
    run.assumptions = ASSUMPTIONS
    doccheck.run_property(run, relevant=RELEVANT)


def replay(run, doc):
    doccheck.replay_case(run, doc)


RULE = ("case = one generated document embedding 0..k raster images (PNG/JPEG/GIF/BMP); distinct = (format, feature, #images, symptom set); non-trivial = iterate_images() "
        "compared with the placed files (sha1 of bytes, order, content type, pixel size where the format reports the file's own size, running number, unit attribution, unit vs document view)")
ASSUMPTIONS = ["ODF frames declare a display size, not the file's pixel size: size is not judged there", "a picture shared by two frames of one ODG page: multiplicity unclaimed"]


def RELEVANT(fmt):
    from vlib.gen import docs
    data, exp = docs.build(fmt, 1)
    return exp.images_claimed
