"""C20 — the built-in AES equals FIPS-197 AES (ECB/CBC), stream wrapper contract, ValueError on bad lengths.

Monitor shape: icontract post-conditions on the *real* mode functions and on pypdf's patched
CryptAES methods compare every call's result with an independently written AES
(vlib/gen/aes_ref.py).  The workload then drives those functions directly, through the bindings
``patch_pypdf_fallback_aes()`` installs in pypdf, with hostile key sets (shared prefixes across
key sizes, more live keys than the round-key cache holds, bytearray/memoryview inputs).
Finite sub-spaces (tables, ShiftRows positions, MixColumns basis) are enumerated completely.
"""
from __future__ import annotations

import importlib

LEVEL = "exploration"
MODNAME = "sharepoint2text.parsing.extractors.pdf._pypdf_aes_fallback"


class ContractBroken(AssertionError):
    pass


def main(run):
    import icontract
    from vlib.gen import aes_ref as R

    R.self_test()
    M = importlib.import_module(MODNAME)
    run.rule = ("case = (function, key length, #blocks, input kind); non-trivial = the monitored real function "
                "returned and its result was compared with the reference AES (or it raised and the exception type was judged)")
    run.assumptions = ["vlib/gen/aes_ref.py is a correct FIPS-197 implementation (self-tested against FIPS-197 App. C and SP 800-38A F.1/F.2 on every run)"]
    rng = run.rng
    evals = {"ecb_e": 0, "ecb_d": 0, "cbc_e": 0, "cbc_d": 0}
    bad = []

    def note_bad(key, what, rep):
        bad.append(1)
        run.violation(key, what, rep)

    # ---------------------------------------------------------------- contracts on the real functions
    def ecb_e_ok(key, data, result):
        evals["ecb_e"] += 1
        exp = R.ecb_encrypt(bytes(key), bytes(data))
        if result != exp or not isinstance(result, bytes):
            note_bad("C20:aes:ecb-encrypt:differs-from-fips197", f"aes_ecb_encrypt(key={bytes(key).hex()}, data={bytes(data).hex()[:96]}) = {bytes(result).hex()[:96]} expected {exp.hex()[:96]}",
                     {"fn": "aes_ecb_encrypt", "key": bytes(key).hex(), "data": bytes(data).hex()})
        return True

    def ecb_d_ok(key, data, result):
        evals["ecb_d"] += 1
        exp = R.ecb_decrypt(bytes(key), bytes(data))
        if result != exp or not isinstance(result, bytes):
            note_bad("C20:aes:ecb-decrypt:differs-from-fips197", f"aes_ecb_decrypt(key={bytes(key).hex()}, data={bytes(data).hex()[:96]}) = {bytes(result).hex()[:96]} expected {exp.hex()[:96]}",
                     {"fn": "aes_ecb_decrypt", "key": bytes(key).hex(), "data": bytes(data).hex()})
        return True

    def cbc_e_ok(key, iv, data, result):
        evals["cbc_e"] += 1
        exp = R.cbc_encrypt(bytes(key), bytes(iv), bytes(data))
        if result != exp or not isinstance(result, bytes):
            note_bad("C20:aes:cbc-encrypt:differs-from-fips197", f"aes_cbc_encrypt(key={bytes(key).hex()}, iv={bytes(iv).hex()}, data={bytes(data).hex()[:96]}) = {bytes(result).hex()[:96]} expected {exp.hex()[:96]}",
                     {"fn": "aes_cbc_encrypt", "key": bytes(key).hex(), "iv": bytes(iv).hex(), "data": bytes(data).hex()})
        return True

    def cbc_d_ok(key, iv, data, result):
        evals["cbc_d"] += 1
        exp = R.cbc_decrypt(bytes(key), bytes(iv), bytes(data))
        if result != exp or not isinstance(result, bytes):
            note_bad("C20:aes:cbc-decrypt:differs-from-fips197", f"aes_cbc_decrypt(key={bytes(key).hex()}, iv={bytes(iv).hex()}, data={bytes(data).hex()[:96]}) = {bytes(result).hex()[:96]} expected {exp.hex()[:96]}",
                     {"fn": "aes_cbc_decrypt", "key": bytes(key).hex(), "iv": bytes(iv).hex(), "data": bytes(data).hex()})
        return True

    M.aes_ecb_encrypt = icontract.ensure(ecb_e_ok, error=ContractBroken)(M.aes_ecb_encrypt)
    M.aes_ecb_decrypt = icontract.ensure(ecb_d_ok, error=ContractBroken)(M.aes_ecb_decrypt)
    M.aes_cbc_encrypt = icontract.ensure(cbc_e_ok, error=ContractBroken)(M.aes_cbc_encrypt)
    M.aes_cbc_decrypt = icontract.ensure(cbc_d_ok, error=ContractBroken)(M.aes_cbc_decrypt)

    # ---------------------------------------------------------------- finite sub-spaces, complete
    tables = 0
    for name, ref in (("_SBOX", R.SBOX), ("_INV_SBOX", R.INV_SBOX)):
        t = getattr(M, name, None)
        if t is None:
            run.count("table_absent_" + name)
            continue
        for x in range(256):
            tables += 1
            if t[x] != ref[x]:
                run.violation(f"C20:aes:{name.strip('_').lower()}:table-entry-wrong", f"{name}[{x:#x}]={t[x]:#x} expected {ref[x]:#x}", {"table": name, "index": x})
        run.case(f"table:{name}")
    for mul in (2, 3, 9, 11, 13, 14):
        t = getattr(M, f"_MUL{mul}", None)
        if t is None:
            run.count(f"table_absent__MUL{mul}")
            continue
        for x in range(256):
            tables += 1
            if t[x] != R.gmul(x, mul):
                run.violation(f"C20:aes:mul{mul}:table-entry-wrong", f"_MUL{mul}[{x:#x}]={t[x]:#x} expected {R.gmul(x, mul):#x}", {"table": f"_MUL{mul}", "index": x})
        run.case(f"table:_MUL{mul}")
    run.count("table_entries_compared", tables)

    # ShiftRows / InvShiftRows: all 16 positions (a state of 16 distinct values is a permutation witness)
    def ref_perm(fn):
        s = R._to_state(bytes(range(16)))
        return list(R._from_state(fn(s)))

    for name, ref in (("_shift_rows", R.shift_rows), ("_inv_shift_rows", R.inv_shift_rows)):
        f = getattr(M, name, None)
        if f is None:
            run.count("fn_absent_" + name)
            continue
        st = list(range(16))
        f(st)
        exp = ref_perm(ref)
        for pos in range(16):
            run.count("shiftrows_positions")
            if st[pos] != exp[pos]:
                run.violation(f"C20:aes:{name.strip('_')}:position-wrong", f"{name} position {pos}: got source {st[pos]} expected {exp[pos]}", {"fn": name, "pos": pos})
        run.case(f"perm:{name}")
    # MixColumns / inverse on a GF(2) basis of one 32-bit column, in each of the four columns (linearity => sufficient),
    for name, ref in (("_mix_columns", R.mix_columns), ("_inv_mix_columns", R.inv_mix_columns)):
        f = getattr(M, name, None)
        if f is None:
            run.count("fn_absent_" + name)
            continue
        vecs = [(col, byte, bit) for col in range(4) for byte in range(4) for bit in range(8)]
        vecs_extra = [bytes(rng.randrange(256) for _ in range(16)) for _ in range(run.n(200, 5000))]
        for col, byte, bit in vecs:
            blk = bytearray(16)
            blk[4 * col + byte] = 1 << bit
            st = list(blk)
            f(st)
            exp = list(R._from_state(ref(R._to_state(bytes(blk)))))
            run.count("mixcolumns_basis_vectors")
            if st != exp:
                run.violation(f"C20:aes:{name.strip('_')}:basis-vector-wrong", f"{name} on unit vector col={col} byte={byte} bit={bit}: {bytes(st).hex()} expected {bytes(exp).hex()}", {"fn": name, "block": bytes(blk).hex()})
        for blk in vecs_extra:
            st = list(blk)
            f(st)
            exp = list(R._from_state(ref(R._to_state(blk))))
            if st != exp:
                run.violation(f"C20:aes:{name.strip('_')}:random-vector-wrong", f"{name}({blk.hex()}) = {bytes(st).hex()} expected {bytes(exp).hex()}", {"fn": name, "block": blk.hex()})
        run.case(f"linear:{name}")
    # key schedule words, all three key sizes
    ek = getattr(M, "_expand_key", None)
    if ek is not None:
        for klen in (16, 24, 32):
            for _ in range(run.n(50, 2000)):
                key = bytes(rng.randrange(256) for _ in range(klen))
                got = b"".join(ek(key))
                exp = bytes(b for w in R.expand_key(key) for b in w)
                run.count("key_schedules_compared")
                if got != exp:
                    run.violation("C20:aes:key-schedule:word-wrong", f"_expand_key({key.hex()}) differs at byte {next(i for i in range(min(len(got), len(exp))) if got[i] != exp[i]) if len(got) == len(exp) else 'length'}", {"key": key.hex()})
            run.case(f"keyschedule:{klen}")

    # ---------------------------------------------------------------- known answers through the real functions
    h = bytes.fromhex
    for k, p, c in R.KAT_BLOCK + R.KAT_ECB:
        M.aes_ecb_encrypt(h(k), h(p))
        M.aes_ecb_decrypt(h(k), h(c))
        if M.aes_ecb_encrypt(h(k), h(p)) != h(c):
            run.violation("C20:aes:ecb-encrypt:known-answer-wrong", f"FIPS KAT key={k}", {"key": k, "pt": p})
        if M.aes_ecb_decrypt(h(k), h(c)) != h(p):
            run.violation("C20:aes:ecb-decrypt:known-answer-wrong", f"FIPS KAT key={k}", {"key": k, "ct": c})
        run.case(f"kat:ecb:{len(k)}:{len(p)}")
    for k, iv, p, c in R.KAT_CBC:
        if M.aes_cbc_encrypt(h(k), h(iv), h(p)) != h(c):
            run.violation("C20:aes:cbc-encrypt:known-answer-wrong", f"SP800-38A KAT key={k}", {"key": k})
        if M.aes_cbc_decrypt(h(k), h(iv), h(c)) != h(p):
            run.violation("C20:aes:cbc-decrypt:known-answer-wrong", f"SP800-38A KAT key={k}", {"key": k})
        run.case(f"kat:cbc:{len(k)}")

    # ---------------------------------------------------------------- differential workload (hostile key sets)
    n = run.n(4000, 120000)
    base = bytes(rng.randrange(256) for _ in range(32))
    keypool = []
    for _ in range(9):  # more live keys than the cache holds; shared prefixes across key sizes
        b = bytes(rng.randrange(256) for _ in range(32))
        keypool += [b[:16], b[:24], b, base[:16], base[:24], base, base[:16] + b[16:24], base[:24] + b[24:]]
    kinds = (bytes, bytearray, memoryview)
    for i in range(n):
        if rng.random() < 0.6:
            key = rng.choice(keypool)
        else:
            key = bytes(rng.randrange(256) for _ in range(rng.choice((16, 24, 32))))
        nb = rng.choice((0, 1, 1, 1, 2, 2, 3, 4, 7, 10))
        data = bytes(rng.randrange(256) for _ in range(16 * nb)) if rng.random() < 0.9 else bytes([rng.choice((0, 255))]) * (16 * nb)
        iv = bytes(rng.randrange(256) for _ in range(16))
        if rng.random() < 0.15:
            iv = rng.choice([bytes(16), bytes(16), b"\xff" * 16, bytes(15) + b"\x01", b"\x80" + bytes(15)])     # the IVs a fast path would single out (pypdf unwraps file keys with the zero IV)
        kind = rng.choice(kinds)
        op = rng.randrange(4)
        before = len(bad)
        try:
            if op == 0:
                c = M.aes_ecb_encrypt(key, kind(data))
                p = M.aes_ecb_decrypt(key, c)
            elif op == 1:
                p = M.aes_ecb_decrypt(key, kind(data))
                p = data
            elif op == 2:
                c = M.aes_cbc_encrypt(key, kind(iv), kind(data))
                p = M.aes_cbc_decrypt(key, iv, c)
            else:
                p = M.aes_cbc_decrypt(key, kind(iv), kind(data))
                p = data
            if p != data:
                run.violation("C20:aes:roundtrip:decrypt-does-not-invert-encrypt", f"op={op} key={key.hex()} data={data.hex()[:64]}", {"op": op, "key": key.hex(), "iv": iv.hex(), "data": data.hex()})
        except Exception as e:  # totality on valid lengths
            run.violation("C20:aes:valid-input:raised", f"op={op} keylen={len(key)} nblocks={nb} kind={kind.__name__}: {type(e).__name__}: {e}", {"op": op, "key": key.hex(), "iv": iv.hex(), "data": data.hex(), "kind": kind.__name__})
        run.case(f"diff:{op}:{len(key)}:{nb}:{kind.__name__}",
                 sample={"op": ["ecb_e+d", "ecb_d", "cbc_e+d", "cbc_d"][op], "key": key.hex(), "iv": iv.hex(), "blocks": nb, "kind": kind.__name__} if i < 3 else None)
        del before

    # ---------------------------------------------------------------- concurrent callers
    # "for every key, IV and message" does not depend on who else is encrypting: four threads (128-, 192-, 256- and 128-bit keys) run
    # CBC encryption and decryption of their own messages at once, with a short switch interval so that a thread is preempted inside a
    # block; every result is compared with the reference answer computed beforehand in one thread
    import sys as _sys
    import threading
    n_rounds, n_blocks = run.n(12, 120), 40
    jobs = []
    for t in range(4):
        key = bytes(rng.randrange(256) for _ in range((16, 24, 32, 16)[t]))
        iv = bytes(rng.randrange(256) for _ in range(16))
        data = bytes(rng.randrange(256) for _ in range(16 * n_blocks))
        jobs.append((key, iv, data, R.cbc_encrypt(key, iv, data)))
    enc = getattr(M.aes_cbc_encrypt, "__wrapped__", M.aes_cbc_encrypt)       # the functions themselves: the contracts' reference runs would
    dec = getattr(M.aes_cbc_decrypt, "__wrapped__", M.aes_cbc_decrypt)       # serialise the threads
    wrong = [[0, 0, None] for _ in jobs]
    start = threading.Barrier(len(jobs))

    def caller(t):
        key, iv, data, exp_c = jobs[t]
        start.wait()
        for _ in range(n_rounds):
            try:
                c = enc(key, iv, data)
                p = dec(key, iv, exp_c)
            except Exception as e:
                wrong[t][2] = f"{type(e).__name__}: {e}"
                return
            wrong[t][0] += sum(c[i:i + 16] != exp_c[i:i + 16] for i in range(0, len(exp_c), 16))
            wrong[t][1] += sum(p[i:i + 16] != data[i:i + 16] for i in range(0, len(data), 16))

    old_interval = _sys.getswitchinterval()
    _sys.setswitchinterval(1e-5)
    try:
        threads = [threading.Thread(target=caller, args=(t,)) for t in range(len(jobs))]
        for th in threads:
            th.start()
        for th in threads:
            th.join()
    finally:
        _sys.setswitchinterval(old_interval)
    for t, (we, wd, err) in enumerate(wrong):
        key, iv, data, _ = jobs[t]
        if err:
            run.violation("C20:aes:concurrent-callers:raised", f"thread {t} ({8 * len(key)}-bit key): {err}", {"key": key.hex(), "iv": iv.hex(), "data": data.hex(), "threads": len(jobs)})
        elif we or wd:
            run.violation("C20:aes:concurrent-callers:differs-from-fips197", f"thread {t} ({8 * len(key)}-bit key): {we} encrypted and {wd} decrypted blocks of {n_rounds * n_blocks} differ from FIPS-197 while "
                          f"{len(jobs) - 1} other threads use the module; the same calls alone are right", {"key": key.hex(), "iv": iv.hex(), "data": data.hex(), "threads": len(jobs)})
        run.case(f"concurrent:{len(key)}:{'ok' if not (we or wd or err) else 'bad'}")
    run.count("blocks_computed_by_concurrent_callers", 2 * len(jobs) * n_rounds * n_blocks)

    # ---------------------------------------------------------------- wrong lengths -> ValueError
    good_key = bytes(range(16))
    fns = [("aes_ecb_encrypt", lambda k, iv, d: M.aes_ecb_encrypt(k, d)), ("aes_ecb_decrypt", lambda k, iv, d: M.aes_ecb_decrypt(k, d)),
           ("aes_cbc_encrypt", lambda k, iv, d: M.aes_cbc_encrypt(k, iv, d)), ("aes_cbc_decrypt", lambda k, iv, d: M.aes_cbc_decrypt(k, iv, d))]
    for name, f in fns:
        for klen in list(range(0, 41)) + [48, 64]:
            if klen in (16, 24, 32):
                continue
            for dlen in (0, 16, 32):
                _expect_value_error(run, name, f, bytes(klen), bytes(16), bytes(dlen), f"keylen={klen},datalen={dlen}")
        for dlen in [x for x in range(1, 50) if x % 16]:
            _expect_value_error(run, name, f, good_key, bytes(16), bytes(dlen), f"datalen={dlen}")
        if "cbc" in name:
            for ivlen in [x for x in range(0, 40) if x != 16]:
                for dlen in (0, 16):
                    _expect_value_error(run, name, f, good_key, bytes(ivlen), bytes(dlen), f"ivlen={ivlen},datalen={dlen}")

    # ---------------------------------------------------------------- stream wrapper through pypdf's bindings
    patched = M.patch_pypdf_fallback_aes()
    import pypdf._crypt_providers as providers
    run.extras["crypt_provider"] = providers.crypt_provider[0]
    if not patched:
        run.inconclusive("pypdf is not on its fallback provider: the built-in AES is not in use, nothing to monitor")
    else:
        import pypdf._crypt_providers._fallback as fb
        import pypdf._encryption as enc
        for modobj, label in ((fb, "fallback"), (providers, "providers"), (enc, "encryption")):
            for fname in ("aes_ecb_encrypt", "aes_ecb_decrypt", "aes_cbc_encrypt", "aes_cbc_decrypt"):
                bound = getattr(modobj, fname)
                key = bytes(rng.randrange(256) for _ in range(rng.choice((16, 24, 32))))
                data = bytes(rng.randrange(256) for _ in range(32))
                iv = bytes(rng.randrange(256) for _ in range(16))
                got = bound(key, data) if "ecb" in fname else bound(key, iv, data)
                exp = getattr(R, fname[4:])(key, data) if "ecb" in fname else getattr(R, fname[4:])(key, iv, data)
                run.count("pypdf_binding_calls")
                if got != exp:
                    run.violation(f"C20:pypdf-binding:{fname}:differs-from-fips197", f"{label}.{fname} differs", {"module": label, "fn": fname, "key": key.hex(), "iv": iv.hex(), "data": data.hex()})
                run.case(f"binding:{label}:{fname}")
        CryptAES = enc.CryptAES
        reps = run.n(3, 40)
        for klen in (16, 24, 32):
            for mlen in range(0, 65):
                for rep in range(reps):
                    key = bytes(rng.randrange(256) for _ in range(klen))
                    m = bytes(rng.randrange(256) for _ in range(mlen))
                    if rep == 0 and mlen:
                        m = m[:-1] + bytes([rng.choice((1, 2, 16, mlen % 16 or 16))])  # messages that end in pad-like bytes
                    try:
                        ca = CryptAES(key)
                        c1 = ca.encrypt(m)
                        c2 = ca.encrypt(m)
                        d1 = ca.decrypt(c1)
                        dref = ca.decrypt(R.RefCryptAES(key).encrypt(m, bytes(rng.randrange(256) for _ in range(16))))
                    except Exception as e:
                        run.violation("C20:cryptaes:valid-input:raised", f"CryptAES keylen={klen} mlen={mlen}: {type(e).__name__}: {e}", {"key": key.hex(), "m": m.hex()})
                        continue
                    exp1 = R.RefCryptAES(key).encrypt(m, c1[:16])
                    if c1 != exp1:
                        run.violation("C20:cryptaes:encrypt:not-iv-then-cbc-of-padded", f"CryptAES.encrypt keylen={klen} mlen={mlen}: {c1.hex()[:80]} expected {exp1.hex()[:80]}", {"key": key.hex(), "m": m.hex()})
                    if c1[:16] == c2[:16]:
                        run.violation("C20:cryptaes:encrypt:iv-reused", f"two encrypt() calls used the same IV {c1[:16].hex()}", {"key": key.hex(), "m": m.hex()})
                    if d1 != m:
                        run.violation("C20:cryptaes:decrypt:does-not-invert-encrypt", f"keylen={klen} mlen={mlen}: decrypt(encrypt(m))={d1.hex()[:80]} m={m.hex()[:80]}", {"key": key.hex(), "m": m.hex()})
                    if dref != m:
                        run.violation("C20:cryptaes:decrypt:wrong-on-reference-ciphertext", f"keylen={klen} mlen={mlen}: {dref.hex()[:80]} m={m.hex()[:80]}", {"key": key.hex(), "m": m.hex()})
                    run.count("cryptaes_roundtrips")
                    run.case(f"cryptaes:{klen}:{mlen}")

    for k, v in evals.items():
        run.count("contract_evaluations_" + k, v)
        run.require("contract_evaluations_" + k, v, 100)
    run.require("value_error_probes", run.counters.get("value_error_probes", 0), 500)
    run.extras["finite_subspaces_complete"] = {"table_entries": tables, "shiftrows_positions": run.counters.get("shiftrows_positions", 0),
                                               "mixcolumns_basis_vectors": run.counters.get("mixcolumns_basis_vectors", 0)}


def _expect_value_error(run, name, f, key, iv, data, label):
    run.count("value_error_probes")
    try:
        f(key, iv, data)
    except ValueError:
        run.case(f"len:{name}:{label}")
        return
    except Exception as e:
        run.violation(f"C20:aes:{name}:wrong-length-raises-other-than-valueerror", f"{name} {label}: {type(e).__name__}: {e}", {"fn": name, "label": label})
        return
    run.violation(f"C20:aes:{name}:wrong-length-accepted", f"{name} {label}: returned instead of raising ValueError", {"fn": name, "label": label})


def replay(run, doc):
    print(doc)
    main(run)
