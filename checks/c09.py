"""C09 — archive processing is confined: no host file is read or written; the temp dir is gone afterwards.

Monitors: CPython audit hook (open / mkdir / remove / rename / symlink / link / chmod / utime / scandir / rmtree / mkdtemp ...,
dir_fd-relative events resolved through /proc/self/fd), canary files planted where hostile member names point, scan of
every result for canary tokens, listing of the worker's private TMPDIR after the generator is exhausted / closed early /
abandoned / failed in the consumer.  Every event whose resolved path is outside the private TMPDIR is a violation
(read-only opens of interpreter files - lazy imports, mimetypes tables - are the only exception).
"""
from __future__ import annotations

import gc
import io
import os
import random
import shutil

from vlib import pool
from vlib.gen import archives

LEVEL = "exploration"
BEHAVIOURS = ["exhaust", "close-after-1", "abandon", "raise-in-consumer"]


def work_init(init):
    import logging
    logging.disable(logging.CRITICAL)
    import sharepoint2text  # noqa
    import mimetypes
    import tempfile
    from vlib import corpus, obs
    from vlib.mon import fsaudit
    for k in corpus.KINDS:
        obs.extractor(k)
    mimetypes.guess_type("x.txt")
    global RUN_DIR, TMP, OUTSIDE
    RUN_DIR = tempfile.mkdtemp(prefix="verif-c09-")
    TMP = os.path.join(RUN_DIR, "tmp")
    OUTSIDE = os.path.join(RUN_DIR, "outside")
    os.makedirs(TMP)
    os.makedirs(OUTSIDE)
    os.environ["TMPDIR"] = TMP
    tempfile.tempdir = TMP
    import atexit
    atexit.register(lambda: shutil.rmtree(RUN_DIR, ignore_errors=True))
    fsaudit.install()


def _canaries():
    """Plant canary files outside the private TMPDIR; returns {path: token}."""
    out = {}
    for i, rel in enumerate(["canary.txt", "sub/canary.md", "canary.csv"]):
        p = os.path.join(OUTSIDE, rel)
        os.makedirs(os.path.dirname(p), exist_ok=True)
        tok = f"qz9{i:04d}z"
        with open(p, "w") as f:
            f.write(f"{tok} host file content must never appear\n")
        out[p] = tok
    return out


def hostile_names(rng, canaries):
    """The hostile member-name grammar of the property (each with a supported extension so that it would be extracted)."""
    cpaths = list(canaries)
    c0 = cpaths[0]
    rel_up = os.path.relpath(c0, TMP)
    names = [
        c0, cpaths[1], "/etc/hostname.txt", "/repo/README.md", "/repo/CHANGELOG.md",
        "../" * 3 + "outside/canary.txt", "../outside/canary.txt", rel_up, "../../../../../../../../repo/README.md",
        "a/../../outside/canary.txt", "a/b/../../../outside/sub/canary.md", "..\\..\\outside\\canary.txt", "a\\..\\..\\x.txt",
        "C:\\Windows\\x.txt", "C:x.txt", "\\\\server\\share\\x.txt", "//double/slash.txt", "./dot.txt", "a//b.txt", "a/./b.txt",
        "x" * 300 + ".txt", "d/" * 60 + "deep.txt", "ünï/文書 😀.txt", "trailing./x.txt", " lead.txt", "tab\tname.txt", "new\nline.txt",
        "con.txt", "..txt", "...", "..", ".", "", "~/home.txt", "$HOME/x.txt", "%TEMP%\\x.txt", "nul\x00byte.txt",
        ".hidden.txt", "dir/.hidden2.md", "__MACOSX/._res.txt", "__MACOSX/sub/x.txt", "inner.zip", "inner.tar.gz", "deep/inner.7z", "tool.exe", "noext",
        "UPPER.TXT", "mixed.TxT", "report.docx", "data.json",
    ]
    rng.shuffle(names)
    return names


def build_case(seed: int, layout: str):
    rng = random.Random(f"c09:{seed}")
    canaries = _canaries()
    fam = archives.family(layout)
    names = hostile_names(rng, canaries)[: rng.randint(3, 12)]
    members = []
    expect_skip = []
    for i, nm in enumerate(names):
        tok = f"qa{seed % 1000:03d}{i:02d}z"
        data = f"{tok} member payload {i}\n".encode()
        if nm.endswith(".docx"):
            from vlib.gen import docs
            data = docs.build("docx", seed + i)[0]
        if nm.endswith((".zip", ".tar.gz", ".7z")):
            data = archives.build("zip-stored", [{"name": "x.txt", "data": f"{tok} nested".encode()}])
        m = {"name": nm, "data": data, "type": "file"}
        if fam == "7z" and rng.random() < 0.35:
            m["phantom"] = True          # entry flagged as having data, but no stream exists for it
        members.append(m)
        base = nm.replace("\\", "/").rsplit("/", 1)[-1] if fam != "zip" else nm.rsplit("/", 1)[-1]
        if os.path.basename(nm).startswith(".") or nm.startswith("__MACOSX/") or nm.lower().endswith((".zip", ".tar.gz", ".7z", ".exe")) or "." not in os.path.basename(nm):
            expect_skip.append(tok)
    # tar-only hostile member types
    if fam not in ("zip", "7z"):
        c0 = list(canaries)[0]
        extra = [
            {"name": "link-abs.txt", "type": "symlink", "link": c0},
            {"name": "link-rel.txt", "type": "symlink", "link": os.path.relpath(c0, TMP)},
            {"name": "hard.txt", "type": "hardlink", "link": c0},
            {"name": "hard2.txt", "type": "hardlink", "link": "../outside/canary.txt"},
            {"name": "fifo.txt", "type": "fifo"},
            {"name": "dev.txt", "type": "chardev"},
            {"name": "dirlike.txt", "type": "dir"},
        ]
        rng.shuffle(extra)
        members += extra[: rng.randint(1, 5)]
    elif fam == "zip":
        if rng.random() < 0.5:
            members.append({"name": "ziplink.txt", "type": "symlink", "link": list(canaries)[0]})
    # oversize member (> 10 MiB): must be skipped without result
    oversize_tok = None
    if rng.random() < 0.15:
        oversize_tok = f"qo{seed % 100000:05d}z"
        members.append({"name": "big.txt", "data": oversize_tok.encode() + b"\n" + b"0" * (10 * 1024 * 1024 + 5), "type": "file"})
    rng.shuffle(members)
    return members, canaries, expect_skip, oversize_tok


def work(case):
    from vlib import obs
    from vlib.mon import fsaudit
    from vlib.worker import arm_cpu
    arm_cpu(120)
    for leftover in os.listdir(TMP):     # a previous case's leak is that case's finding, not this one's
        shutil.rmtree(os.path.join(TMP, leftover), ignore_errors=True)
    layout = case["layout"]
    members, canaries, expect_skip, oversize_tok = build_case(case["seed"], layout)
    try:
        data = archives.build(layout, members)
    except Exception as e:
        return {"unbuildable": f"{type(e).__name__}: {e}"[:200]}
    if case.get("mutate"):
        from vlib.gen import mutate
        r = random.Random(f"c09m:{case['seed']}")
        data = mutate.byte_mutate(data, r.choice(["bitflip", "numbers", "truncate_tail", "zero", "byteset"]), r)
    canary_stat = {p: (os.stat(p).st_mtime_ns, os.stat(p).st_size, os.stat(p).st_ino) for p in canaries}
    behaviour = case["behaviour"]
    texts, names, n = [], [], 0
    exc = None
    fn = obs.extractor("zip")
    gc.collect()
    fsaudit.arm()
    try:
        gen = fn(io.BytesIO(data), "dir/arch" + archives.ext_of(layout))
        try:
            for r in gen:
                n += 1
                try:
                    texts.append(r.get_full_text())
                    names.append(r.get_metadata().filename)
                except Exception:
                    pass
                if behaviour == "close-after-1":
                    gen.close()
                    break
                if behaviour == "abandon":
                    break
                if behaviour == "raise-in-consumer":
                    raise KeyError("consumer failed")
        except KeyError:
            pass
        if behaviour == "abandon":
            del gen
            r = None
            gc.collect()
        elif behaviour == "raise-in-consumer":
            del gen
            gc.collect()
    except BaseException as e:
        if type(e).__name__ == "CpuBudget":
            fsaudit.disarm()
            raise
        exc = obs.exc_record(e, n)
    finally:
        fsaudit.disarm()
    events = fsaudit.drain()
    outside = []
    for ev in events:
        p = ev.get("path")
        if not isinstance(p, str):
            continue
        rp = os.path.realpath(p) if p.startswith("/") else os.path.realpath(os.path.join(os.getcwd(), p))
        inside = rp == TMP or rp.startswith(TMP + os.sep)
        if ev.get("extra") and isinstance(ev["extra"], str):
            re_ = os.path.realpath(ev["extra"])
            inside = inside and (re_ == TMP or re_.startswith(TMP + os.sep))
        if inside:
            continue
        if ev["ev"] == "open" and not ev["write"] and fsaudit.is_interpreter_read(rp):
            continue
        outside.append({"ev": ev["ev"], "path": p[:200], "write": ev.get("write")})
    out = {"layout": layout, "behaviour": behaviour, "n_results": n, "exc": exc, "n_events": len(events), "outside": outside[:10],
           "n_members": len(members), "size": len(data)}
    out["tmp_left"] = sorted(os.listdir(TMP))[:5]
    changed = []
    for p, st in canary_stat.items():
        try:
            s = os.stat(p)
            if (s.st_mtime_ns, s.st_size, s.st_ino) != st or canaries[p] not in open(p).read():
                changed.append(p)
        except Exception:
            changed.append(p)
    out["canaries_changed"] = changed
    blob = "\n".join(texts)
    out["canary_in_results"] = [t for t in canaries.values() if t in blob]
    out["host_content_in_results"] = bool(blob) and any(mark in blob for mark in _host_marks())
    # entries without a data stream shift the size table of a 7z header: which bytes land in which member is then undefined
    # (still the archive's own bytes), so member-level expectations are only judged for consistent archives
    # (a NUL inside a 7z name ends the name early and shifts all later names: same situation)
    consistent = not any(m.get("phantom") for m in members) and not case.get("mutate") and not (archives.family(layout) == "7z" and any("\x00" in m["name"] for m in members))
    out["skipped_member_in_results"] = [t for t in expect_skip if t in blob] if consistent else []
    out["oversize_in_results"] = bool(oversize_tok and oversize_tok in blob) if consistent else False
    out["result_names"] = names[:12]
    return out


_MARKS = None


def _host_marks():
    """Distinctive lines of host files that hostile names point to (read once, before any case)."""
    global _MARKS
    if _MARKS is None:
        _MARKS = []
        from vlib import core
        for p in (core.REPO / "README.md", core.REPO / "CHANGELOG.md"):
            try:
                lines = [ln.strip() for ln in p.read_text(errors="replace").splitlines() if len(ln.strip()) > 30]
                _MARKS += lines[:3]
            except Exception:
                pass
        try:
            _MARKS.append(open("/etc/hostname").read().strip() + "\n")
        except Exception:
            pass
    return [m for m in _MARKS if m.strip()]


def gen_cases(run):
    rng = run.rng
    cid = 0
    for layout in archives.ALL_LAYOUTS:
        for r in range(run.n(40, 400)):
            cid += 1
            yield {"id": cid, "layout": layout, "seed": run.seed * 100000 + cid, "behaviour": BEHAVIOURS[r % 4], "mutate": r % 5 == 4}


def main(run):
    run.rule = ("case = one archive over the hostile member-name grammar (absolute, ../ chains, mixed separators, drive letters, empty, very long, unicode, names of existing host files, tar links/devices/fifos, "
                "7z entries with and without data streams, hidden / fork / nested / unsupported / oversize members) x consumer behaviour; distinct = (layout, behaviour, outcome, violation set); "
                "non-trivial = the audit hook recorded >= 1 file-system event while the case was armed, or the archive was rejected before touching the file system")
    run.assumptions = ["read-only opens of interpreter files (*.py/*.pyc/*.so, mimetypes tables, zoneinfo) are the interpreter's, not the archive's",
                       "stat()/exists() carry no audit event: metadata probes are outside this monitor (strace cross-check is a thorough-tier extra)"]
    ev_total = 0
    armed_with_events = 0
    per_layout = {}
    for case, ob in pool.run_cases("checks.c09:work", gen_cases(run), deadline_s=300, rlimit_as=3 * 2**30):
        rep = {"case": case}
        if ob.get("_harness_error"):
            run.inconclusive("harness error: " + ob["_harness_error"])
            print(ob.get("_tb"))
            continue
        if ob.get("unbuildable"):
            run.count("unbuildable_archives")
            run.case(None, nontrivial=False)
            continue
        if ob.get("_timeout") or ob.get("_died") or ob.get("_cpu_exhausted") or ob.get("_oom"):
            run.inconclusive_cases += 1
            run.case(None, nontrivial=False)
            continue
        fam = archives.family(case["layout"])
        lc = fam if fam != "7z" else "7z"
        per_layout[case["layout"]] = per_layout.get(case["layout"], 0) + 1
        ev_total += ob["n_events"]
        armed_with_events += 1 if ob["n_events"] else 0
        seen = set()

        def v(sym, detail):
            key = f"C09:{lc}:{'mutated' if case['mutate'] else 'hostile-names'}:{sym}"
            if key not in seen:
                seen.add(key)
                run.violation(key, f"{case['layout']} / {case['behaviour']} (seed {case['seed']}): {detail}", rep)

        for o in ob["outside"]:
            kind = "write" if o.get("write") else "read"
            v(f"host-file-{kind}-outside-tempdir", f"{o['ev']} on {o['path']!r}")
        if ob["tmp_left"]:
            v(f"tempdir-not-removed-after-{case['behaviour']}", f"private TMPDIR still holds {ob['tmp_left']}")
        if ob["canaries_changed"]:
            v("canary-modified", f"{ob['canaries_changed']}")
        if ob["canary_in_results"] or ob["host_content_in_results"]:
            v("host-file-content-in-results", f"canary tokens {ob['canary_in_results']} / host file lines present in extracted text")
        if ob["skipped_member_in_results"]:
            v("hidden-or-unsupported-member-produced-result", f"tokens {ob['skipped_member_in_results'][:3]} of hidden / fork / nested / unsupported members are in the results")
        if ob["oversize_in_results"]:
            v("oversize-member-produced-result", "the > 10 MiB member produced a result")
        exc = ob.get("exc")
        oc = "ok" if exc is None else ("xerr" if exc["is_extraction_error"] else "escaped")
        run.case(f"{case['layout']}:{case['behaviour']}:{case['mutate']}:{oc}:{','.join(sorted(seen))}", nontrivial=True,
                 sample={"layout": case["layout"], "behaviour": case["behaviour"], "members": ob["n_members"], "results": ob["n_results"], "fs_events": ob["n_events"], "result_names": ob["result_names"][:4], "violations": sorted(seen)} if case["id"] % 41 == 0 else None)
    run.count("fs_events_observed", ev_total)
    run.count("cases_with_fs_events", armed_with_events)
    run.extras["archives_per_layout"] = per_layout
    run.require("fs_events_observed", ev_total, run.n(200, 3000))
    run.require("layouts_exercised", len(per_layout), len(archives.ALL_LAYOUTS))


def replay(run, doc):
    case = doc["case"]["case"]
    for c, ob in pool.run_cases("checks.c09:work", [case], workers=1, deadline_s=300):
        print(ob)
    run.case("replay")
    run.case("replay2")
