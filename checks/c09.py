"""C09 — archive processing is confined: no host file is read or written; the temp dir is gone afterwards.

Monitors: CPython audit hook (open / mkdir / remove / rename / symlink / link / chmod / utime / scandir / rmtree / mkdtemp ...,
dir_fd-relative events resolved through /proc/self/fd), canary files planted where hostile member names point, scan of
every result for canary tokens, listing of the worker's private TMPDIR after the generator is exhausted / closed early /
abandoned / failed in the consumer.  Every event whose resolved path is outside the private TMPDIR is a violation
(read-only opens of interpreter files - lazy imports, mimetypes tables - are the only exception).

Besides file members the grammar is applied to *directory* entries (7z entries without data stream, with / without the
directory attribute, empty files, the directory attribute on an entry that owns a stream; ZIP "name/" records; TAR DIRTYPE
members): os.mkdir / os.makedirs are audit events like any open, and the tree around the private TMPDIR (canary area, the
worker's own current directory) is listed before and after every case, so a directory made on the host is seen twice.
Directory names are chosen so that a faulty tree creates them inside the worker's own scratch area (or names a directory
that exists anyway).  TAR (and ZIP) link members are also pointed at *members of the archive* that must never produce a
result (hidden, __MACOSX/, unsupported, nested archive, oversize), under an innocent supported name, before and after the target.
"""
from __future__ import annotations

import gc
import io
import os
import posixpath
import random
import shutil

from vlib import pool
from vlib.gen import archives

LEVEL = "exploration"
BEHAVIOURS = ["exhaust", "close-after-1", "abandon", "raise-in-consumer"]


def work_init(init):
    import logging
    logging.disable(logging.CRITICAL)
    import sharepoint2text  # noqa
    import mimetypes
    import tempfile
    from vlib import corpus, obs
    from vlib.mon import fsaudit
    for k in corpus.KINDS:
        obs.extractor(k)
    mimetypes.guess_type("x.txt")
    global RUN_DIR, TMP, OUTSIDE, CWD
    RUN_DIR = os.path.realpath(tempfile.mkdtemp(prefix="verif-c09-"))
    TMP = os.path.join(RUN_DIR, "tmp")
    OUTSIDE = os.path.join(RUN_DIR, "outside")
    CWD = os.path.join(RUN_DIR, "cwd")
    os.makedirs(TMP)
    os.makedirs(OUTSIDE)
    os.makedirs(CWD)
    # copies of two real host files (the repository's README / CHANGELOG) for hostile names to point at: the names used to point at the
    # files in the repository itself, and a changed archive reader that writes members out and tidies up after itself deleted them there
    from vlib import core as _core
    os.makedirs(os.path.join(OUTSIDE, "hostdocs"))
    for nm in ("README.md", "CHANGELOG.md"):
        try:
            shutil.copyfile(_core.REPO / nm, os.path.join(OUTSIDE, "hostdocs", nm))
        except OSError:
            open(os.path.join(OUTSIDE, "hostdocs", nm), "w").write("host document stand-in, thirty characters and more in one line\n")
    _host_marks()       # read before any case can touch the copies
    os.environ["TMPDIR"] = TMP
    tempfile.tempdir = TMP
    os.chdir(CWD)       # a member name used relative to the current directory lands in the watched area, not in the framework's tree
    import atexit
    atexit.register(lambda: shutil.rmtree(RUN_DIR, ignore_errors=True))
    fsaudit.install()


def _canaries():
    """Plant canary files outside the private TMPDIR; returns {path: token}."""
    out = {}
    for i, rel in enumerate(["canary.txt", "sub/canary.md", "canary.csv"]):
        p = os.path.join(OUTSIDE, rel)
        os.makedirs(os.path.dirname(p), exist_ok=True)
        tok = f"qz9{i:04d}z"
        with open(p, "w") as f:
            f.write(f"{tok} host file content must never appear\n")
        out[p] = tok
    return out


def hostile_names(rng, canaries):
    """The hostile member-name grammar of the property (each with a supported extension so that it would be extracted)."""
    cpaths = list(canaries)
    c0 = cpaths[0]
    rel_up = os.path.relpath(c0, TMP)
    names = [
        c0, cpaths[1], "/etc/hostname.txt", OUTSIDE + "/hostdocs/README.md", OUTSIDE + "/hostdocs/CHANGELOG.md",
        "../" * 3 + "outside/canary.txt", "../outside/canary.txt", rel_up, "../" * 8 + OUTSIDE.lstrip("/") + "/hostdocs/README.md",
        "a/../../outside/canary.txt", "a/b/../../../outside/sub/canary.md", "..\\..\\outside\\canary.txt", "a\\..\\..\\x.txt",
        "C:\\Windows\\x.txt", "C:x.txt", "\\\\server\\share\\x.txt", "//double/slash.txt", "./dot.txt", "a//b.txt", "a/./b.txt",
        "x" * 300 + ".txt", "d/" * 60 + "deep.txt", "ünï/文書 😀.txt", "trailing./x.txt", " lead.txt", "tab\tname.txt", "new\nline.txt",
        "con.txt", "..txt", "...", "..", ".", "", "~/home.txt", "$HOME/x.txt", "%TEMP%\\x.txt", "nul\x00byte.txt",
        # names that are unsafe *and* belong to members that must never produce a result (whatever is done about the unsafe name,
        # their bytes must not come out - under their own name or, in a solid 7z folder, under a neighbour's)
        *unsafe_protected_names(),
        ".hidden.txt", "dir/.hidden2.md", "__MACOSX/._res.txt", "__MACOSX/sub/x.txt", "inner.zip", "inner.tar.gz", "deep/inner.7z", "tool.exe", "noext",
        "logs.tar.bz2", "old/2019.TAR.XZ", "snap.tgz", "x.tbz2", "y.txz", "plain.tar", "Backup.Tar.Gz",
        "UPPER.TXT", "mixed.TxT", "report.docx", "data.json",
    ]
    rng.shuffle(names)
    return names


BENIGN_NAMES = ["readme.txt", "docs/a.md", "docs/b/c.csv", "data.json", "UPPER.TXT", "ünï/文書.txt", "notes v2.txt", "x/y/z/deep.md"]
PROTECTED = [("hidden", ".secret.txt"), ("hidden", "docs/.env.txt"), ("fork", "__MACOSX/._report.txt"), ("fork", "__MACOSX/docs/res.md"),
             ("unsupported", "payload.bin"), ("unsupported", "docs/tool.exe"), ("nested", "inner-data.zip"), ("nested", "docs/bundle.tar.gz"),
             ("nested", "logs.tar.xz"), ("nested", "docs/snap.tbz2")]
NESTED_SUFFIXES = (".zip", ".tar", ".tar.gz", ".tgz", ".tar.bz2", ".tbz2", ".tar.xz", ".txz", ".7z")      # the library's documented nested-archive names


def hostile_dir_names(rng):
    """The member-name grammar for *directory* entries.  Seen from the extraction directory TMP/<tmpXXXX> every name resolves
    inside the worker's scratch area RUN_DIR (outside TMP), inside TMP next to the extraction directory, or to a directory /
    file that exists anyway - a tree that creates them cannot litter the host, and the listing of RUN_DIR shows every one."""
    root_up = "../" * 14 + RUN_DIR.lstrip("/")
    names = [
        OUTSIDE + "/mk-abs/inner", OUTSIDE + "/sub/mk-abs2", RUN_DIR + "/mk-run", "/" + RUN_DIR.lstrip("/") + "//mk-dslash", CWD + "/mk-cwd",
        "../../outside/mk-rel/inner", "../../mk-rel2", "docs/../../../outside/mk-mixed", "a/b/../../../../outside/sub/mk-deep", "./../../outside/./mk-dot",
        root_up + "/outside/mk-root/x", "../mk-sibling", "docs/../../mk-sibling2/inner", "..\\..\\outside\\mk-bs", "../../outside/mk-" + "l" * 200,
        "../../outside/mk-ünï/文書", OUTSIDE, OUTSIDE + "/sub", OUTSIDE + "/canary.txt", OUTSIDE + "/canary.txt/below", "/", "/tmp", "..", "../..", ".", "",
        "plain-dir", "plain/nested/dir", ".hidden-dir", "__MACOSX/d", "docs", "dir.txt", "a/dir.md",
    ]
    rng.shuffle(names)
    return names


MEMBER_LIMIT = 10 * 1024 * 1024
TAIL_TOKEN = "qt77777z"          # last bytes of every oversize member


def _add_twins(rng, seed, layout, members, info):
    """Members with *equal base names* in different roles - an ordinary visible one and one below __MACOSX/ - in both orders, in one archive or
    spread over a sequence of archives (any container) that the same process handles one after the other; the same name with other
    content in an earlier archive.  What an archive yields is a function of its bytes: never a protected twin, never content of an
    earlier archive, and the same again when the archive is processed a second time later."""
    ext = rng.choice([".txt", ".md", ".csv"])
    sib = lambda: rng.choice(["zip-stored", "tar", "7z-copy-solid", layout])       # noqa: E731
    for k in range(rng.randint(1, 2)):
        base = f"tw{seed % 100000}x{k}{ext}"
        tv, tf, tp = (f"q{c}{seed % 1000:03d}{k}z" for c in "vfp")
        vis = {"name": rng.choice(["docs/", "", "a/b/"]) + base, "data": f"{tv} visible twin\n".encode(), "type": "file"}
        fork = {"name": "__MACOSX/" + rng.choice(["", "docs/", "a/b/"]) + base, "data": f"{tf} fork twin\n".encode(), "type": "file"}
        shape = rng.choice(["same-archive-visible-first", "same-archive-fork-first", "earlier-archive-visible", "earlier-archive-fork", "earlier-archive-same-name-other-content"])
        info["twins"] += 1
        if shape.startswith("same-archive"):
            i = rng.randint(0, len(members))
            members.insert(i, vis)
            members.insert(rng.randint(i + 1, len(members)) if shape.endswith("visible-first") else rng.randint(0, i), fork)
            info["twin_forbidden"].append(tf)
            info["own"] += [tv, tf]
        elif shape == "earlier-archive-visible":
            info["prelude"].append({"layout": sib(), "members": [vis], "forbidden": [], "own": [tv]})
            members.insert(rng.randint(0, len(members)), fork)
            info["twin_forbidden"].append(tf)
            info["own"].append(tf)
        elif shape == "earlier-archive-fork":
            info["prelude"].append({"layout": sib(), "members": [fork], "forbidden": [tf], "own": [tf]})
            members.insert(rng.randint(0, len(members)), vis)
            info["own"].append(tv)
        else:
            info["prelude"].append({"layout": sib(), "members": [dict(vis, data=f"{tp} earlier content\n".encode())], "forbidden": [], "own": [tp]})
            members.insert(rng.randint(0, len(members)), vis)
            info["own"].append(tv)


def _add_phantoms(rng, members, info, canaries):
    """7z entries listed as files that own no data stream (more file entries than sub-streams): extractall() never writes them, so their
    names never pass the write-side join; the read-back must not follow them out of the extraction directory either.  They are listed
    behind every streamed entry (only then do they belong to no folder).  The names climb out *without* starting with "/" or "..":
    through "./", through a directory that a streamed helper member makes exist, with over-long chains; the plain forms are there too."""
    cps = list(canaries)
    rel = [os.path.relpath(p, RUN_DIR) for p in cps]                  # outside/canary.txt, outside/sub/canary.md, outside/canary.csv
    chain = "../" * 14
    helpers = {"sub": "sub/ok.txt", "sub/x": "sub/x/ok.md", "a": "a/readme.txt", "ünï": "ünï/ok.csv"}
    forms = []
    for r_, ab in zip(rel, cps):
        forms += [("", f"./../../{r_}"), ("", f".//../../{r_}"), ("", f"./{chain}{ab.lstrip('/')}"), ("", f"./././../../{r_}"),
                  ("sub", f"sub/../../../{r_}"), ("sub/x", f"sub/x/../../../../{r_}"), ("a", f"a/./../../../{r_}"), ("ünï", f"ünï/../{chain}{ab.lstrip('/')}"),
                  ("sub", f"./sub/../../../{r_}"), ("", f"../../{r_}"), ("", ab), ("", f"nodir/../../../{r_}")]
    hd = OUTSIDE.lstrip("/") + "/hostdocs"
    forms += [("", f"./{chain}{hd}/README.md"), ("sub", f"sub/{chain}{hd}/CHANGELOG.md"), ("", f"./{chain}{hd}/CHANGELOG.md")]
    for need, name in rng.sample(forms, rng.randint(1, 3)):
        if need and not any(m["name"] == helpers[need] for m in members):
            members.insert(rng.randint(0, len(members)), {"name": helpers[need], "data": b"qh00001z helper member\n", "type": "file"})
        members.append({"name": name, "data": b"never stored", "type": "file", "phantom": True})
        info["phantom_escapes"] += 1


def _add_dups(rng, seed, fam, members, info, oversize_tok):
    """Archives that repeat a member name (legal in all three containers; `tar -r` / `tar -u` write them): an ordinary small member and a
    second entry of the same name that must never produce a result - an oversize regular file, (TAR) a symbolic or hard link to a hidden /
    __MACOSX/ / unsupported / nested member - or merely other content.  Whatever is yielded under the name, it is never the protected content."""
    name = rng.choice(["notes.txt", "docs/report.md", "a/b/data.csv", "ünï/文書.txt"])
    small = {"name": name, "data": f"qs{seed % 100000:05d}z ordinary member\n".encode(), "type": "file"}
    kinds = ["oversize-regular", "other-content"] + (["symlink-to-protected", "hardlink-to-protected"] * 2 if fam.startswith("tar") else ["symlink-entry"] if fam == "zip" else [])
    kind = rng.choice(kinds)
    info["dups"] = kind
    i = rng.randint(0, len(members))
    members.insert(i, small)
    if kind == "oversize-regular":
        tok = f"qu{seed % 100000:05d}z"
        dup = {"name": name, "data": tok.encode() + b"\n" + b"0" * (MEMBER_LIMIT + 5) + TAIL_TOKEN.encode() + b"\n", "type": "file"}
        info["dup_tokens"].append(tok)
    elif kind == "other-content":
        dup = {"name": name, "data": f"qw{seed % 100000:05d}z second entry of the name\n".encode(), "type": "file"}
    elif kind == "symlink-entry":
        dup = {"name": name, "type": "symlink", "link": "/etc/passwd"}
    else:
        cls, tname = rng.choice(PROTECTED)
        tok = f"qg{seed % 100000:05d}z"
        body = f"{tok} {cls} member payload\n".encode()
        if cls == "nested":
            body = archives.nested_for(tname, [{"name": "x.txt", "data": body}])
        members.insert(rng.randint(0, i), {"name": tname, "data": body, "type": "file"})      # in front of everything that refers to it
        i += 1
        info["dup_tokens"].append(tok)
        ltype = kind.split("-")[0]
        dup = {"name": name, "type": ltype, "link": tname if ltype == "hardlink" else posixpath.relpath(tname, posixpath.dirname(name) or ".")}
    dup["dup"] = True
    members.insert(rng.randint(i + 1, len(members)) if rng.random() < 0.8 else rng.randint(0, i), dup)


def _dedup(members):
    """Control twin of a duplicate-name archive: the second entry of the name gets a name of its own."""
    out = []
    for m in members:
        if m.get("dup"):
            d, _, b = m["name"].rpartition("/")
            m = dict(m, name=(d + "/" if d else "") + "second-" + b)
        out.append(m)
    return out


def _escapes(name: str) -> bool:
    """Would creating ``name`` below the extraction directory TMP/<x> touch anything outside that directory?"""
    base = os.path.join(TMP, "x")
    tgt = os.path.normpath(os.path.join(base, name))
    return not (tgt == base or tgt.startswith(base + os.sep))


def unsafe_protected_names():
    return ["../.secret.txt", "../../.env.md", "a/../../.hidden3.txt", OUTSIDE + "/.hidden4.txt", "../../outside/tool2.exe", "../../outside/inner2.zip", "/" + "../" * 3 + ".top.txt",
            "..\\.bs-hidden.txt", "docs/../../../outside/.hidden5.csv", "../../outside/noext2"]


BARE_NESTED = ["logs.gz", "docs/b.bz2", "c.xz", "EXPORT.GZ", "a/b/data.csv.gz", "old/dump.BZ2"]
# archive-like suffixes beyond the documented list: whichever of them the router hands to read_archive (extension table, aliases, compound
# names or the MIME fallback of this host) names a nested archive - the router is asked, no list of the archive extractor is consulted
ARCHIVE_LIKE = [".gz", ".bz2", ".xz", ".tbz", ".tb2", ".taz", ".tz", ".tlz", ".tar.Z", ".tar.lz", ".zipx", ".jar", ".gtar", ".ustar", ".cbz", ".tzst", ".TBZ", ".Taz", ".TB2", ".odt.zip"]
_ROUTED = None


def router_nested_suffixes():
    global _ROUTED
    if _ROUTED is None:
        from sharepoint2text.parsing import router
        _ROUTED = []
        for suf in ARCHIVE_LIKE:
            try:
                if getattr(router.get_extractor("x" + suf), "__name__", "") == "read_archive":
                    _ROUTED.append(suf)
            except Exception:
                pass
    return _ROUTED


def _bare_twin(members):
    """Control twin: the compressed TARs under the name a packer gives them (x.gz -> x.tar.gz), which the library documents as nested archives."""
    out = []
    for m in members:
        if m.get("bare"):
            m = dict(m, name=m["name"][: len(m["name"]) - len(m["bare_suffix"])] + ".tar.gz")
        out.append(m)
    return out


def build_case(seed: int, layout: str, focus: str = "names", limit: int | None = None, bare: bool = False):
    """``limit``: the per-member limit the case runs under (configure_archive_extraction(max_memory_size=limit)); members just above it are added,
    which are oversize under that configuration although far below the 10 MiB default."""
    rng = random.Random(f"c09:{seed}")
    canaries = _canaries()
    fam = archives.family(layout)
    if focus == "names":
        names = hostile_names(rng, canaries)[: rng.randint(3, 12)]
    elif focus == "unsafe":
        # ordinary members plus one or two members that are unsafe by name *and* protected by name (hidden / unsupported / nested), not at the end:
        # in a folder that holds several files their bytes lie in front of an ordinary member's
        names = rng.sample(BENIGN_NAMES, rng.randint(2, 5)) + rng.sample(unsafe_protected_names(), rng.randint(1, 2)) + (["../plain-up.txt"] if rng.random() < 0.3 else [])
    else:       # directory entries / links are the hostile part: file members keep ordinary names, so the archive is processed to the end
        names = rng.sample(BENIGN_NAMES, rng.randint(0, 5))     # 0: an archive of directory entries / links only (no packed stream at all in a 7z)
    if archives.tar_format(layout) == "ustar":
        names = [n for n in names if len(n.encode()) <= 100]      # the 1988 header cannot hold longer names (a packer refuses them)
    members = []
    expect_skip = []
    # entries without data stream make the size table of a 7z inconsistent (member-level expectations are off then): only in a part of the
    # name cases - the phantoms focus owns them
    phantom_case = fam == "7z" and focus == "names" and rng.random() < 0.4
    info = {"hostile_dirs": 0, "escaping_dirs": 0, "links_to_protected": 0, "link_tokens": [], "oversize_linked": False, "oversize_form": None, "substreams": True,
            "prelude": [], "twin_forbidden": [], "own": [], "twins": 0, "phantom_escapes": 0, "dups": None, "dup_tokens": [], "unsafe_protected": 0, "limit_tokens": [], "bare_tokens": [], "bare_suffixes": []}
    for i, nm in enumerate(names):
        tok = f"qa{seed % 1000:03d}{i:02d}z"
        data = f"{tok} member payload {i}\n".encode()
        if nm.endswith(".docx"):
            from vlib.gen import docs
            data = docs.build("docx", seed + i)[0]
        if nm.lower().endswith(NESTED_SUFFIXES):
            data = archives.nested_for(nm, [{"name": "inner/x.txt", "data": f"{tok} nested".encode()}])      # a readable archive of the announced type
        m = {"name": nm, "data": data, "type": "file"}
        if phantom_case and rng.random() < 0.35:
            m["phantom"] = True          # entry flagged as having data, but no stream exists for it
        members.append(m)
        base = nm.replace("\\", "/").rsplit("/", 1)[-1] if fam != "zip" else nm.rsplit("/", 1)[-1]
        if os.path.basename(nm).startswith(".") or nm.startswith("__MACOSX/") or nm.lower().endswith(NESTED_SUFFIXES + (".exe",)) or "." not in os.path.basename(nm):
            expect_skip.append(tok)
    # tar-only hostile member types
    if fam not in ("zip", "7z"):
        c0 = list(canaries)[0]
        extra = [
            {"name": "link-abs.txt", "type": "symlink", "link": c0},
            {"name": "link-rel.txt", "type": "symlink", "link": os.path.relpath(c0, TMP)},
            {"name": "hard.txt", "type": "hardlink", "link": c0},
            {"name": "hard2.txt", "type": "hardlink", "link": "../outside/canary.txt"},
            {"name": "fifo.txt", "type": "fifo"},
            {"name": "dev.txt", "type": "chardev"},
            {"name": "blk.txt", "type": "blockdev"},
            {"name": "dirlike.txt", "type": "dir"},
        ]
        rng.shuffle(extra)
        members += extra[: rng.randint(1, 6)]
    elif fam == "zip":
        if rng.random() < 0.5:
            members.append({"name": "ziplink.txt", "type": "symlink", "link": list(canaries)[0]})
    # directory entries over the same grammar
    if focus == "dirs" or rng.random() < 0.3:
        for nm in hostile_dir_names(rng)[: rng.randint(1, 6) if focus == "dirs" else 1]:
            if archives.tar_format(layout) == "ustar" and len(nm.encode()) > 100:
                continue
            m = {"name": nm, "type": "dir"}
            if fam == "7z":
                kind = rng.choice(["dir", "dir", "dir-without-attribute", "empty-file", "attribute-on-stream", "dir-trailing-slash", "unix-dir"])
                if kind == "dir-without-attribute":
                    m["attr"] = 0x20                      # no data stream, archive attribute only
                elif kind == "empty-file":
                    m = {"name": nm, "type": "file", "data": b""}          # kEmptyStream + kEmptyFile
                elif kind == "attribute-on-stream":
                    m = {"name": nm, "type": "file", "data": f"qd{seed % 1000:03d}z dir-flagged payload\n".encode(), "attr": 0x10, "inconsistent": True}
                elif kind == "dir-trailing-slash":
                    m["name"], m["strip_slash"] = nm + "/", False
                elif kind == "unix-dir":
                    m["attr"] = 0x8010 | 0o040755 << 16   # as p7zip writes directories
            elif fam == "zip" and rng.random() < 0.3:
                m["attr"] = rng.choice([0x10, 0, 0o040755 << 16])
            members.append(m)
            info["hostile_dirs"] += 1
            info["escaping_dirs"] += 1 if _escapes(nm) else 0
    if bare:
        # nested archives under a bare compression suffix: a gzip / bzip2 / xz compressed TAR named x.gz / x.bz2 / x.xz
        rb = random.Random(f"c09b:{seed}")
        for k, suf in enumerate(rb.sample(router_nested_suffixes(), min(len(router_nested_suffixes()), rb.randint(1, 2)))):
            nm = rb.choice(["logs", "docs/b", "EXPORT", "a/b/data.csv", "old/dump 2019"]) + suf
            tok = f"qb{seed % 100000:05d}{k}z"
            members.append({"name": nm, "data": archives.nested_for(nm, [{"name": "inner/x.txt", "data": f"{tok} nested".encode()}]), "type": "file", "bare": True, "bare_suffix": suf})
            info["bare_tokens"].append(tok)
            info["bare_suffixes"].append(suf.lower())
    if limit:
        rl = random.Random(f"c09l:{seed}")
        for k in range(rl.randint(1, 2)):
            tok = f"qm{seed % 100000:05d}{k}z"
            size = rl.choice([limit + 1, limit + 2, 2 * limit, 3 * limit + 7, min(8 * limit, MEMBER_LIMIT - 1)])
            members.append({"name": rl.choice(["", "docs/", "a/b/"]) + f"mid{k}" + rl.choice([".txt", ".csv", ".md"]),
                            "data": (tok.encode() + b" over the configured limit\n").ljust(size, b"0"), "type": "file"})
            info["limit_tokens"].append(tok)
        members.append({"name": "at-limit.txt", "data": b"ql00001z exactly at the configured limit\n".ljust(limit, b"1"), "type": "file"})
    # oversize member (> 10 MiB): must be skipped without result.  In a 7z with one folder per file the listing may say something else than
    # what the coder produces: no SubStreamsInfo section at all, or a folder / sub-stream size below the limit (the tail token sits behind it)
    oversize_tok = None
    if rng.random() < 0.15:
        oversize_tok = f"qo{seed % 100000:05d}z"
        big = {"name": "big.txt", "data": oversize_tok.encode() + b"\n" + b"0" * (10 * 1024 * 1024 + 5) + TAIL_TOKEN.encode() + b"\n", "type": "file"}
        info["oversize_form"] = "honest"
        if fam == "7z" and "per-file" in layout:
            info["oversize_form"] = rng.choice(["honest", "no-substreams", "listed-smaller", "listed-smaller"])
            if info["oversize_form"] == "no-substreams":
                info["substreams"] = False
                big["inconsistent"] = True
            elif info["oversize_form"] == "listed-smaller":
                big["declared_size"] = rng.choice([0, 64, 4096, MEMBER_LIMIT - 1, MEMBER_LIMIT])
                big["inconsistent"] = True
        members.append(big)
    rng.shuffle(members)
    if focus == "unsafe":
        up = set(unsafe_protected_names())
        last_ok = max((i for i, m in enumerate(members) if m.get("type", "file") == "file" and m["name"] in BENIGN_NAMES), default=None)
        for i, m in enumerate(members):
            if m["name"] in up and last_ok is not None and i > last_ok:        # an ordinary member must follow it
                members.insert(rng.randint(0, last_ok), members.pop(i))
                break
        info["unsafe_protected"] = sum(1 for m in members if m["name"] in up)
    if focus == "twins":
        _add_twins(rng, seed, layout, members, info)
    elif focus == "dups":
        _add_dups(rng, seed, fam, members, info, oversize_tok)
    elif focus == "phantoms" and fam == "7z":
        _add_phantoms(rng, members, info, canaries)
    # link members pointing at members of the archive that must not produce a result, under an innocent supported name
    if fam not in ("7z",) and (focus == "links" or rng.random() < 0.25):
        picks = rng.sample(PROTECTED, rng.randint(1, 3)) + [("visible", "visible-twin.txt")]      # the last one is the control: a link to an ordinary member
        if oversize_tok:
            picks.append(("oversize", "big.txt"))
        for j, (cls, tname) in enumerate(picks):
            if cls != "oversize":
                tok = f"ql{seed % 1000:03d}{j:02d}z"
                body = f"{tok} {cls} member payload\n".encode()
                if cls == "nested":
                    body = archives.nested_for(tname, [{"name": "x.txt", "data": body}])
                members.insert(rng.randint(0, len(members)), {"name": tname, "data": body, "type": "file"})
                if cls != "visible":
                    info["link_tokens"].append(tok)
            else:
                info["oversize_linked"] = True
            at = next(i for i, m in enumerate(members) if m["name"] == tname and m.get("type", "file") == "file")
            for ltype in rng.sample(["hardlink", "symlink"], rng.randint(1, 2)) if fam != "zip" else ["symlink"]:
                lname = rng.choice([f"report{j}.txt", f"docs/summary{j}.md", f"copy{j}.csv", f"a/b/linked{j}.txt"])
                if any(m["name"] == lname for m in members):
                    lname = f"l{len(members)}-" + lname.rsplit("/", 1)[-1]
                target = tname if ltype == "hardlink" else posixpath.relpath(tname, posixpath.dirname(lname) or ".")
                # tarfile resolves a hard link among the members in front of it, a symbolic link anywhere: mostly behind the target, sometimes in front
                pos = rng.randint(at + 1, len(members)) if rng.random() < 0.8 else rng.randint(0, at)
                members.insert(pos, {"name": lname, "type": ltype, "link": target})
                if pos <= at:
                    at += 1
                if cls != "visible":
                    info["links_to_protected"] += 1
    return members, canaries, expect_skip, oversize_tok, info


def work(case):
    """Runs the case under the member limit it names (default: the library's own), restoring the configuration afterwards."""
    from sharepoint2text.parsing.extractors import archive_extractor as AE
    saved = AE._config
    try:
        if case.get("limit"):
            AE.configure_archive_extraction(max_memory_size=case["limit"])      # the library's documented way to lower the per-member limit
            # later option calls that do not mention the limit (a history of configure calls): every option is "None = leave as it is"
            for kw in RECONF[case.get("reconf", 0) % len(RECONF)]:
                AE.configure_archive_extraction(**kw)
        return _work(case)
    finally:
        AE._config = saved


RECONF = [[], [{"enable_parallel": False}], [{"buffer_size": 32768}], [{"max_workers": 2}, {"enable_caching": True}], [{}], [{"enable_streaming": False}, {"enable_parallel": True}],
          [{"buffer_size": 65536, "max_workers": 1, "enable_caching": False}]]


def _work(case):
    from vlib import obs
    from vlib.mon import fsaudit
    from vlib.worker import arm_cpu
    arm_cpu(120)
    for leftover in os.listdir(TMP):     # a previous case's leak is that case's finding, not this one's
        shutil.rmtree(os.path.join(TMP, leftover), ignore_errors=True)
    layout = case["layout"]
    members, canaries, expect_skip, oversize_tok, info = build_case(case["seed"], layout, case.get("focus", "names"), case.get("limit"), bool(case.get("bare")))
    try:
        data = archives.build(layout, members, substreams=info["substreams"])
        prelude = [dict(a, data=archives.build(a["layout"], a["members"])) for a in info["prelude"]]
    except Exception as e:
        return {"unbuildable": f"{type(e).__name__}: {e}"[:200]}
    if case.get("mutate"):
        from vlib.gen import mutate
        r = random.Random(f"c09m:{case['seed']}")
        data = mutate.byte_mutate(data, r.choice(["bitflip", "numbers", "truncate_tail", "zero", "byteset"]), r)
    canary_stat = {p: (os.stat(p).st_mtime_ns, os.stat(p).st_size, os.stat(p).st_ino) for p in canaries}
    tree_before = _host_tree()
    behaviour = case["behaviour"]
    texts, names, n = [], [], 0
    exc = None
    fn = obs.extractor("zip")
    gc.collect()
    runs = []           # twins: (archive, result names, result texts | exception name) of every archive of the sequence, and of the first one run again
    fsaudit.arm()
    try:
        for a in prelude:
            runs.append((a, *_exhaust(fn, a["data"], a["layout"])))
        gen = fn(io.BytesIO(data), "dir/arch" + archives.ext_of(layout))
        try:
            for r in gen:
                n += 1
                try:
                    texts.append(r.get_full_text())
                    names.append(r.get_metadata().filename)
                except Exception:
                    pass
                if behaviour == "close-after-1":
                    gen.close()
                    break
                if behaviour == "abandon":
                    break
                if behaviour == "raise-in-consumer":
                    raise KeyError("consumer failed")
        except KeyError:
            pass
        if behaviour == "abandon":
            del gen
            r = None
            gc.collect()
        elif behaviour == "raise-in-consumer":
            del gen
            gc.collect()
    except BaseException as e:
        if type(e).__name__ == "CpuBudget":
            fsaudit.disarm()
            raise
        exc = obs.exc_record(e, n)
    rerun = None
    try:
        if case.get("focus") == "twins":
            main = {"layout": layout, "data": data, "forbidden": info["twin_forbidden"], "own": info["own"]}
            runs.append((main, list(names), list(texts)) if exc is None else (main, None, exc["name"]))
            first = runs[0][0]
            rerun = _exhaust(fn, first["data"], first["layout"])
    finally:
        fsaudit.disarm()
    events = fsaudit.drain()
    outside = []
    for ev in events:
        p = ev.get("path")
        if not isinstance(p, str):
            continue
        rp = os.path.realpath(p) if p.startswith("/") else os.path.realpath(os.path.join(os.getcwd(), p))
        inside = rp == TMP or rp.startswith(TMP + os.sep)
        if ev.get("extra") and isinstance(ev["extra"], str):
            re_ = os.path.realpath(ev["extra"])
            inside = inside and (re_ == TMP or re_.startswith(TMP + os.sep))
        if inside:
            continue
        if ev["ev"] == "open" and not ev["write"] and fsaudit.is_interpreter_read(rp):
            continue
        outside.append({"ev": ev["ev"], "path": p[:200], "write": ev.get("write")})
    out = {"layout": layout, "behaviour": behaviour, "n_results": n, "exc": exc, "n_events": len(events), "outside": outside[:10],
           "n_members": len(members), "size": len(data)}
    out["n_mkdir_events"] = sum(1 for ev in events if ev["ev"] == "os.mkdir")
    out["tmp_left"] = sorted(os.listdir(TMP))[:5]
    # post-state of the area around the private TMPDIR (canary area, current directory, RUN_DIR itself): nothing may appear or vanish
    tree_after = _host_tree()
    out["host_tree_new"] = sorted(tree_after - tree_before)[:6]
    out["host_tree_gone"] = sorted(tree_before - tree_after)[:6]
    for rel in sorted(tree_after - tree_before, key=len, reverse=True):      # the next case starts from the same state
        q = os.path.join(RUN_DIR, rel)
        if os.path.isdir(q) and not os.path.islink(q):
            shutil.rmtree(q, ignore_errors=True)
        elif os.path.lexists(q):
            os.remove(q)
    out.update({k: info[k] for k in ("hostile_dirs", "escaping_dirs", "links_to_protected")})
    changed = []
    for p, st in canary_stat.items():
        try:
            s = os.stat(p)
            if (s.st_mtime_ns, s.st_size, s.st_ino) != st or canaries[p] not in open(p).read():
                changed.append(p)
        except Exception:
            changed.append(p)
    out["canaries_changed"] = changed
    blob = "\n".join(texts)
    out["canary_in_results"] = [t for t in canaries.values() if t in blob]
    out["host_content_in_results"] = bool(blob) and any(mark in blob for mark in _host_marks())
    # entries without a data stream shift the size table of a 7z header: which bytes land in which member is then undefined
    # (still the archive's own bytes), so member-level expectations are only judged for consistent archives
    # (a NUL inside a 7z name ends the name early and shifts all later names: same situation)
    consistent = not any(m.get("phantom") or m.get("inconsistent") for m in members) and not case.get("mutate") and not (archives.family(layout) == "7z" and any("\x00" in m["name"] for m in members))
    out["skipped_member_in_results"] = [t for t in expect_skip if t in blob] if consistent else []
    out["oversize_in_results"] = bool(oversize_tok and oversize_tok in blob) if consistent else False
    out["oversize_linked"] = info["oversize_linked"]
    out["linked_protected_member_in_results"] = [t for t in info["link_tokens"] if t in blob] if consistent else []
    out["result_names"] = names[:12]
    # no result may carry what lies behind the per-member limit, whatever the listing says about the member's size
    out["oversize_form"] = info["oversize_form"]
    out["oversize_content_in_results"] = (TAIL_TOKEN in blob) or any(len(t) > MEMBER_LIMIT for t in texts)
    # twins: per archive of the sequence
    out["bare_nested"] = len(info["bare_tokens"])
    out["bare_nested_in_results"] = [t for t in info["bare_tokens"] if t in blob] if consistent else []
    out["bare_suffixes"] = sorted({suf for t, suf in zip(info["bare_tokens"], info["bare_suffixes"]) if t in blob})       # the suffixes that came through
    out["bare_twin_clean"] = None
    if out["bare_nested_in_results"]:
        tn, tt = _exhaust(fn, archives.build(layout, _bare_twin(members), substreams=info["substreams"]), layout)
        out["bare_twin_clean"] = isinstance(tt, list) and not any(t in "\n".join(tt) for t in info["bare_tokens"])
    out["limit"] = case.get("limit")
    out["reconf"] = bool(case.get("limit") and RECONF[case.get("reconf", 0) % len(RECONF)])
    out["over_configured_limit_in_results"] = [t for t in info["limit_tokens"] if t in blob] if consistent else []
    out["unsafe_protected"] = info["unsafe_protected"]
    out["phantom_escapes"] = info["phantom_escapes"]
    out["dups"] = info["dups"]
    out["dup_protected_in_results"] = [t for t in info["dup_tokens"] if t in blob] if not case.get("mutate") else []
    out["dups_twin_clean"] = None
    if info["dups"] and (out["dup_protected_in_results"] or out["oversize_content_in_results"]):
        # control twin: the same members, the second entry of the name under a name of its own
        tn, tt = _exhaust(fn, archives.build(layout, _dedup(members), substreams=info["substreams"]), layout)
        tb = "\n".join(tt) if isinstance(tt, list) else ""
        out["dups_twin_clean"] = isinstance(tt, list) and TAIL_TOKEN not in tb and not any(len(t) > MEMBER_LIMIT for t in tt) and not any(t in tb for t in info["dup_tokens"])
    out["twins"] = info["twins"]
    out["twin_forbidden_in_results"], out["earlier_archive_content_in_results"], out["history_dependent"] = [], [], None
    if runs and rerun is not None and not case.get("mutate"):
        all_tokens = {t for a, _, _ in runs for t in a["own"]}
        for a, nm, tx in runs:
            b = "\n".join(tx) if isinstance(tx, list) else ""
            out["twin_forbidden_in_results"] += [t for t in a["forbidden"] if t in b and t not in out["twin_forbidden_in_results"]]
            out["earlier_archive_content_in_results"] += [t for t in sorted(all_tokens - set(a["own"])) if t in b]
        (_, n0, t0), (n1, t1) = runs[0], rerun
        if (n0, t0) != (n1, t1):
            out["history_dependent"] = f"first archive of the sequence ({runs[0][0]['layout']}): {n0!r:.120} at first, {n1!r:.120} when processed again after {len(runs) - 1} other archive(s)"
    return out


def _exhaust(fn, data, layout):
    """-> (result names, result texts) or (None, exception class name)"""
    names, texts = [], []
    try:
        for r in fn(io.BytesIO(data), "dir/arch" + archives.ext_of(layout)):
            names.append(r.get_metadata().filename)
            texts.append(r.get_full_text())
    except Exception as e:
        return None, type(e).__name__
    return names, texts


def _host_tree() -> set:
    """Relative paths of everything below RUN_DIR except the private TMPDIR subtree."""
    seen = set()
    for root, dirs, files in os.walk(RUN_DIR):
        if root == RUN_DIR:
            dirs[:] = [d for d in dirs if d != "tmp"]
        for nm in dirs + files:
            seen.add(os.path.relpath(os.path.join(root, nm), RUN_DIR))
    return seen


_MARKS = None


def _host_marks():
    """Distinctive lines of host files that hostile names point to (read once, before any case)."""
    global _MARKS
    if _MARKS is None:
        _MARKS = []
        import pathlib
        for p in (pathlib.Path(OUTSIDE, "hostdocs", "README.md"), pathlib.Path(OUTSIDE, "hostdocs", "CHANGELOG.md")):
            try:
                lines = [ln.strip() for ln in p.read_text(errors="replace").splitlines() if len(ln.strip()) > 30]
                _MARKS += lines[:3]
            except Exception:
                pass
        try:
            _MARKS.append(open("/etc/hostname").read().strip() + "\n")
        except Exception:
            pass
    return [m for m in _MARKS if m.strip()]


def gen_cases(run):
    rng = run.rng
    cid = 0
    for layout in archives.EXTENDED_LAYOUTS:
        fam = archives.family(layout)
        # r % 5 == 4: byte-mutated archive; otherwise the hostile part is the file names / the directory entries / (TAR, ZIP) link members
        cycle = ["names", "dirs", "twins", "phantoms", "dups", "unsafe"] if fam == "7z" else ["names", "links", "dirs", "twins", "dups", "links"]
        for r in range(run.n(40, 400) if layout in archives.ALL_LAYOUTS else run.n(12, 120)):      # TAR header formats gnu / ustar: fewer repetitions
            cid += 1
            focus = "names" if r % 5 == 4 else cycle[(r * 5 // 4) % 6]
            # every third case runs under a lowered per-member limit (configuration x history: the limit is set after import, before the archive)
            limit = [4096, 65536, 1 << 20, 300000][(r // 3) % 4] if r % 3 == 1 else None
            # twins: a sequence of archives, each consumed to the end (the first one a second time at the end)
            yield {"id": cid, "layout": layout, "seed": run.seed * 100000 + cid, "behaviour": "exhaust" if focus == "twins" else BEHAVIOURS[r % 4], "mutate": r % 5 == 4,
                   "focus": focus, "limit": limit, "bare": r % 8 == 5 and focus != "names", "reconf": (r // 3 + cid) % 7 if limit else 0}


def main(run):
    run.rule = ("case = one archive over the hostile member-name grammar (absolute, ../ chains, mixed separators, drive letters, empty, very long, unicode, names of existing host files, tar links/devices/fifos, "
                "7z entries with and without data streams, hidden / fork / nested / unsupported / oversize members; the same grammar on directory entries (7z empty-stream / directory-attribute / empty-file entries, "
                "ZIP and TAR directory records); TAR/ZIP links to protected members of the archive; TAR header formats pax / gnu / ustar) x consumer behaviour; distinct = (layout, hostile part, behaviour, outcome, violation set); "
                "non-trivial = the audit hook recorded >= 1 file-system event while the case was armed, or the archive was rejected before touching the file system")
    run.assumptions = ["read-only opens of interpreter files (*.py/*.pyc/*.so, mimetypes tables, zoneinfo) are the interpreter's, not the archive's",
                       "stat()/exists() carry no audit event: metadata probes are outside this monitor (strace cross-check is a thorough-tier extra)"]
    ev_total = 0
    armed_with_events = 0
    per_layout = {}
    for case, ob in pool.run_cases("checks.c09:work", gen_cases(run), deadline_s=300, rlimit_as=3 * 2**30):
        rep = {"case": case}
        if ob.get("_harness_error"):
            run.inconclusive("harness error: " + ob["_harness_error"])
            print(ob.get("_tb"))
            continue
        if ob.get("unbuildable"):
            run.count("unbuildable_archives")
            run.case(None, nontrivial=False)
            continue
        if ob.get("_timeout") or ob.get("_died") or ob.get("_cpu_exhausted") or ob.get("_oom"):
            run.inconclusive_cases += 1
            run.case(None, nontrivial=False)
            continue
        fam = archives.family(case["layout"])
        lc = fam if fam != "7z" else "7z"
        focus = case.get("focus", "names")
        for k in ("hostile_dirs", "escaping_dirs", "links_to_protected"):
            if ob.get(k) and not case["mutate"]:
                run.count(f"{'7z' if fam == '7z' else 'zip' if fam == 'zip' else 'tar'}_archives_with_{k}")
        run.count("mkdir_events_observed", ob.get("n_mkdir_events", 0))
        if ob.get("bare_nested") and not case["mutate"]:
            run.count("archives_with_nested_archive_under_bare_compression_suffix")
        if ob.get("reconf") and not case["mutate"]:
            run.count("archives_under_lowered_limit_followed_by_other_option_calls")
        if ob.get("limit") and not case["mutate"]:
            run.count(f"{'7z' if fam == '7z' else 'zip' if fam == 'zip' else 'tar'}_archives_under_lowered_member_limit")
        if ob.get("unsafe_protected") and not case["mutate"] and fam == "7z" and ("solid" in case["layout"] or "pairs" in case["layout"]):
            run.count("7z_multi_file_folders_with_unsafe_named_protected_member")
        if ob.get("phantom_escapes") and not case["mutate"]:
            run.count("7z_archives_with_streamless_entries_climbing_out")
        if ob.get("dups") and not case["mutate"]:
            run.count(f"{'7z' if fam == '7z' else 'zip' if fam == 'zip' else 'tar'}_archives_with_duplicate_member_names")
        if ob.get("twins") and not case["mutate"]:
            run.count("archive_sequences_with_same_base_name_twins")
        if ob.get("oversize_form") in ("no-substreams", "listed-smaller") and not case["mutate"]:
            run.count("7z_archives_with_oversize_member_listed_smaller")
        per_layout[case["layout"]] = per_layout.get(case["layout"], 0) + 1
        ev_total += ob["n_events"]
        armed_with_events += 1 if ob["n_events"] else 0
        seen = set()

        feat0 = {"phantoms": "streamless-entries-with-climbing-names", "dups": "duplicate-member-names", "unsafe": "unsafe-names-of-protected-members"}.get(focus, "hostile-names")
        if focus == "dups" and ob.get("dups_twin_clean") is False:
            feat0 = "hostile-names"         # the twin with unique names misbehaves as well: not a matter of the repeated name

        def v(sym, detail, feat=None, comp=None):
            feat = feat or feat0
            key = f"C09:{comp or lc}:{'mutated' if case['mutate'] else feat}:{sym}"
            if key not in seen:
                seen.add(key)
                run.violation(key, f"{case['layout']} / {case['behaviour']} (seed {case['seed']}): {detail}", rep)

        dirfeat = "hostile-directory-entries" if focus == "dirs" else "hostile-names"
        for o in ob["outside"]:
            kind = "write" if o.get("write") else "read"
            if o["ev"] in ("os.mkdir", "os.rmdir"):
                v("host-directory-made-or-removed-outside-tempdir", f"{o['ev']} on {o['path']!r}", dirfeat)
            else:
                v(f"host-file-{kind}-outside-tempdir", f"{o['ev']} on {o['path']!r}")
        if ob["host_tree_new"] or ob["host_tree_gone"]:
            v("host-tree-changed-outside-tempdir", f"appeared next to the private TMPDIR: {ob['host_tree_new']}, vanished: {ob['host_tree_gone']}", dirfeat)
        if ob["tmp_left"]:
            v(f"tempdir-not-removed-after-{case['behaviour']}", f"private TMPDIR still holds {ob['tmp_left']}", dirfeat if focus == "dirs" else "hostile-names")
        if ob["canaries_changed"]:
            v("canary-modified", f"{ob['canaries_changed']}")
        if ob["canary_in_results"] or ob["host_content_in_results"]:
            v("host-file-content-in-results", f"canary tokens {ob['canary_in_results']} / host file lines present in extracted text")
        if ob["skipped_member_in_results"]:
            v("hidden-or-unsupported-member-produced-result", f"tokens {ob['skipped_member_in_results'][:3]} of hidden / fork / nested / unsupported members are in the results")
        if ob["oversize_in_results"]:
            v("oversize-member-produced-result", "the > 10 MiB member produced a result" + (" (a link member points at it)" if ob["oversize_linked"] else ""),
              "link-to-protected-member" if ob["oversize_linked"] else "hostile-names")
        if ob["oversize_content_in_results"]:
            forged = ob["oversize_form"] in ("no-substreams", "listed-smaller")
            v("oversize-member-produced-result", "a result carries content that lies behind the 10 MiB per-member limit" + (f" (7z folder of one file, size listing: {ob['oversize_form']})" if forged else ""),
              None if (focus == "dups" and ob.get("dups_twin_clean")) else      # the twin with unique names is clean: the repeated name is the mechanism
              "oversize-member-listed-smaller" if forged else "link-to-protected-member" if ob["oversize_linked"] and focus != "dups" else None)
        if ob["dup_protected_in_results"] and not ob["oversize_content_in_results"]:
            v("hidden-or-unsupported-member-produced-result", f"tokens {ob['dup_protected_in_results'][:3]}: content of a protected member came out through a second entry ({ob['dups']}) of an ordinary member's name")
        for bsuf in (ob.get("bare_suffixes") or [None]) if ob.get("bare_nested_in_results") else []:
            v("nested-archive-produced-results", f"tokens {ob['bare_nested_in_results'][:3]}: a compressed TAR stored as a member named *{' / *'.join(ob['bare_suffixes'])} (names the router hands to read_archive) "
              "was unpacked and its members were returned (the same member named *.tar.gz is skipped)" if ob.get("bare_twin_clean") else f"tokens {ob['bare_nested_in_results'][:3]} of nested archives are in the results",
              f"nested-archive-named-{bsuf}" if ob.get("bare_twin_clean") and bsuf else None,
              "archive" if ob.get("bare_twin_clean") else None)      # the member filter is shared by the three containers: one mechanism
        if ob.get("over_configured_limit_in_results"):
            v("oversize-member-produced-result", f"the per-member limit was lowered to {ob['limit']} bytes through configure_archive_extraction()"
              + (f", followed by the option calls {RECONF[case.get('reconf', 0) % len(RECONF)]} that do not mention it" if ob.get("reconf") else "")
              + f"; members above it (tokens {ob['over_configured_limit_in_results'][:3]}) produced results",
              "configured-member-limit-then-other-options" if ob.get("reconf") else "configured-member-limit")
        if ob["twin_forbidden_in_results"]:
            v("hidden-or-unsupported-member-produced-result", f"tokens {ob['twin_forbidden_in_results'][:3]} of __MACOSX/ members whose base name equals that of an ordinary member (same archive or an archive "
              "processed earlier by the same process) are in the results", "same-base-name-twins")
        if ob["earlier_archive_content_in_results"]:
            v("content-of-earlier-archive-in-results", f"tokens {ob['earlier_archive_content_in_results'][:3]} belong to another archive of the sequence", "same-base-name-twins")
        if ob["history_dependent"]:
            v("result-depends-on-process-history", ob["history_dependent"], "same-base-name-twins")
        if ob["linked_protected_member_in_results"]:
            v("hidden-or-unsupported-member-produced-result", f"tokens {ob['linked_protected_member_in_results'][:3]} of hidden / fork / nested / unsupported members that a link member "
              "with an innocent name points at are in the results", "link-to-protected-member")
        exc = ob.get("exc")
        oc = "ok" if exc is None else ("xerr" if exc["is_extraction_error"] else "escaped")
        run.case(f"{case['layout']}:{focus}:{case['behaviour']}:{case['mutate']}:{oc}:{','.join(sorted(seen))}", nontrivial=True,
                 sample={"layout": case["layout"], "behaviour": case["behaviour"], "members": ob["n_members"], "results": ob["n_results"], "fs_events": ob["n_events"], "result_names": ob["result_names"][:4], "violations": sorted(seen)} if case["id"] % 41 == 0 else None)
    run.count("fs_events_observed", ev_total)
    run.count("cases_with_fs_events", armed_with_events)
    run.extras["archives_per_layout"] = per_layout
    run.require("fs_events_observed", ev_total, run.n(200, 3000))
    run.require("layouts_exercised", len(per_layout), len(archives.EXTENDED_LAYOUTS))
    # the new families must really have been processed (not lost as unbuildable / died), and the monitor must have seen directory creation at all
    for k, lo in (("7z_archives_with_escaping_dirs", run.n(100, 1000)), ("7z_multi_file_folders_with_unsafe_named_protected_member", run.n(20, 200)), ("zip_archives_with_escaping_dirs", run.n(10, 100)), ("tar_archives_with_escaping_dirs", run.n(30, 300)),
                  ("tar_archives_with_links_to_protected", run.n(40, 400)), ("mkdir_events_observed", run.n(500, 5000)),
                  ("archive_sequences_with_same_base_name_twins", run.n(80, 800)), ("7z_archives_with_streamless_entries_climbing_out", run.n(60, 600)),
                  ("archives_with_nested_archive_under_bare_compression_suffix", run.n(60, 600)), ("archives_under_lowered_limit_followed_by_other_option_calls", run.n(150, 1500)), ("7z_archives_under_lowered_member_limit", run.n(120, 1200)), ("tar_archives_under_lowered_member_limit", run.n(40, 400)), ("zip_archives_under_lowered_member_limit", run.n(10, 100)),
                  ("7z_archives_with_duplicate_member_names", run.n(60, 600)), ("tar_archives_with_duplicate_member_names", run.n(30, 300)), ("zip_archives_with_duplicate_member_names", run.n(6, 60)), ("7z_archives_with_oversize_member_listed_smaller", run.n(8, 80))):
        run.require(k, run.counters.get(k, 0), lo)


def replay(run, doc):
    case = doc["case"]["case"]
    for c, ob in pool.run_cases("checks.c09:work", [case], workers=1, deadline_s=300):
        print(ob)
    run.case("replay")
    run.case("replay2")
