"""C02 — see DESIGN.md §8; ground-truth documents (vlib/gen) x real extractors x the oracle in vlib/gen/expect.py."""
from vlib import doccheck

LEVEL = "exploration"


def main(run):
    run.rule = RULE
    run.assumptions = ASSUMPTIONS
    doccheck.run_property(run, relevant=RELEVANT)


def replay(run, doc):
    doccheck.replay_case(run, doc)


RULE = ("case = one generated document (format, seed, risky feature or clean); every text leaf is a unique class-tagged token; "
        "distinct = (format, feature, unit/table/image counts, symptom set); non-trivial = the real extractor accepted the document and get_full_text() was tokenised and compared "
        "(multiset, order, gluing, leakage of excluded classes, foreign tokens)")
ASSUMPTIONS = ["the hand-written writers in vlib/gen produce the constructs they claim (control twins and clean cases are silent on the unchanged tree)",
               "per-format claims follow DESIGN.md Appendix A: unclaimed constructs are ignored, never judged"]
RELEVANT = None
