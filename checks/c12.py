"""C12 — extraction cost is bounded by input size; explicit limits hold (rusage monitor in fresh workers).

Amplifier families: small inputs whose *declared* counts / nesting / repetition grow (series n, 2n, 4n, 8n).  Every
measurement runs in a fresh worker process (ru_maxrss is a high-water mark) and records process CPU time and the RSS
delta of the extraction.  Budgets (deliberately loose): RSS delta <= 64 MiB + 40 x U, CPU <= 2 s + 2 us x U x log2(U),
U = uncompressed input size; for families whose input grows with n the log-log slope of CPU over U must stay <= 1.3
(judged only when the largest point costs >= 0.5 s CPU).  Explicit limits (read_file max_file_size, 7z 100 MB,
per-member archive limit) are probed at limit-1 / limit / limit+1.

"Many of them" families (``*-many-*``: n tiny messages / archive members / sheets / slides / pages / chapters /
paragraphs / attachments / recipients, series n, 4n, 16n): the input grows with n and the work per item is constant, so
anything done once per item at a cost proportional to the whole (re-slicing the rest of a mailbox for every separator,
looking a sheet up by scanning all sheets, re-reading an index) shows as exponent 2.  Their series are sized so that the
largest point costs 0.5 .. 2.5 s CPU on the unchanged tree - the slope is judged on every run - and each series is
measured by one worker process (work_series: warm-up, ascending n, a second look before a slope above 1.15 is
reported), which keeps the number of process starts, and with it the tier's wall time, where it was.
"""
from __future__ import annotations

import io
import math
import os
import resource
import struct
import time
import zipfile

from vlib import pool

LEVEL = "exploration"
MIB = 1 << 20


def work_init(init):
    import logging
    logging.disable(logging.CRITICAL)
    import sharepoint2text  # noqa
    from vlib import corpus, obs
    for k in corpus.KINDS:
        obs.extractor(k)


# ------------------------------------------------------------------------------------------ amplifier builders: n -> (kind, bytes, U)
def _odf(kind, body):
    from vlib.gen import odf
    content = f'<?xml version="1.0" encoding="UTF-8"?><office:document-content {odf.NSDECL}><office:body>{body}</office:body></office:document-content>'
    meta = f'<?xml version="1.0" encoding="UTF-8"?><office:document-meta {odf.NSDECL}><office:meta/></office:document-meta>'
    data = odf._pkg(kind, content, meta, None, {})
    return data, len(content) + len(meta)


def f_ods_cols_repeated(n):
    data, u = _odf("ods", f'<office:spreadsheet><table:table table:name="s"><table:table-row><table:table-cell table:number-columns-repeated="{n}" office:value-type="string"><text:p>x</text:p></table:table-cell></table:table-row></table:table></office:spreadsheet>')
    return "ods", data, u


def f_ods_rows_repeated(n):
    data, u = _odf("ods", f'<office:spreadsheet><table:table table:name="s"><table:table-row table:number-rows-repeated="{n}"><table:table-cell office:value-type="string"><text:p>x</text:p></table:table-cell></table:table-row></table:table></office:spreadsheet>')
    return "ods", data, u


def f_ods_empty_cols_repeated(n):
    # empty repeated cells are capped by the reader: the control family (must stay cheap)
    data, u = _odf("ods", f'<office:spreadsheet><table:table table:name="s"><table:table-row><table:table-cell office:value-type="string"><text:p>x</text:p></table:table-cell><table:table-cell table:number-columns-repeated="{n}"/></table:table-row></table:table></office:spreadsheet>')
    return "ods", data, u


def f_ods_empty_run_then_value(n):
    # the reader's cap for long runs of empty cells must hold wherever the run stands: here a value follows it in the same row
    # - as a plain cell, behind a run of covered cells, inside a row group and in a header-rows block
    run = f'<table:table-cell table:number-columns-repeated="{n}"/>'
    cov = f'<table:covered-table-cell table:number-columns-repeated="{n}"/>'
    val = '<table:table-cell office:value-type="string"><text:p>{}</text:p></table:table-cell>'
    row = "<table:table-row>" + val.format("a") + "{}" + val.format("x") + "</table:table-row>"
    data, u = _odf("ods", '<office:spreadsheet><table:table table:name="s">'
                   + "<table:table-header-rows>" + row.format(run) + "</table:table-header-rows>"
                   + row.format(run) + row.format(cov) + row.format(run + val.format("m") + run)
                   + "<table:table-row-group>" + row.format(run) + "</table:table-row-group>"
                   + "</table:table></office:spreadsheet>")
    return "ods", data, u


def f_ods_empty_rows_then_value(n):
    # ... and the cap for runs of empty rows, with a row of values after the run
    data, u = _odf("ods", f'<office:spreadsheet><table:table table:name="s"><table:table-row><table:table-cell office:value-type="string"><text:p>a</text:p></table:table-cell></table:table-row>'
                   f'<table:table-row table:number-rows-repeated="{n}"><table:table-cell table:number-columns-repeated="{n}"/></table:table-row>'
                   f'<table:table-row><table:table-cell office:value-type="string"><text:p>x</text:p></table:table-cell></table:table-row></table:table></office:spreadsheet>')
    return "ods", data, u


def _doc_with_dib(width, height, bpp, size_image, pixels=24):
    """A .doc whose WordDocument stream ends in a plausible BITMAPINFOHEADER (40 bytes, one plane, uncompressed) that *declares*
    width x height x bpp (or biSizeImage) and is followed by ``pixels`` bytes only: the declared picture does not fit into what is there."""
    from vlib.gen import cfb, docs
    data, _ = docs.build("doc", 1)
    streams = dict(cfb.read_cfb(data))
    hdr = struct.pack("<IiiHHIIiiII", 40, width, height, 1, bpp, 0, size_image, 2835, 2835, 0, 0)
    streams["WordDocument"] = streams["WordDocument"] + b"\x00" * 8 + hdr + b"\x7f" * pixels
    out = cfb.make_cfb(streams)
    return "doc", out, len(out)


def f_doc_dib_declared_dimensions(n):
    return _doc_with_dib(n, n, 32, 0)                 # n x n pixels of 4 bytes declared, 24 bytes present


def f_doc_dib_declared_size_image(n):
    return _doc_with_dib(16, 16, 24, n * MIB)         # biSizeImage = n MiB declared for a 16 x 16 picture


def f_odt_space_count(n):
    data, u = _odf("odt", f'<office:text><text:p>a<text:s text:c="{n}"/>b</text:p></office:text>')
    return "odt", data, u


def f_odp_space_count(n):
    data, u = _odf("odp", f'<office:presentation><draw:page draw:name="p"><draw:frame svg:x="1cm" svg:y="1cm"><draw:text-box><text:p>a<text:s text:c="{n}"/>b</text:p></draw:text-box></draw:frame></draw:page></office:presentation>')
    return "odp", data, u


def f_odt_table_cell_repeated(n):
    data, u = _odf("odt", f'<office:text><table:table table:name="t"><table:table-column/><table:table-row><table:table-cell table:number-columns-repeated="{n}" office:value-type="string"><text:p>x</text:p></table:table-cell>'
                   f'</table:table-row><table:table-row table:number-rows-repeated="{n}"><table:table-cell office:value-type="string"><text:p>y</text:p></table:table-cell></table:table-row></table:table><text:p>z</text:p></office:text>')
    return "odt", data, u


def f_odp_table_cell_repeated(n):
    data, u = _odf("odp", f'<office:presentation><draw:page draw:name="p"><draw:frame svg:x="1cm" svg:y="1cm"><table:table><table:table-column/><table:table-row><table:table-cell table:number-columns-repeated="{n}"><text:p>x</text:p></table:table-cell>'
                   f'</table:table-row><table:table-row table:number-rows-repeated="{n}"><table:table-cell><text:p>y</text:p></table:table-cell></table:table-row></table:table></draw:frame></draw:page></office:presentation>')
    return "odp", data, u


def f_html_colspan(n):
    d = f'<html><body><table><tr><td colspan="{n}" rowspan="{n}">x</td><td>y</td></tr><tr><td>z</td></tr></table></body></html>'.encode()
    return "html", d, len(d)


def f_docx_gridspan(n):
    from vlib.gen import ooxml
    W = ooxml.W
    doc = (f'<?xml version="1.0"?><w:document xmlns:w="{W}"><w:body><w:tbl><w:tblGrid><w:gridCol w:w="{n}"/></w:tblGrid><w:tr><w:tc><w:tcPr><w:gridSpan w:val="{n}"/><w:vMerge w:val="restart"/></w:tcPr>'
           f'<w:p><w:r><w:t>x</w:t></w:r></w:p></w:tc></w:tr></w:tbl><w:p><w:r><w:t>y</w:t></w:r></w:p></w:body></w:document>').encode()
    parts = {"[Content_Types].xml": ooxml._ct(ooxml.IMG_DEFAULTS, {"/word/document.xml": "application/vnd.openxmlformats-officedocument.wordprocessingml.document.main+xml"}),
             "_rels/.rels": ooxml._rels([("rId1", ooxml.REL_T + "officeDocument", "word/document.xml", None)]), "word/document.xml": doc}
    return "docx", ooxml._zip(parts), sum(len(v) for v in parts.values())


def f_xlsx_declared_dimension(n):
    from vlib.gen import ooxml
    S, R_NS, REL_T = ooxml.S, ooxml.R_NS, ooxml.REL_T
    parts = {
        "[Content_Types].xml": ooxml._ct(ooxml.IMG_DEFAULTS, {"/xl/workbook.xml": "application/vnd.openxmlformats-officedocument.spreadsheetml.sheet.main+xml",
                                                           "/xl/worksheets/sheet1.xml": "application/vnd.openxmlformats-officedocument.spreadsheetml.worksheet+xml"}),
        "_rels/.rels": ooxml._rels([("rId1", REL_T + "officeDocument", "xl/workbook.xml", None)]),
        "xl/workbook.xml": f'<?xml version="1.0"?><workbook xmlns="{S}" xmlns:r="{R_NS}"><sheets><sheet name="s" sheetId="1" r:id="rId1"/></sheets></workbook>'.encode(),
        "xl/_rels/workbook.xml.rels": ooxml._rels([("rId1", REL_T + "worksheet", "worksheets/sheet1.xml", None)]),
        # one cell far away: the sheet *declares* n rows x 16384 columns
        "xl/worksheets/sheet1.xml": (f'<?xml version="1.0"?><worksheet xmlns="{S}"><dimension ref="A1:XFD{n}"/><sheetData><row r="1"><c r="A1"><v>1</v></c></row>'
                                     f'<row r="{n}"><c r="XFD{n}"><v>2</v></c></row></sheetData></worksheet>').encode(),
    }
    data = ooxml._zip(parts)
    return "xlsx", data, sum(len(v) for v in parts.values())


def f_docx_deep_tables(n):
    from vlib.gen import ooxml
    W = ooxml.W
    inner = "<w:p><w:r><w:t>x</w:t></w:r></w:p>"
    for _ in range(n):
        inner = f"<w:tbl><w:tr><w:tc>{inner}<w:p/></w:tc></w:tr></w:tbl>"
    doc = f'<?xml version="1.0"?><w:document xmlns:w="{W}"><w:body>{inner}</w:body></w:document>'.encode()
    parts = {"[Content_Types].xml": ooxml._ct(ooxml.IMG_DEFAULTS, {"/word/document.xml": "application/vnd.openxmlformats-officedocument.wordprocessingml.document.main+xml"}),
             "_rels/.rels": ooxml._rels([("rId1", ooxml.REL_T + "officeDocument", "word/document.xml", None)]), "word/document.xml": doc}
    return "docx", ooxml._zip(parts), sum(len(v) for v in parts.values())


def f_docx_entity_bomb(n):
    from vlib.gen import ooxml
    W = ooxml.W
    ents = '<!ENTITY a0 "aaaaaaaaaa">' + "".join(f'<!ENTITY a{i} "&a{i - 1};&a{i - 1};&a{i - 1};&a{i - 1};&a{i - 1};&a{i - 1};&a{i - 1};&a{i - 1};&a{i - 1};&a{i - 1};">' for i in range(1, n))
    doc = f'<?xml version="1.0"?><!DOCTYPE d [{ents}]><w:document xmlns:w="{W}"><w:body><w:p><w:r><w:t>&a{n - 1};</w:t></w:r></w:p></w:body></w:document>'.encode()
    parts = {"[Content_Types].xml": ooxml._ct(ooxml.IMG_DEFAULTS, {"/word/document.xml": "application/vnd.openxmlformats-officedocument.wordprocessingml.document.main+xml"}),
             "_rels/.rels": ooxml._rels([("rId1", ooxml.REL_T + "officeDocument", "word/document.xml", None)]), "word/document.xml": doc}
    return "docx", ooxml._zip(parts), sum(len(v) for v in parts.values())


# ---- one long internal entity referenced n times ("quadratic blow-up"): every format whose XML parts come out of a ZIP.
# 2000 characters x 3500 references = 7 MB of character data from a ~20 KB part - below the 8 MiB at which expat's own
# amplification guard wakes up, so only a parser that refuses entity declarations altogether keeps the cost bounded.
ENTITY_LEN = 2000


def _dtd():
    return '<!DOCTYPE d [<!ENTITY a "' + "A" * ENTITY_LEN + '">]>'


def _refs(n, open_tag, close_tag, per=50):
    return "".join(open_tag + "&a;" * min(per, n - i) + close_tag for i in range(0, n, per))


def f_docx_entity_refs(n):
    from vlib.gen import ooxml
    doc = (f'<?xml version="1.0"?>{_dtd()}<w:document xmlns:w="{ooxml.W}"><w:body>' + _refs(n, "<w:p><w:r><w:t>", "</w:t></w:r></w:p>") + "</w:body></w:document>").encode()
    parts = {"[Content_Types].xml": ooxml._ct(ooxml.IMG_DEFAULTS, {"/word/document.xml": "application/vnd.openxmlformats-officedocument.wordprocessingml.document.main+xml"}),
             "_rels/.rels": ooxml._rels([("rId1", ooxml.REL_T + "officeDocument", "word/document.xml", None)]), "word/document.xml": doc}
    return "docx", ooxml._zip(parts), sum(len(v) for v in parts.values())


def f_pptx_entity_refs(n):
    from vlib.gen import ooxml
    A, P, R_NS, REL_T = ooxml.A, ooxml.P, ooxml.R_NS, ooxml.REL_T
    parts = {"ppt/slides/slide1.xml": (f'<?xml version="1.0" encoding="UTF-8" standalone="yes"?>{_dtd()}<p:sld xmlns:a="{A}" xmlns:p="{P}" xmlns:r="{R_NS}"><p:cSld><p:spTree>'
                                       f'<p:nvGrpSpPr><p:cNvPr id="1" name=""/><p:cNvGrpSpPr/><p:nvPr/></p:nvGrpSpPr><p:grpSpPr/>'
                                       f'<p:sp><p:nvSpPr><p:cNvPr id="2" name="t"/><p:cNvSpPr/><p:nvPr><p:ph type="body"/></p:nvPr></p:nvSpPr><p:spPr/><p:txBody><a:bodyPr/>'
                                       + _refs(n, "<a:p><a:r><a:t>", "</a:t></a:r></a:p>") + '</p:txBody></p:sp></p:spTree></p:cSld></p:sld>').encode(),
             "ppt/slides/_rels/slide1.xml.rels": ooxml._rels([]),
             "ppt/presentation.xml": (f'<?xml version="1.0" encoding="UTF-8" standalone="yes"?><p:presentation xmlns:a="{A}" xmlns:p="{P}" xmlns:r="{R_NS}"><p:sldIdLst><p:sldId id="256" r:id="rIdS1"/></p:sldIdLst>'
                                      '<p:sldSz cx="9144000" cy="6858000"/></p:presentation>').encode(),
             "ppt/_rels/presentation.xml.rels": ooxml._rels([("rIdS1", REL_T + "slide", "slides/slide1.xml", None)]),
             "_rels/.rels": ooxml._rels([("rId1", REL_T + "officeDocument", "ppt/presentation.xml", None)]),
             "[Content_Types].xml": ooxml._ct(ooxml.IMG_DEFAULTS, {"/ppt/presentation.xml": "application/vnd.openxmlformats-officedocument.presentationml.presentation.main+xml"})}
    order = ["[Content_Types].xml", "_rels/.rels"] + [k for k in parts if k not in ("[Content_Types].xml", "_rels/.rels")]
    return "pptx", ooxml._zip(parts, order), sum(len(v) for v in parts.values())


def _odf_dtd(kind, body):
    from vlib.gen import odf
    content = f'<?xml version="1.0" encoding="UTF-8"?>{_dtd()}<office:document-content {odf.NSDECL}><office:body>{body}</office:body></office:document-content>'
    meta = f'<?xml version="1.0" encoding="UTF-8"?><office:document-meta {odf.NSDECL}><office:meta/></office:document-meta>'
    return kind, odf._pkg(kind, content, meta, None, {}), len(content) + len(meta)


def f_odt_entity_refs(n):
    return _odf_dtd("odt", "<office:text>" + _refs(n, "<text:p>", "</text:p>") + "</office:text>")


def f_ods_entity_refs(n):
    return _odf_dtd("ods", '<office:spreadsheet><table:table table:name="s">' + _refs(n, '<table:table-row><table:table-cell office:value-type="string"><text:p>', "</text:p></table:table-cell></table:table-row>")
                    + "</table:table></office:spreadsheet>")


def f_odp_entity_refs(n):
    return _odf_dtd("odp", '<office:presentation><draw:page draw:name="p"><draw:frame svg:x="1cm" svg:y="1cm"><draw:text-box>' + _refs(n, "<text:p>", "</text:p>") + "</draw:text-box></draw:frame></draw:page></office:presentation>")


def f_odg_entity_refs(n):
    return _odf_dtd("odg", '<office:drawing><draw:page draw:name="p"><draw:frame svg:x="1cm" svg:y="1cm" svg:width="5cm" svg:height="1cm"><draw:text-box>' + _refs(n, "<text:p>", "</text:p>")
                    + "</draw:text-box></draw:frame></draw:page></office:drawing>")


def f_epub_entity_refs(n):
    # the package document goes through the ZIP XML reader (chapters are read by an HTML parser): the references sit in its metadata
    dt = (2024, 1, 2, 3, 4, 6)
    bio = io.BytesIO()
    u = 0
    with zipfile.ZipFile(bio, "w") as z:
        def w(name, text, method=zipfile.ZIP_DEFLATED):
            nonlocal u
            u += len(text)
            z.writestr(zipfile.ZipInfo(name, date_time=dt), text, method)
        w("mimetype", "application/epub+zip", zipfile.ZIP_STORED)
        w("META-INF/container.xml", '<?xml version="1.0"?><container version="1.0" xmlns="urn:oasis:names:tc:opendocument:xmlns:container"><rootfiles>'
                                    '<rootfile full-path="OEBPS/content.opf" media-type="application/oebps-package+xml"/></rootfiles></container>')
        w("OEBPS/content.opf", f'<?xml version="1.0" encoding="utf-8"?>{_dtd()}<package xmlns="http://www.idpf.org/2007/opf" version="3.0" unique-identifier="id"><metadata xmlns:dc="http://purl.org/dc/elements/1.1/">'
                               '<dc:identifier id="id">urn:uuid:verif-c12</dc:identifier><dc:title>' + "&a;" * (n // 4) + "</dc:title><dc:creator>" + "&a;" * (n // 4) + "</dc:creator><dc:description>" + "&a;" * (n // 2)
                               + '</dc:description><dc:language>en</dc:language></metadata><manifest><item id="ch0" href="text/ch0.xhtml" media-type="application/xhtml+xml"/></manifest><spine><itemref idref="ch0"/></spine></package>')
        w("OEBPS/text/ch0.xhtml", '<?xml version="1.0" encoding="utf-8"?><!DOCTYPE html><html xmlns="http://www.w3.org/1999/xhtml"><head><title>c</title></head><body><p>chapter</p></body></html>')
    return "epub", bio.getvalue(), u


# ---- equations: every OMML structure nested n levels deep through each of its operand slots (one equation per structure and slot).
# The converter visits each node once; one that converts a slot twice costs 2^n for the structure nested through that slot.
M_NS = "http://schemas.openxmlformats.org/officeDocument/2006/math"


def _omml_nested(depth):
    one = "<m:r><m:t>2</m:t></m:r>"
    shapes = {
        "d": "<m:d><m:e>{x}</m:e></m:d>", "f-num": "<m:f><m:num>{x}</m:num><m:den>{o}</m:den></m:f>", "f-den": "<m:f><m:num>{o}</m:num><m:den>{x}</m:den></m:f>",
        "rad-e": "<m:rad><m:deg/><m:e>{x}</m:e></m:rad>", "rad-deg": "<m:rad><m:deg>{x}</m:deg><m:e>{o}</m:e></m:rad>",
        "sSup-e": "<m:sSup><m:e>{x}</m:e><m:sup>{o}</m:sup></m:sSup>", "sSup-sup": "<m:sSup><m:e>{o}</m:e><m:sup>{x}</m:sup></m:sSup>",
        "sSub-e": "<m:sSub><m:e>{x}</m:e><m:sub>{o}</m:sub></m:sSub>", "sSub-sub": "<m:sSub><m:e>{o}</m:e><m:sub>{x}</m:sub></m:sSub>",
        "sSubSup-sub": "<m:sSubSup><m:e>{o}</m:e><m:sub>{x}</m:sub><m:sup>{o}</m:sup></m:sSubSup>", "sSubSup-sup": "<m:sSubSup><m:e>{o}</m:e><m:sub>{o}</m:sub><m:sup>{x}</m:sup></m:sSubSup>",
        "sPre-sub": "<m:sPre><m:sub>{x}</m:sub><m:sup>{o}</m:sup><m:e>{o}</m:e></m:sPre>", "sPre-e": "<m:sPre><m:sub>{o}</m:sub><m:sup>{o}</m:sup><m:e>{x}</m:e></m:sPre>",
        "func-e": "<m:func><m:fName><m:r><m:t>sin</m:t></m:r></m:fName><m:e>{x}</m:e></m:func>", "func-name": "<m:func><m:fName>{x}</m:fName><m:e>{o}</m:e></m:func>",
        "nary-e": '<m:nary><m:naryPr><m:chr m:val="&#8721;"/></m:naryPr><m:sub>{o}</m:sub><m:sup>{o}</m:sup><m:e>{x}</m:e></m:nary>',
        "nary-sub": '<m:nary><m:naryPr><m:chr m:val="&#8721;"/></m:naryPr><m:sub>{x}</m:sub><m:sup>{o}</m:sup><m:e>{o}</m:e></m:nary>',
        "nary-sup": '<m:nary><m:naryPr><m:chr m:val="&#8747;"/></m:naryPr><m:sub>{o}</m:sub><m:sup>{x}</m:sup><m:e>{o}</m:e></m:nary>',
        "limLow-lim": "<m:limLow><m:e>{o}</m:e><m:lim>{x}</m:lim></m:limLow>", "limLow-e": "<m:limLow><m:e>{x}</m:e><m:lim>{o}</m:lim></m:limLow>",
        "limUpp-lim": "<m:limUpp><m:e>{o}</m:e><m:lim>{x}</m:lim></m:limUpp>",
        "acc": '<m:acc><m:accPr><m:chr m:val="&#770;"/></m:accPr><m:e>{x}</m:e></m:acc>', "bar": "<m:bar><m:e>{x}</m:e></m:bar>",
        "groupChr": "<m:groupChr><m:e>{x}</m:e></m:groupChr>", "box": "<m:box><m:e>{x}</m:e></m:box>", "borderBox": "<m:borderBox><m:e>{x}</m:e></m:borderBox>",
        "eqArr": "<m:eqArr><m:e>{x}</m:e><m:e>{o}</m:e></m:eqArr>", "m": "<m:m><m:mr><m:e>{x}</m:e><m:e>{o}</m:e></m:mr><m:mr><m:e>{o}</m:e><m:e>{o}</m:e></m:mr></m:m>",
    }
    out = []
    for tpl in shapes.values():
        x = "<m:r><m:t>x</m:t></m:r>"
        for _ in range(depth):
            x = tpl.replace("{x}", x).replace("{o}", one)
        out.append(f'<m:oMath xmlns:m="{M_NS}">{x}</m:oMath>')
    return out


def f_docx_omml_many_levels_deep(n):
    return _docx_body("".join(f"<w:p>{eq}</w:p>" for eq in _omml_nested(n)))


def f_pptx_omml_many_levels_deep(n):
    from vlib.gen import ooxml
    A, P, R_NS, REL_T = ooxml.A, ooxml.P, ooxml.R_NS, ooxml.REL_T
    paras = "".join(f'<a:p><a14:m xmlns:a14="http://schemas.microsoft.com/office/drawing/2010/main">{eq}</a14:m></a:p>' for eq in _omml_nested(n))
    parts = {"ppt/slides/slide1.xml": (f'<?xml version="1.0" encoding="UTF-8" standalone="yes"?><p:sld xmlns:a="{A}" xmlns:p="{P}" xmlns:r="{R_NS}"><p:cSld><p:spTree>'
                                       f'<p:nvGrpSpPr><p:cNvPr id="1" name=""/><p:cNvGrpSpPr/><p:nvPr/></p:nvGrpSpPr><p:grpSpPr/>'
                                       f'<p:sp><p:nvSpPr><p:cNvPr id="2" name="t"/><p:cNvSpPr/><p:nvPr><p:ph type="body"/></p:nvPr></p:nvSpPr><p:spPr/><p:txBody><a:bodyPr/>'
                                       + paras + '</p:txBody></p:sp></p:spTree></p:cSld></p:sld>').encode(),
             "ppt/slides/_rels/slide1.xml.rels": ooxml._rels([]),
             "ppt/presentation.xml": (f'<?xml version="1.0" encoding="UTF-8" standalone="yes"?><p:presentation xmlns:a="{A}" xmlns:p="{P}" xmlns:r="{R_NS}"><p:sldIdLst><p:sldId id="256" r:id="rIdS1"/></p:sldIdLst>'
                                      '<p:sldSz cx="9144000" cy="6858000"/></p:presentation>').encode(),
             "ppt/_rels/presentation.xml.rels": ooxml._rels([("rIdS1", REL_T + "slide", "slides/slide1.xml", None)]),
             "_rels/.rels": ooxml._rels([("rId1", REL_T + "officeDocument", "ppt/presentation.xml", None)]),
             "[Content_Types].xml": ooxml._ct(ooxml.IMG_DEFAULTS, {"/ppt/presentation.xml": "application/vnd.openxmlformats-officedocument.presentationml.presentation.main+xml"})}
    order = ["[Content_Types].xml", "_rels/.rels"] + [k for k in parts if k not in ("[Content_Types].xml", "_rels/.rels")]
    return "pptx", ooxml._zip(parts, order), sum(len(v) for v in parts.values())


def _head_of_meta_fragments(n):
    # a head of n bytes that never closes a "<meta" it opens: the fragments sit in a comment, a style sheet, a script and an attribute
    # value; </head> comes after all of it.  Whatever looks for <meta ... charset= must not pay (fragments) x (distance to the next '>')
    q = n // 4
    frag = b"<meta " * (q // 6)
    return (b"<html><head><title>t</title><!-- " + frag + b" --" + b"><style>/* " + frag + b" */</style><script>// " + frag + b"\n</script><link rel=\"x\" title=\"" + frag
            + b"\"></head><body><p>qb00001z body text</p></body></html>")


def f_html_head_many_meta_fragments(n):
    d = _head_of_meta_fragments(n)
    return "html", d, len(d)


def f_mhtml_head_many_meta_fragments(n):
    d = (b"MIME-Version: 1.0\r\nContent-Type: multipart/related; boundary=\"BOUNDARY\"; type=\"text/html\"\r\n\r\n--BOUNDARY\r\nContent-Type: text/html; charset=\"utf-8\"\r\n"
         b"Content-Transfer-Encoding: 8bit\r\nContent-Location: http://example.com/page.html\r\n\r\n" + _head_of_meta_fragments(n) + b"\r\n--BOUNDARY--\r\n")
    return "mhtml", d, len(d)


def f_html_deep_divs(n):
    d = b"<html><body>" + b"<div>" * n + b"x" + b"</div>" * n + b"</body></html>"
    return "html", d, len(d)


def f_html_unterminated_comment(n):
    d = b"<html><body><p>a</p>" + b"<!-- x " * n + b"<p>b</p></body></html>"
    return "html", d, len(d)


def f_html_many_tables(n):
    d = b"<html><body>" + b"<table><tr><td>a</td><td>b</td></tr></table>" * n + b"</body></html>"
    return "html", d, len(d)


def f_rtf_unclosed_header_groups(n):
    d = b"{\\rtf1\\ansi " + b"{\\header x" * n + b"\\pard y\\par}"
    return "rtf", d, len(d)


def f_rtf_many_trowd(n):
    d = b"{\\rtf1\\ansi " + b"\\trowd\\cellx1000 a\\cell\\row\n" * n + b"}"
    return "rtf", d, len(d)


def f_rtf_many_trowd_one_row(n):
    # n row definitions (\\trowd) in front of a single \\row: one table row, whatever n is
    d = b"{\\rtf1\\ansi " + b"\\trowd " * n + b"\\cellx1000 a\\cell\\row\n}"
    return "rtf", d, len(d)


def f_rtf_footnote_run_before_deep_groups(n):
    # footnotes whose plain run of n characters stands in front of something the footnote pattern cannot match as a whole: a group
    # nest three and four deep, and a footnote that is never closed.  Matching must give up in time linear in n, not try every
    # way of cutting the run into pieces.
    run = "abcdefgh" * (n // 8) + "x" * (n % 8)
    d = ("{\\rtf1\\ansi body text"
         "{\\footnote " + run + "{\\b bold {\\i italic {\\ul underlined}}} tail}"
         "{\\footnote " + run + "{\\b one {\\i two {\\ul three {\\strike four}}}} tail}"
         " more body\\par{\\footnote " + run + " never closed \\par last paragraph\\par").encode("ascii") + b"}"
    return "rtf", d, len(d)


def f_rtf_deep_groups(n):
    d = b"{\\rtf1\\ansi " + b"{" * n + b"x" + b"}" * n + b"}"
    return "rtf", d, len(d)


def f_rtf_fonttbl_newlines(n):
    d = b"{\\rtf1\\ansi\\ansicpg1252\\deff0\n{\\fonttbl{\\f0\\fswiss " + b"\n" * n + b"Helvetica;}}\n\\pard x\\par}"
    return "rtf", d, len(d)


def f_mbox_many_messages(n):
    # n short messages (a few header lines, sixteen lines of text: ~1.2 KB each; 16 000 of them are 19 MB).  Whatever
    # the reader does once per separator line at a cost proportional to the mailbox (re-scan, re-slice, re-decode)
    # shows as exponent 2 here: the per-message parse is cheap (~0.15 ms), so such a term dominates from a few
    # thousand messages on.  (With 160-byte messages the parse hides a memcpy-speed quadratic term up to 30 000 messages.)
    msg = (b"From a@example.org Mon Jan  1 10:00:00 2024\nFrom: a@example.org\nTo: b@example.org\nSubject: s\nDate: Mon, 01 Jan 2024 10:00:00 +0000\nMessage-ID: <%d@x>\n\n"
           + b"0123456789 0123456789 0123456789 0123456789 0123456789 0123456789\n" * 16 + b"\n")
    d = b"".join(msg % i for i in range(n))
    return "mbox", d, len(d)


def f_mbox_many_recipients(n):
    kind, d, u = f_eml_many_recipients(n)
    d = b"From a@example.org Mon Jan  1 10:00:00 2024\n" + d + b"\n"
    return "mbox", d, len(d)


def f_eml_many_recipients(n):
    d = (b"From: a@example.org\nTo: " + b",\n ".join(b"Rcpt %d <r%d@example.org>" % (i, i) for i in range(n))
         + b"\nSubject: s\nDate: Mon, 01 Jan 2024 10:00:00 +0000\nMessage-ID: <1@x>\n\nbody\n")
    return "eml", d, len(d)


def f_eml_many_attachments(n):
    from email.message import EmailMessage
    m = EmailMessage()
    m["From"], m["To"], m["Subject"], m["Date"], m["Message-ID"] = "a@example.org", "b@example.org", "s", "Mon, 01 Jan 2024 10:00:00 +0000", "<1@x>"
    m.set_content("body\n")
    for i in range(n):
        m.add_attachment(b"attachment %d\n" % i, maintype="application", subtype="octet-stream", filename=f"a{i}.bin")
    d = m.as_bytes()
    return "eml", d, len(d)


def f_txt_long(n):
    d = b"word " * n
    return "txt", d, len(d)


def f_pdf_many_pages(n):
    from vlib.gen import pdfw
    d = pdfw.make_pdf([{"lines": ["x y z"]} for _ in range(n)])
    return "pdf", d, len(d)


def f_pdf_kids_cycle(n):
    # /Kids of the page tree points back to the tree root n levels deep
    w = []
    objs = [b"<< /Type /Catalog /Pages 2 0 R >>"]
    for i in range(n):
        objs.append(b"<< /Type /Pages /Count 1 /Kids [%d 0 R] >>" % (i + 3))
    objs.append(b"<< /Type /Pages /Count 1 /Kids [2 0 R] >>")
    out = bytearray(b"%PDF-1.4\n")
    offs = []
    for i, o in enumerate(objs, 1):
        offs.append(len(out))
        out += b"%d 0 obj\n" % i + o + b"\nendobj\n"
    xref = len(out)
    out += b"xref\n0 %d\n0000000000 65535 f \n" % (len(objs) + 1) + b"".join(b"%010d 00000 n \n" % o for o in offs)
    out += b"trailer\n<< /Size %d /Root 1 0 R >>\nstartxref\n%d\n%%%%EOF\n" % (len(objs) + 1, xref)
    return "pdf", bytes(out), len(out)


def f_ole_vector_count(n):
    """SummaryInformation with one property of type VT_VECTOR|<unknown base type> and count n (doc carrier)."""
    from vlib.gen import cfb, docs
    data, _ = docs.build("doc", 1)
    streams = dict(cfb.read_cfb(data))
    fmtid = bytes.fromhex("e0859ff2f94f6810ab9108002b27b3d9")
    prop = struct.pack("<II", 0x1000 | 0x0F, n) + b"\x00" * 16      # VT_VECTOR | <unknown base type>, count n, no data behind it
    section = struct.pack("<II", 8 + 8 + len(prop), 1) + struct.pack("<II", 2, 16) + prop
    streams["\x05SummaryInformation"] = struct.pack("<HHI", 0xFFFE, 0, 2) + b"\x00" * 16 + struct.pack("<I", 1) + fmtid + struct.pack("<I", 48) + section
    out = cfb.make_cfb(streams)
    return "doc", out, len(out)


def _jpeg_with_segment_length(data: bytes, n: int) -> bytes:
    """The JPEG's first marker segment (APP0, right after SOI, in front of the frame header) declares a length of n bytes: the length
    counts its own two bytes, so 0 and 1 are malformed, 2 is the shortest legal value.  In place - no record length changes."""
    i = data.find(b"\xff\xd8\xff\xe0")
    assert i >= 0, "no JPEG picture in the generated document"
    return data[:i + 4] + struct.pack(">H", n) + data[i + 6:]


def f_ppt_jpeg_segment_length(n):
    from vlib.gen import cfb, docs, ole
    data, _ = docs.build("ppt", 1)
    streams = dict(cfb.read_cfb(data))
    streams["Pictures"] = streams.get("Pictures", b"") + _jpeg_with_segment_length(ole._blip("jpeg", 12, 9, 7)["rec"], n)
    out = cfb.make_cfb(streams)
    return "ppt", out, len(out)


def f_xls_jpeg_segment_length(n):
    from vlib.gen import cfb, docs
    data, _ = docs.build("xls", 1)
    streams = dict(cfb.read_cfb(data))
    name = "Workbook" if "Workbook" in streams else "Book"
    streams[name] = _jpeg_with_segment_length(streams[name], n)
    out = cfb.make_cfb(streams)
    return "xls", out, len(out)


def f_xls_many_blip_headers(n):
    """Workbook stream followed (after the last sheet's EOF) by n/16 back-to-back OfficeArt BLIP record headers (JPEG blip, 8 bytes
    each) that all declare a payload of n/2 bytes - it fits into the stream, every header lies inside its predecessors' declared
    extent, and no payload is a picture.  A scanner that trusts a header it has judged skips to the end after the first one; one that
    re-visits the spanned headers copies (number of headers) x (declared length): quadratic in the file size, nothing extracted."""
    from vlib.gen import cfb, docs
    data, _ = docs.build("xls", 1)
    streams = dict(cfb.read_cfb(data))
    name = "Workbook" if "Workbook" in streams else "Book"
    hdr = struct.pack("<HHI", 0x46A0, 0xF01D, n // 2)
    streams[name] = streams[name] + hdr * (n // 16) + b"\x00" * (n // 2 + 64)
    out = cfb.make_cfb(streams)
    return "xls", out, len(out)


def f_ppt_nested_slide_lists(n):
    """'PowerPoint Document' stream whose SlideListWithText containers are nested n deep around one slide's text."""
    from vlib.gen import cfb, docs

    def rec(ver, inst, rtype, payload):
        return struct.pack("<HHI", ver | (inst << 4), rtype, len(payload)) + payload
    inner = rec(0, 0, 0x03F3, struct.pack("<IIiI", 1, 0, 0, 256) + b"\x00" * 4) + rec(0, 0, 0x0F9F, struct.pack("<I", 1)) + rec(0, 0, 0x0FA0, "qb00001z hello".encode("utf-16-le"))
    for _ in range(n):
        inner = rec(0xF, 0, 0x0FF0, inner)
    stream = rec(0xF, 0, 0x03E8, rec(1, 0, 0x03E9, b"\x00" * 40) + inner)
    base, _ = docs.build("ppt", 1)
    streams = dict(cfb.read_cfb(base))
    streams["PowerPoint Document"] = stream
    out = cfb.make_cfb(streams)
    return "ppt", out, len(out)


# ---- "many of them" families: n tiny members / sheets / slides / pages / chapters / paragraphs.  The input grows with n
# and the work per item is constant, so anything done once per item at a cost proportional to the whole (look-up by
# scanning, re-parsing the index, copying the rest) shows as exponent 2.  Series are sized so that the largest point
# costs 0.5 .. 2 s CPU on the unchanged tree: the slope is then judged on every run, not only after a regression.
ARCHIVE_EXT = {"zip": ".zip", "tar": ".tar", "tar.gz": ".tar.gz", "7z": ".7z"}     # kinds read by the archive extractor, by path


def _many_members(layout, kind, n):
    from vlib.gen import archives
    members = [{"name": f"d{i % 40}/m{i}.txt", "data": b"member %d\n" % i} for i in range(n)]
    data = archives.build(layout, members)
    return kind, data, sum(len(m["data"]) for m in members) + len(data)


def f_zip_many_small_members(n):
    return _many_members("zip-deflated", "zip", n)


def f_tar_many_small_members(n):
    return _many_members("tar", "tar", n)


# (no 7z family: the 7z path writes every member to a temporary directory, and the file-system share of its CPU time
#  varies by a factor of two between runs on a busy machine - per-member cost 0.18 .. 0.54 ms without any trend in n,
#  measured up to 16 000 members - which a slope threshold of 1.3 cannot tell from a super-linear term)


def f_xlsx_many_sheets(n):
    from vlib.gen import ooxml
    S, R_NS, REL_T = ooxml.S, ooxml.R_NS, ooxml.REL_T
    ws = "application/vnd.openxmlformats-officedocument.spreadsheetml.worksheet+xml"
    parts = {
        "[Content_Types].xml": ooxml._ct(ooxml.IMG_DEFAULTS, dict({"/xl/workbook.xml": "application/vnd.openxmlformats-officedocument.spreadsheetml.sheet.main+xml"},
                                                                   **{f"/xl/worksheets/sheet{i}.xml": ws for i in range(1, n + 1)})),
        "_rels/.rels": ooxml._rels([("rId1", REL_T + "officeDocument", "xl/workbook.xml", None)]),
        "xl/workbook.xml": (f'<?xml version="1.0"?><workbook xmlns="{S}" xmlns:r="{R_NS}"><sheets>' + "".join(f'<sheet name="s{i}" sheetId="{i}" r:id="rId{i}"/>' for i in range(1, n + 1)) + "</sheets></workbook>").encode(),
        "xl/_rels/workbook.xml.rels": ooxml._rels([(f"rId{i}", REL_T + "worksheet", f"worksheets/sheet{i}.xml", None) for i in range(1, n + 1)]),
    }
    for i in range(1, n + 1):
        parts[f"xl/worksheets/sheet{i}.xml"] = f'<?xml version="1.0"?><worksheet xmlns="{S}"><sheetData><row r="1"><c r="A1"><v>{i}</v></c><c r="B1" t="inlineStr"><is><t>x{i}</t></is></c></row></sheetData></worksheet>'.encode()
    return "xlsx", ooxml._zip(parts), sum(len(v) for v in parts.values())


def f_pptx_many_slides(n):
    from vlib.gen import ooxml
    A, P, R_NS, REL_T = ooxml.A, ooxml.P, ooxml.R_NS, ooxml.REL_T
    parts = {}
    for i in range(1, n + 1):
        parts[f"ppt/slides/slide{i}.xml"] = (f'<?xml version="1.0" encoding="UTF-8" standalone="yes"?><p:sld xmlns:a="{A}" xmlns:p="{P}" xmlns:r="{R_NS}"><p:cSld><p:spTree>'
                                             f'<p:nvGrpSpPr><p:cNvPr id="1" name=""/><p:cNvGrpSpPr/><p:nvPr/></p:nvGrpSpPr><p:grpSpPr/>'
                                             f'<p:sp><p:nvSpPr><p:cNvPr id="2" name="t"/><p:cNvSpPr/><p:nvPr><p:ph type="title"/></p:nvPr></p:nvSpPr><p:spPr/><p:txBody><a:bodyPr/><a:p><a:r><a:t>slide {i}</a:t></a:r></a:p></p:txBody></p:sp>'
                                             f'</p:spTree></p:cSld></p:sld>').encode()
        parts[f"ppt/slides/_rels/slide{i}.xml.rels"] = ooxml._rels([])
    parts["ppt/presentation.xml"] = (f'<?xml version="1.0" encoding="UTF-8" standalone="yes"?><p:presentation xmlns:a="{A}" xmlns:p="{P}" xmlns:r="{R_NS}"><p:sldIdLst>'
                                     + "".join(f'<p:sldId id="{255 + i}" r:id="rIdS{i}"/>' for i in range(1, n + 1)) + '</p:sldIdLst><p:sldSz cx="9144000" cy="6858000"/></p:presentation>').encode()
    parts["ppt/_rels/presentation.xml.rels"] = ooxml._rels([(f"rIdS{i}", REL_T + "slide", f"slides/slide{i}.xml", None) for i in range(1, n + 1)])
    parts["_rels/.rels"] = ooxml._rels([("rId1", REL_T + "officeDocument", "ppt/presentation.xml", None)])
    parts["[Content_Types].xml"] = ooxml._ct(ooxml.IMG_DEFAULTS, {"/ppt/presentation.xml": "application/vnd.openxmlformats-officedocument.presentationml.presentation.main+xml"})
    order = ["[Content_Types].xml", "_rels/.rels"] + [k for k in parts if k not in ("[Content_Types].xml", "_rels/.rels")]
    return "pptx", ooxml._zip(parts, order), sum(len(v) for v in parts.values())


def _docx_body(body):
    from vlib.gen import ooxml
    doc = f'<?xml version="1.0"?><w:document xmlns:w="{ooxml.W}"><w:body>{body}</w:body></w:document>'.encode()
    parts = {"[Content_Types].xml": ooxml._ct(ooxml.IMG_DEFAULTS, {"/word/document.xml": "application/vnd.openxmlformats-officedocument.wordprocessingml.document.main+xml"}),
             "_rels/.rels": ooxml._rels([("rId1", ooxml.REL_T + "officeDocument", "word/document.xml", None)]), "word/document.xml": doc}
    return "docx", ooxml._zip(parts), sum(len(v) for v in parts.values())


def f_docx_many_paragraphs(n):
    return _docx_body("".join(f"<w:p><w:r><w:t>para {i}</w:t></w:r></w:p>" for i in range(n)))


def f_docx_many_tables(n):
    return _docx_body("".join(f"<w:tbl><w:tr><w:tc><w:p><w:r><w:t>a{i}</w:t></w:r></w:p></w:tc><w:tc><w:p><w:r><w:t>b</w:t></w:r></w:p></w:tc></w:tr></w:tbl><w:p><w:r><w:t>p{i}</w:t></w:r></w:p>" for i in range(n)))


def f_ods_many_sheets(n):
    data, u = _odf("ods", "<office:spreadsheet>" + "".join(f'<table:table table:name="s{i}"><table:table-row><table:table-cell office:value-type="string"><text:p>x{i}</text:p></table:table-cell></table:table-row></table:table>' for i in range(n)) + "</office:spreadsheet>")
    return "ods", data, u


def f_odp_many_slides(n):
    data, u = _odf("odp", "<office:presentation>" + "".join(f'<draw:page draw:name="p{i}"><draw:frame svg:x="1cm" svg:y="1cm"><draw:text-box><text:p>slide {i}</text:p></draw:text-box></draw:frame></draw:page>' for i in range(n)) + "</office:presentation>")
    return "odp", data, u


def f_odt_many_paragraphs(n):
    data, u = _odf("odt", "<office:text>" + "".join(f"<text:p>para {i}</text:p>" for i in range(n)) + "</office:text>")
    return "odt", data, u


def f_epub_many_chapters(n):
    dt = (2024, 1, 2, 3, 4, 6)
    bio = io.BytesIO()
    u = 0
    with zipfile.ZipFile(bio, "w") as z:
        def w(name, text, method=zipfile.ZIP_DEFLATED):
            nonlocal u
            u += len(text)
            z.writestr(zipfile.ZipInfo(name, date_time=dt), text, method)
        w("mimetype", "application/epub+zip", zipfile.ZIP_STORED)
        w("META-INF/container.xml", '<?xml version="1.0"?><container version="1.0" xmlns="urn:oasis:names:tc:opendocument:xmlns:container"><rootfiles>'
                                    '<rootfile full-path="OEBPS/content.opf" media-type="application/oebps-package+xml"/></rootfiles></container>')
        w("OEBPS/content.opf", '<?xml version="1.0" encoding="utf-8"?><package xmlns="http://www.idpf.org/2007/opf" version="3.0" unique-identifier="id"><metadata xmlns:dc="http://purl.org/dc/elements/1.1/">'
                               '<dc:identifier id="id">urn:uuid:verif-c12</dc:identifier><dc:title>t</dc:title><dc:language>en</dc:language></metadata><manifest>'
                               + "".join(f'<item id="ch{i}" href="text/ch{i}.xhtml" media-type="application/xhtml+xml"/>' for i in range(n)) + "</manifest><spine>"
                               + "".join(f'<itemref idref="ch{i}"/>' for i in range(n)) + "</spine></package>")
        for i in range(n):
            w(f"OEBPS/text/ch{i}.xhtml", f'<?xml version="1.0" encoding="utf-8"?><!DOCTYPE html><html xmlns="http://www.w3.org/1999/xhtml"><head><title>c{i}</title></head><body><p>chapter {i}</p></body></html>')
    return "epub", bio.getvalue(), u


class _Blanks:
    """File object yielding ``head`` and then blanks up to ``size`` bytes (so that a big TAR member never exists in memory)."""

    def __init__(self, size, head=b""):
        self.left, self.head = size, head

    def read(self, n=-1):
        n = self.left if n is None or n < 0 else min(n, self.left)
        out = (self.head[:n] + b" " * max(0, n - len(self.head)))[:n]
        self.head = self.head[n:]
        self.left -= n
        return out


class _Switch:
    """Write-only file object in front of whichever gzip member is open at the moment."""

    def __init__(self, target):
        self.target = target

    def write(self, b):
        return self.target.write(b)


def targz_big_member(big, spelling="single", head=b"qo00001z "):
    """A .tar.gz of small.txt, big.txt (``big`` bytes: ``head`` + blanks), after.txt, written in a stream (peak memory of the
    builder: a few 100 KB).  ``spelling``: "single" - one gzip member (control); "multi-member" - RFC 1952 concatenation of two
    gzip members, cut in front of the last TAR entry (cat a.gz b.gz, bgzip, appending writers): the trailer's ISIZE then
    describes only the small last member; "forged-isize" - one gzip member whose ISIZE field says 1024."""
    import gzip
    import tarfile
    bio = io.BytesIO()
    gz = gzip.GzipFile(fileobj=bio, mode="wb", compresslevel=6, mtime=0)
    sw = _Switch(gz)
    with tarfile.open(fileobj=sw, mode="w|", format=tarfile.PAX_FORMAT) as t:
        def add(name, size, fileobj):
            ti = tarfile.TarInfo(name)
            ti.size, ti.mtime = size, 1704164646
            t.addfile(ti, fileobj)
        add("small.txt", 15, io.BytesIO(b"qa00001z small\n"))
        add("big.txt", big, _Blanks(big, head))
        if spelling == "multi-member":
            gz.close()
            sw.target = gz = gzip.GzipFile(fileobj=bio, mode="wb", compresslevel=6, mtime=0)
        add("after.txt", 15, io.BytesIO(b"qa00002z after\n"))
    gz.close()
    data = bio.getvalue()
    if spelling == "forged-isize":
        data = data[:-4] + struct.pack("<I", 1024)
    return data


def f_targz_multi_member_gzip(n):
    # n MiB of blanks in one TAR member (above the per-member limit: to be skipped, not inflated into memory), ~n KB on disk
    d = targz_big_member(n * MIB, "multi-member")
    return "tar.gz", d, len(d)


def f_html_many_paragraphs(n):
    d = b"<html><body>" + b"".join(b"<p>para %d</p>" % i for i in range(n)) + b"</body></html>"
    return "html", d, len(d)


def f_rtf_many_paragraphs(n):
    d = b"{\\rtf1\\ansi " + b"".join(b"para %d\\par\n" % i for i in range(n)) + b"}"
    return "rtf", d, len(d)


FAMILIES = {
    # name: (builder, series (quick), kind of series: "count" (input size constant) | "size" (input grows))
    "ods-columns-repeated-nonempty": (f_ods_cols_repeated, [1_000_000, 2_000_000, 4_000_000, 8_000_000], "count"),
    "ods-rows-repeated-nonempty": (f_ods_rows_repeated, [250_000, 500_000, 1_000_000, 2_000_000], "count"),
    "ods-columns-repeated-empty": (f_ods_empty_cols_repeated, [250_000, 500_000, 1_000_000, 2_000_000], "count"),
    "ods-empty-run-then-value": (f_ods_empty_run_then_value, [1_000_000, 4_000_000, 16_000_000], "count"),
    "ods-empty-rows-then-value": (f_ods_empty_rows_then_value, [1_000_000, 4_000_000, 16_000_000], "count"),
    "doc-dib-declared-dimensions": (f_doc_dib_declared_dimensions, [2_500, 5_000, 10_000], "count"),
    "doc-dib-declared-size-image": (f_doc_dib_declared_size_image, [64, 256, 1_024], "count"),
    "odt-space-count": (f_odt_space_count, [25_000_000, 50_000_000, 100_000_000, 200_000_000], "count"),
    "odp-space-count": (f_odp_space_count, [25_000_000, 50_000_000, 100_000_000, 200_000_000], "count"),
    "odt-table-cell-and-row-repeated": (f_odt_table_cell_repeated, [2_000_000, 4_000_000, 8_000_000, 16_000_000], "count"),
    "odp-table-cell-and-row-repeated": (f_odp_table_cell_repeated, [2_000_000, 4_000_000, 8_000_000, 16_000_000], "count"),
    "html-colspan-rowspan": (f_html_colspan, [2_000_000, 4_000_000, 8_000_000, 16_000_000], "count"),
    "docx-gridspan": (f_docx_gridspan, [2_000_000, 4_000_000, 8_000_000, 16_000_000], "count"),
    "xlsx-declared-dimension": (f_xlsx_declared_dimension, [100, 200, 400, 800], "count"),
    "tar.gz-multi-member-gzip": (f_targz_multi_member_gzip, [16, 32, 64], "count"),
    "docx-deep-nested-tables": (f_docx_deep_tables, [40, 80, 160, 320], "size"),
    "docx-entity-expansion": (f_docx_entity_bomb, [4, 6, 8, 10], "count"),
    "docx-entity-many-references": (f_docx_entity_refs, [500, 1_500, 3_500], "count"),
    "pptx-entity-many-references": (f_pptx_entity_refs, [500, 1_500, 3_500], "count"),
    "odt-entity-many-references": (f_odt_entity_refs, [500, 1_500, 3_500], "count"),
    "ods-entity-many-references": (f_ods_entity_refs, [500, 1_500, 3_500], "count"),
    "odp-entity-many-references": (f_odp_entity_refs, [500, 1_500, 3_500], "count"),
    "odg-entity-many-references": (f_odg_entity_refs, [500, 1_500, 3_500], "count"),
    "epub-entity-many-references": (f_epub_entity_refs, [500, 1_500, 3_500], "count"),
    "docx-omml-many-levels-deep": (f_docx_omml_many_levels_deep, [8, 16, 24], "size"),
    "pptx-omml-many-levels-deep": (f_pptx_omml_many_levels_deep, [8, 16, 24], "size"),
    "html-head-many-meta-fragments": (f_html_head_many_meta_fragments, [60_000, 120_000, 240_000], "size"),
    "mhtml-head-many-meta-fragments": (f_mhtml_head_many_meta_fragments, [60_000, 120_000, 240_000], "size"),
    "html-deep-divs": (f_html_deep_divs, [200, 400, 800, 1600], "size"),
    "html-unterminated-comments": (f_html_unterminated_comment, [2_000, 4_000, 8_000, 16_000], "size"),
    "html-many-tables": (f_html_many_tables, [1_000, 4_000, 16_000], "size"),
    "rtf-unclosed-header-groups": (f_rtf_unclosed_header_groups, [1_000, 2_000, 4_000, 8_000], "size"),
    "rtf-many-table-rows": (f_rtf_many_trowd, [750, 3_000, 12_000], "size"),
    "rtf-many-trowd-one-row": (f_rtf_many_trowd_one_row, [500, 1_000, 2_000], "size"),
    "rtf-footnote-run-before-deep-groups": (f_rtf_footnote_run_before_deep_groups, [16, 24, 32, 48], "size"),
    "rtf-deep-groups": (f_rtf_deep_groups, [5_000, 10_000, 20_000, 40_000], "size"),
    "rtf-fonttbl-newline-run": (f_rtf_fonttbl_newlines, [2_500, 5_000, 10_000, 20_000], "size"),
    "mbox-many-messages": (f_mbox_many_messages, [1_000, 4_000, 16_000], "size"),
    "mbox-many-recipients": (f_mbox_many_recipients, [2_000, 8_000, 32_000], "size"),
    "eml-many-recipients": (f_eml_many_recipients, [500, 2_000, 8_000], "size"),
    "eml-many-attachments": (f_eml_many_attachments, [500, 2_000, 8_000], "size"),
    "txt-long": (f_txt_long, [50_000, 100_000, 200_000, 400_000], "size"),
    "pdf-many-pages": (f_pdf_many_pages, [80, 320, 1_280], "size"),
    "pdf-page-tree-cycle": (f_pdf_kids_cycle, [5, 10, 20, 40], "size"),
    "ole-property-vector-count": (f_ole_vector_count, [1 << 20, 1 << 21, 1 << 22, 1 << 23], "count"),
    "ppt-jpeg-segment-length": (f_ppt_jpeg_segment_length, [0, 1, 2], "count"),
    "xls-jpeg-segment-length": (f_xls_jpeg_segment_length, [0, 1, 2], "count"),
    "xls-many-blip-headers": (f_xls_many_blip_headers, [300_000, 600_000, 1_200_000], "size"),
    "ppt-nested-slide-lists": (f_ppt_nested_slide_lists, [250, 500, 1_000, 2_000], "size"),
    "zip-many-small-members": (f_zip_many_small_members, [500, 2_000, 8_000], "size"),
    "tar-many-small-members": (f_tar_many_small_members, [500, 2_000, 8_000], "size"),
    "xlsx-many-sheets": (f_xlsx_many_sheets, [150, 600, 2_400], "size"),
    "pptx-many-slides": (f_pptx_many_slides, [125, 500, 2_000], "size"),
    "docx-many-paragraphs": (f_docx_many_paragraphs, [2_500, 10_000, 40_000], "size"),
    "docx-many-tables": (f_docx_many_tables, [750, 3_000, 12_000], "size"),
    "ods-many-sheets": (f_ods_many_sheets, [2_000, 8_000, 32_000], "size"),
    "odp-many-slides": (f_odp_many_slides, [1_500, 6_000, 24_000], "size"),
    "odt-many-paragraphs": (f_odt_many_paragraphs, [6_000, 24_000, 96_000], "size"),
    "epub-many-chapters": (f_epub_many_chapters, [500, 2_000, 8_000], "size"),
    "html-many-paragraphs": (f_html_many_paragraphs, [4_000, 16_000, 64_000], "size"),
    "rtf-many-paragraphs": (f_rtf_many_paragraphs, [8_000, 32_000, 128_000], "size"),
}

# Families whose whole series is measured by one worker process (ascending n, see work_series): the "many of them"
# families.  One process start per family instead of one per point keeps the tier's cost where it was.
ONE_WORKER_PER_SERIES = {f for f in FAMILIES if "-many-" in f}


def output_chars(r) -> int:
    """Characters a result hands back as text and as metadata strings: a lower bound of what the extraction allocated for it."""
    n = 0
    try:
        n += len(r.get_full_text() or "")
    except Exception:
        pass
    try:
        n += sum(len(v) for v in vars(r.get_metadata()).values() if isinstance(v, str))
    except Exception:
        pass
    return n


def rss_kb():
    return resource.getrusage(resource.RUSAGE_SELF).ru_maxrss


def work(case):
    from vlib import obs
    from vlib.worker import arm_cpu
    if case["part"] == "limit":
        return work_limit(case)
    if "ns" in case:
        return work_series(case)
    builder = FAMILIES[case["family"]][0]
    kind, data, u = builder(case["n"])
    path = "dir/in" + ARCHIVE_EXT.get(kind, "." + kind)
    import gc
    gc.collect()
    r0 = rss_kb()
    arm_cpu(case.get("cpu_limit", 40))
    t0 = time.process_time()
    n = 0
    exc = None
    out_chars = 0
    try:
        for r in obs.extractor("zip" if kind in ARCHIVE_EXT else kind)(io.BytesIO(data), path):
            n += 1
            out_chars += output_chars(r)
            try:
                for _ in r.iterate_units():
                    pass
            except Exception:
                pass
    except MemoryError:
        raise
    except Exception as e:
        exc = obs.exc_record(e, n)
    cpu = time.process_time() - t0
    return {"family": case["family"], "n": case["n"], "u": u, "size": len(data), "cpu": round(cpu, 3), "rss_delta_kb": max(0, rss_kb() - r0), "results": n, "out_chars": out_chars,
            "exc": exc and {"name": exc["name"], "cause": exc["cause"], "ok": exc["is_extraction_error"]}}


def work_series(case):
    """All points of one size-growing family in one process, ascending n: -> {"points": [one observation per n]}.

    * a small unmeasured warm-up input first (lazy imports, compiled patterns), so that the smallest point is not
      charged with them;
    * ru_maxrss is a high-water mark: the RSS delta of a point is the growth of the mark *beyond the smaller points
      before it* (an under-estimate by at most the previous peak - with inputs growing x4 a memory amplifier still
      shows at every step);
    * CPU time is what the slope is judged on, and one disturbed point (machine load) can tilt a three-point slope by
      0.2 .. 0.3: when the first pass gives a slope above 1.15 the series is measured again (twice when cheap) and
      the *minimum* CPU per point is reported - a real super-linear term is in every pass, a disturbance is not."""
    import gc
    from vlib import obs
    from vlib.worker import CpuBudget, arm_cpu, disarm_cpu
    fam = case["family"]
    builder = FAMILIES[fam][0]

    def run(kind, data, n):
        path = "dir/in" + ARCHIVE_EXT.get(kind, "." + kind)
        gc.collect()
        r0 = rss_kb()
        arm_cpu(case.get("cpu_limit", 40))
        t0 = time.process_time()
        k, exc, out_chars = 0, None, 0
        try:
            for r in obs.extractor("zip" if kind in ARCHIVE_EXT else kind)(io.BytesIO(data), path):
                k += 1
                out_chars += output_chars(r)
                try:
                    for _ in r.iterate_units():
                        pass
                except Exception:
                    pass
        except MemoryError:
            raise
        except Exception as e:
            exc = obs.exc_record(e, k)
        finally:
            disarm_cpu()
        cpu = time.process_time() - t0
        return {"family": fam, "n": n, "size": len(data), "cpu": round(cpu, 3), "rss_delta_kb": max(0, rss_kb() - r0), "results": k, "out_chars": out_chars,
                "exc": exc and {"name": exc["name"], "cause": exc["cause"], "ok": exc["is_extraction_error"]}}

    ns = sorted(case["ns"])
    kind, data, _ = builder(max(1, ns[0] // 8))
    run(kind, data, 0)                                  # warm-up, not reported
    points, inputs = {}, {}
    for n in ns:
        kind, data, u = inputs[n] = builder(n)
        try:
            points[n] = dict(run(kind, data, n), u=u)
        except CpuBudget:
            points[n] = {"family": fam, "n": n, "_cpu_exhausted": True}
            break                                       # the larger points would only take longer
    good = [points[n] for n in ns if n in points and "cpu" in points[n]]
    passes = 1
    if len(good) == len(ns) >= 3:
        for _ in range(2 if sum(p["cpu"] for p in good) < 2 else 1):
            if good[-1]["cpu"] < 0.4 or slope([p["u"] for p in good], [p["cpu"] for p in good]) <= 1.15:
                break
            passes += 1
            for n in ns:
                try:
                    again = run(inputs[n][0], inputs[n][1], n)
                except CpuBudget:
                    break
                points[n]["cpu"] = min(points[n]["cpu"], again["cpu"])
    return {"points": [points[n] for n in ns if n in points], "passes": passes}


# ------------------------------------------------------------------------------------------ explicit limits
def work_limit(case):
    import tempfile
    import sharepoint2text
    from sharepoint2text.parsing.exceptions import ExtractionFileTooLargeError
    from vlib import obs
    from vlib.mon import fsaudit
    which = case["which"]
    out = {"which": which, "label": case["label"]}
    import gc
    if case.get("before"):
        # the process has a history: an archive with a member of the same size was read under another configuration first
        # (a limit lowered or raised *later* must be the one that counts - nothing about a size may be remembered)
        from sharepoint2text.parsing.extractors.archive_extractor import configure_archive_extraction
        from vlib.gen import archives
        b = case["before"]
        if b.get("configure"):
            configure_archive_extraction(**b["configure"])
        for layout in b["layouts"]:
            first = archives.build(layout, [{"name": "first.txt", "data": b"qo00009z " + b"1" * (b["member_size"] - 9)}])
            try:
                out.setdefault("before_results", []).append(sum(1 for _ in obs.extractor("zip")(io.BytesIO(first), "dir/first" + archives.ext_of(layout))))
            except Exception as e:
                out.setdefault("before_results", []).append(f"raised:{type(e).__name__}")
            del first
    if case.get("configure"):
        # the public, process-global configuration call(s) first: every documented cap that is not the configured one stays where it is,
        # and a later call that sets other options leaves a configured cap alone
        from sharepoint2text.parsing.extractors.archive_extractor import configure_archive_extraction
        for cfg in (case["configure"] if isinstance(case["configure"], list) else [case["configure"]]):
            configure_archive_extraction(**cfg)
    if which == "read_file":
        with tempfile.TemporaryDirectory(prefix="verif-c12-") as td:
            p = os.path.join(td, "f.txt")
            size = case["size"]
            if case.get("tar"):
                # a valid TAR (one small text member) padded with zero blocks - ordinary end-of-archive padding - up to `size`, sparse:
                # accepted means cheap (the reader stops at the first zero block), unlike 100 MB of NUL "text"
                import tarfile
                p = os.path.join(td, "f.tar")
                with tarfile.open(p, "w") as t:
                    ti = tarfile.TarInfo("member.txt")
                    body = b"qa00001z member text\n"
                    ti.size = len(body)
                    t.addfile(ti, io.BytesIO(body))
                with open(p, "r+b") as f:
                    f.truncate(size)
            elif case.get("sparse"):
                with open(p, "wb") as f:
                    f.truncate(size)
            else:
                with open(p, "wb") as f:
                    f.write((b"word " * (size // 5 + 1))[:size])
            kwargs = {} if case.get("limit") is None else {"max_file_size": case["limit"]}
            r0 = rss_kb()
            try:
                n = sum(1 for _ in sharepoint2text.read_file(p, **kwargs))
                out["outcome"] = f"accepted:{n}"
            except ExtractionFileTooLargeError:
                out["outcome"] = "too-large"
            except Exception as e:
                out["outcome"] = f"other:{type(e).__name__}"
            out["rss_delta_kb"] = max(0, rss_kb() - r0)
        return out
    if which == "7z-size":
        size = case["size"]
        data = b"7z\xbc\xaf\x27\x1c" + bytes(size - 6)
        try:
            n = sum(1 for _ in obs.extractor("zip")(io.BytesIO(data), "dir/a.7z"))
            out["outcome"] = f"accepted:{n}"
        except ExtractionFileTooLargeError:
            out["outcome"] = "too-large"
        except Exception as e:
            out["outcome"] = f"other:{type(e).__name__}"
        return out
    if which == "member-limit":
        from vlib.gen import archives
        big = case["member_size"]
        tok = b"qo00001z "
        if case["layout"].startswith("tar.gz-"):
            data = targz_big_member(big, case["layout"][7:].replace("-gzip", ""), tok)      # streamed: the builder's own peak stays small
        else:
            members = [{"name": "small.txt", "data": b"qa00001z small\n"}, {"name": "big.txt", "data": tok + b"0" * (big - len(tok))}, {"name": "after.txt", "data": b"qa00002z after\n"}]
            if case.get("hardlink"):
                # a hard-link entry (its own size field is 0) with a supported extension pointing at the oversize member
                members.insert(2, {"name": "data/copy.html", "type": "hardlink", "link": "big.txt"})
            if case.get("dup"):
                # the oversize member's name is listed twice (two local entries, two central-directory entries): a small entry of that
                # name before or after it.  Each entry is judged and read as itself - a look-up by name finds only one of them
                twin = {"name": "big.txt", "data": b"qa00003z small entry of the same name\n"}
                members.insert(1 if case["dup"] == "small-first" else 2, twin)
            data = archives.build(case["layout"], members)
            del members
        tmp = tempfile.mkdtemp(prefix="verif-c12-")
        os.environ["TMPDIR"] = tmp
        tempfile.tempdir = tmp
        fsaudit.install()
        gc.collect()
        r0 = rss_kb()
        fsaudit.arm()
        texts = []
        try:
            for r in obs.extractor("zip")(io.BytesIO(data), "dir/a" + (".tar.gz" if case["layout"].startswith("tar.gz-") else archives.ext_of(case["layout"]))):
                texts.append(r.get_full_text()[:40])
            out["outcome"] = "ok"
        except Exception as e:
            out["outcome"] = f"raised:{type(e).__name__}"
        finally:
            fsaudit.disarm()
        out["rss_delta_kb"] = max(0, rss_kb() - r0)
        ev = fsaudit.drain()
        out["written_files"] = sorted({e["path"].rsplit("/", 1)[-1] for e in ev if e["ev"] == "open" and e.get("write")})
        out["big_in_results"] = any("qo00001z" in t for t in texts)
        out["n_results"] = len(texts)
        out["archive_size"] = len(data)
        import shutil
        shutil.rmtree(tmp, ignore_errors=True)
        return out
    raise ValueError(which)


# ------------------------------------------------------------------------------------------ parent
def slope(xs, ys):
    lx, ly = [math.log(x) for x in xs], [math.log(max(y, 1e-4)) for y in ys]
    mx, my = sum(lx) / len(lx), sum(ly) / len(ly)
    den = sum((a - mx) ** 2 for a in lx)
    return sum((a - mx) * (b - my) for a, b in zip(lx, ly)) / den if den else 0.0


def main(run):
    run.rule = ("case = one measurement (amplifier family, n) in a fresh worker process, or one explicit-limit probe; distinct = (family, n, outcome class); non-trivial = the extractor ran to completion / exception and "
                "CPU time and RSS delta were recorded (or the limit decision was observed)")
    run.assumptions = ["budgets: RSS delta <= 64 MiB + 40 x U; CPU <= 2 s + 2 us x U x log2(U); returned text + metadata strings <= 1 MiB + 4 x U characters (judged last, when neither memory nor CPU was over); slope of log CPU over log U <= 1.3 for size-growing families when the largest point costs >= 0.5 s",
                       "U = sum of member sizes for ZIP containers, file size otherwise", "CPU time is process CPU time of the worker, never wall-clock",
                       "the *-many-* families measure their whole series (n, 4n, 16n) in one worker process, ascending: the RSS delta of a point is the growth of the high-water mark beyond the smaller points before it; "
                       "when a first pass gives a slope above 1.15 the series is measured again and the minimum CPU time per point is judged (a disturbed point is not in every pass, a super-linear term is)"]
    mult = 1 if run.quick else 2
    cases = []
    for fam, (builder, series, kind) in FAMILIES.items():
        if fam in ONE_WORKER_PER_SERIES:
            cases.append({"part": "amp", "family": fam, "n": max(series) * mult, "ns": [n * mult for n in series]})
            continue
        for n in series:
            cases.append({"part": "amp", "family": fam, "n": n * mult})
    limits = []
    for lim in (1, 100, 4096):
        for size in (lim - 1, lim, lim + 1):
            limits.append({"part": "limit", "which": "read_file", "limit": lim, "size": size, "label": f"max_file_size={lim},size={size}", "expect": "too-large" if size > lim else "accepted"})
    limits.append({"part": "limit", "which": "read_file", "limit": 0, "size": 5000, "label": "max_file_size=0 (disabled),size=5000", "expect": "accepted"})
    limits.append({"part": "limit", "which": "read_file", "limit": None, "size": 100 * MIB + 1, "sparse": True, "label": "default limit,size=100MiB+1", "expect": "too-large"})
    # "Set to 0 to disable size checking": only a file above the *default* limit tells a disabled check from the default one
    limits.append({"part": "limit", "which": "read_file", "limit": 0, "size": 100 * MIB + 512, "tar": True, "label": "max_file_size=0 (disabled),size=100MiB+512", "expect": "accepted"})
    limits.append({"part": "limit", "which": "read_file", "limit": None, "size": 100 * MIB + 512, "tar": True, "label": "default limit,tar of 100MiB+512", "expect": "too-large"})
    limits.append({"part": "limit", "which": "read_file", "limit": 100 * MIB + 512, "size": 100 * MIB + 512, "tar": True, "label": "max_file_size=100MiB+512,size=100MiB+512", "expect": "accepted"})
    limits.append({"part": "limit", "which": "read_file", "limit": 100 * MIB + 511, "size": 100 * MIB + 512, "tar": True, "label": "max_file_size=100MiB+511,size=100MiB+512", "expect": "too-large"})
    limits.append({"part": "limit", "which": "7z-size", "size": 100 * MIB + 1, "label": "7z size 100MiB+1", "expect": "too-large"})
    limits.append({"part": "limit", "which": "7z-size", "size": 100 * MIB, "label": "7z size 100MiB", "expect": "not-too-large"})
    for layout in ("zip-deflated", "tar.gz", "7z-lzma-solid", "7z-lzma-per-file"):
        limits.append({"part": "limit", "which": "member-limit", "layout": layout, "member_size": 10 * MIB + 1, "label": f"{layout} member of 10MiB+1", "expect": "skipped"})
        limits.append({"part": "limit", "which": "member-limit", "layout": layout, "member_size": 10 * MIB, "label": f"{layout} member of 10MiB", "expect": "extracted"})
    for layout in ("tar", "tar.gz"):
        limits.append({"part": "limit", "which": "member-limit", "layout": layout, "member_size": 10 * MIB + 1, "hardlink": True, "label": f"{layout} hard link to a member of 10MiB+1", "expect": "skipped"})
    for layout in ("zip-deflated", "zip-stored"):
        for dup in ("small-first", "oversize-first"):
            limits.append({"part": "limit", "which": "member-limit", "layout": layout, "member_size": 10 * MIB + 1, "dup": dup,
                           "label": f"{layout} member name listed twice ({dup}), one entry of 10MiB+1", "expect": "skipped"})
    # a .tar.gz whose gzip trailer does not describe the stream: RFC 1952 concatenation (ISIZE = size of the last gzip member) / forged ISIZE
    for layout in ("tar.gz-multi-member-gzip", "tar.gz-forged-isize", "tar.gz-single"):
        limits.append({"part": "limit", "which": "member-limit", "layout": layout, "member_size": 10 * MIB + 1, "label": f"{layout} member of 10MiB+1", "expect": "skipped"})
    limits.append({"part": "limit", "which": "member-limit", "layout": "tar.gz-multi-member-gzip", "member_size": 10 * MIB, "label": "tar.gz-multi-member-gzip member of 10MiB", "expect": "extracted"})
    # the same caps after the public configuration call: only the configured cap (per-member memory budget) may move
    for mem in (32 * MIB, 1 * MIB):
        cfg = {"max_memory_size": mem}
        lab = f" after configure_archive_extraction(max_memory_size={mem // MIB}MiB)"
        limits.append({"part": "limit", "which": "7z-size", "size": 100 * MIB + 1, "configure": cfg, "label": "7z size 100MiB+1" + lab, "expect": "too-large"})
        limits.append({"part": "limit", "which": "7z-size", "size": 100 * MIB, "configure": cfg, "label": "7z size 100MiB" + lab, "expect": "not-too-large"})
        limits.append({"part": "limit", "which": "read_file", "limit": None, "size": 100 * MIB + 1, "sparse": True, "configure": cfg, "label": "default limit,size=100MiB+1" + lab, "expect": "too-large"})
    # ... and a limit changed after archives with members of the very same size were read (lowered: what was allowed before is skipped now;
    # raised: what was skipped before is extracted now), the first archive in the same and in another container format
    for layout, others in (("zip-deflated", ["zip-deflated", "tar"]), ("tar", ["zip-stored"]), ("tar.gz", ["tar.gz", "zip-deflated"])):
        limits.append({"part": "limit", "which": "member-limit", "layout": layout, "member_size": 2 * MIB, "before": {"configure": None, "layouts": others, "member_size": 2 * MIB},
                       "configure": {"max_memory_size": MIB}, "label": f"{layout} member of 2MiB after members of 2MiB were read under the default limit and the limit was lowered to 1MiB", "expect": "skipped"})
        limits.append({"part": "limit", "which": "member-limit", "layout": layout, "member_size": 2 * MIB, "before": {"configure": {"max_memory_size": MIB}, "layouts": others, "member_size": 2 * MIB},
                       "configure": {"max_memory_size": 10 * MIB}, "label": f"{layout} member of 2MiB after members of 2MiB were skipped under a 1MiB limit and the limit was raised to 10MiB", "expect": "extracted"})
    others = [{"buffer_size": 32768}, {"max_workers": 2}, {"enable_parallel": False}, {"enable_caching": False}, {"enable_streaming": False}, {}]
    for layout in ("zip-deflated", "tar"):
        limits.append({"part": "limit", "which": "member-limit", "layout": layout, "member_size": 1 * MIB + 1, "configure": [{"max_memory_size": MIB}] + others,
                       "label": f"{layout} member of 1MiB+1 after max_memory_size=1MiB and then calls that set only other options", "expect": "skipped"})
        limits.append({"part": "limit", "which": "member-limit", "layout": layout, "member_size": 10 * MIB + 1, "configure": [{"max_memory_size": 32 * MIB}] + others,
                       "label": f"{layout} member of 10MiB+1 after max_memory_size=32MiB and then calls that set only other options", "expect": "extracted"})
    limits.append({"part": "limit", "which": "member-limit", "layout": "zip-deflated", "member_size": 1 * MIB + 1, "configure": {"max_memory_size": MIB}, "label": "zip-deflated member of 1MiB+1 after configure_archive_extraction(max_memory_size=1MiB)", "expect": "skipped"})
    limits.append({"part": "limit", "which": "member-limit", "layout": "zip-deflated", "member_size": 1 * MIB, "configure": {"max_memory_size": MIB}, "label": "zip-deflated member of 1MiB after configure_archive_extraction(max_memory_size=1MiB)", "expect": "extracted"})
    limits.append({"part": "limit", "which": "member-limit", "layout": "zip-deflated", "member_size": 10 * MIB + 1, "configure": {"max_memory_size": 32 * MIB}, "label": "zip-deflated member of 10MiB+1 after configure_archive_extraction(max_memory_size=32MiB)", "expect": "extracted"})
    series = {}
    for case, ob in pool.run_cases("checks.c12:work", cases + limits, deadline_s=300, rlimit_as=3 * 2**30, fresh_worker_per_case=True):
        rep = {"case": case}
        if ob.get("_harness_error"):
            run.inconclusive("harness error: " + ob["_harness_error"])
            print(ob.get("_tb"))
            continue
        if case["part"] == "amp":
            if "points" in ob:                         # one worker measured the whole series (work_series)
                for p in ob["points"]:
                    series.setdefault(case["family"], {})[p["n"]] = p
                if ob.get("passes", 1) > 1:
                    run.count("series_measured_again_before_judging")
                continue
            series.setdefault(case["family"], {})[case["n"]] = ob
            continue
        # ---- explicit limits
        lab = case["label"]
        if ob.get("_timeout") or ob.get("_died") or ob.get("_cpu_exhausted") or ob.get("_oom"):
            run.inconclusive_cases += 1
            continue
        oc = ob.get("outcome", "")
        seen = []
        if case["which"] in ("read_file", "7z-size"):
            exp = case["expect"]
            ok = (exp == "too-large" and oc == "too-large") or (exp == "accepted" and oc.startswith("accepted")) or (exp == "not-too-large" and oc != "too-large")
            if not ok:
                key = f"C12:limit:{case['which']}{'-after-configure' if case.get('configure') else ''}:{'accepted-above-limit' if exp == 'too-large' else 'refused-at-or-below-limit'}"
                seen.append(key)
                run.violation(key, f"{lab}: outcome {oc}, expected {exp}", rep)
        else:
            fam = ("7z" if case["layout"].startswith("7z") else case["layout"]) + ("-duplicate-name" if case.get("dup") else "") + ("-after-reconfigure" if case.get("before") else "-after-configure" if case.get("configure") else "")
            if case["expect"] == "skipped":
                if ob.get("big_in_results"):
                    key = f"C12:limit:{fam}-member:oversize-member-produced-result"
                    seen.append(key)
                    run.violation(key, f"{lab}: the oversize member produced a result", rep)
                if "big.txt" in ob.get("written_files", []):
                    key = f"C12:limit:{fam}-member:oversize-member-written-to-disk"
                    seen.append(key)
                    run.violation(key, f"{lab}: the oversize member was decompressed onto disk (files written: {ob.get('written_files')})", rep)
                elif ob.get("rss_delta_kb", 0) > 9 * 1024:
                    key = f"C12:limit:{fam}-member:oversize-member-decompressed-into-memory"
                    seen.append(key)
                    run.violation(key, f"{lab}: RSS grew by {ob['rss_delta_kb'] // 1024} MiB while skipping a 10 MiB+1 member (archive {ob.get('archive_size')} bytes)", rep)
            else:
                if not ob.get("big_in_results"):
                    key = f"C12:limit:{fam}-member:member-at-limit-not-extracted"
                    seen.append(key)
                    run.violation(key, f"{lab}: a member of exactly the limit produced no result ({ob.get('outcome')})", rep)
        run.case(f"limit:{lab}:{oc}:{','.join(seen)}", sample={"probe": lab, "outcome": oc, "rss_delta_mib": ob.get("rss_delta_kb", 0) // 1024, "violations": seen} if len(run.samples) < 2 else None)
    # ---- amplifier families
    table = {}
    for fam, (builder, ns, kind) in FAMILIES.items():
        pts = series.get(fam, {})
        rows = []
        verdict = None
        for n in sorted(pts):
            ob = pts[n]
            if ob.get("_oom"):
                rows.append({"n": n, "outcome": "MemoryError under RLIMIT_AS 3 GiB"})
                verdict = verdict or ("memory-exhausted", f"n={n}: MemoryError under the 3 GiB address-space limit")
                continue
            if ob.get("_cpu_exhausted") or ob.get("_timeout") or ob.get("_cpu_budget_fired_at"):
                rows.append({"n": n, "outcome": "CPU limit (40 s) exhausted"})
                verdict = verdict or ("cpu-over-budget", f"n={n}: more than 40 s CPU")
                continue
            if ob.get("_died"):
                rows.append({"n": n, "outcome": "worker died"})
                verdict = verdict or ("memory-exhausted", f"n={n}: worker process died ({ob.get('returncode')})")
                continue
            u = max(ob["u"], 64)
            rss_budget = 64 * MIB + 40 * u
            cpu_budget = 2.0 + 2e-6 * u * math.log2(u)
            rows.append({"n": n, "size": ob["size"], "U": ob["u"], "cpu_s": ob["cpu"], "rss_delta_mib": round(ob["rss_delta_kb"] / 1024, 1), "results": ob["results"], "out_chars": ob.get("out_chars"), "exc": ob.get("exc")})
            run.case(f"{fam}:{n}:{'exc' if ob.get('exc') else 'ok'}", sample={"family": fam, "n": n, "input_bytes": ob["size"], "cpu_s": ob["cpu"], "rss_delta_mib": round(ob["rss_delta_kb"] / 1024, 1)} if len(run.samples) < 5 and n == max(pts) else None)
            if ob["rss_delta_kb"] * 1024 > rss_budget:
                verdict = verdict if verdict and verdict[0] == "memory-exhausted" else ("rss-over-budget", f"n={n}: RSS grew by {ob['rss_delta_kb'] // 1024} MiB for an input of {ob['size']} bytes (U={ob['u']}); budget {rss_budget // MIB} MiB")
            elif ob["cpu"] > cpu_budget and not (verdict and verdict[0] in ("memory-exhausted", "rss-over-budget")):
                verdict = ("cpu-over-budget", f"n={n}: {ob['cpu']} s CPU for an input of {ob['size']} bytes (U={ob['u']}); budget {cpu_budget:.2f} s")
            elif ob.get("out_chars", 0) > MIB + 4 * u and not verdict:
                # what is handed back is memory that was allocated: the RSS budget's 64 MiB floor is slack for the allocator and
                # late imports, not a licence to turn a 16 KB part into megabytes of text (entity references, repeat counts)
                verdict = ("output-over-budget", f"n={n}: {ob['out_chars']} characters of text / metadata from an input of {ob['size']} bytes (U={ob['u']}, x{ob['out_chars'] // u}); budget 1 MiB + 4 x U")
        good = [r for r in rows if "cpu_s" in r]
        if kind == "size" and len(good) >= 3 and good[-1]["cpu_s"] >= 0.5 and not (verdict and verdict[0] in ("memory-exhausted", "rss-over-budget")):
            # for inputs that grow with n the growth rate decides (load-insensitive); the absolute CPU budget is only the fallback
            sl = slope([r["U"] for r in good], [r["cpu_s"] for r in good])
            if sl > 1.3:
                verdict = ("superlinear-cpu", f"CPU grows with exponent {sl:.2f} over input size: " + ", ".join(f"{r['U']}B:{r['cpu_s']}s" for r in good))
        table[fam] = rows
        if verdict:
            run.violation(f"C12:{fam}:amplifier:{verdict[0]}", f"{fam}: {verdict[1]}", {"case": {"part": "amp", "family": fam, "n": max(ns)}})
    run.extras["measurements"] = table
    run.count("families_measured", sum(1 for f in table if len([r for r in table[f]]) >= 3))
    run.require("families_measured", run.counters["families_measured"], len(FAMILIES) - 1)
    run.require("limit_probes", sum(1 for s in run.distinct if s.startswith("limit:")), 51)


def replay(run, doc):
    case = doc["case"]["case"]
    for c, ob in pool.run_cases("checks.c12:work", [case], workers=1, deadline_s=300, rlimit_as=3 * 2**30):
        print(ob)
    run.case("replay")
    run.case("replay2")
