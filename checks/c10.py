"""C10 — archive members come out as themselves: right bytes, name, order; a corrupt member affects only itself.

Archives are produced by reference writers (zipfile, tarfile in its three header formats PAX / GNU / USTAR, the independent
7z writer vlib/gen/sevenz.py) over sets of generated member documents in every layout; read_archive's results are compared, in order, with extracting each eligible
member's bytes on its own through the routed extractor under the same archive!/member path.
"""
from __future__ import annotations

import io
import json
import random

from vlib import pool
from vlib.gen import archives, sevenz

LEVEL = "exploration"
MEMBER_FMTS = ["txt", "csv", "md", "json", "html", "rtf", "docx", "xlsx", "pptx", "odt", "ods", "pdf", "epub"]


def work_init(init):
    import logging
    logging.disable(logging.CRITICAL)
    import sharepoint2text  # noqa
    from vlib import corpus, obs
    for k in corpus.KINDS:
        obs.extractor(k)


# other spellings of a member type.  Which of them name a supported member is the router's business (public is_supported_file / get_extractor: its
# extension table, aliases, compound names and the MIME fallback of this host): a spelling counts when the router gives it the same extractor
ALT_EXTS = {".html": [".htm", ".xhtml", ".shtml", ".HTML", ".Htm", ".xht"], ".md": [".markdown", ".mdown", ".mkd", ".MD"], ".txt": [".text", ".log", ".TXT", ".nws", ".ksh", ".asc", ".conf"],
            ".csv": [".CSV", ".Csv"], ".json": [".JSON"], ".docx": [".DOCX", ".docm"], ".xlsx": [".XLSX", ".xlsm"], ".pptx": [".PPTX", ".pptm"], ".pdf": [".PDF"], ".rtf": [".RTF"], ".epub": [".EPUB"],
            ".odt": [".ODT"], ".ods": [".ODS"]}
_ALT = {}


def alt_extensions(ext):
    if ext not in _ALT:
        from sharepoint2text.parsing import router
        ok = []
        try:
            native = router.get_extractor("x" + ext)
            for a in ALT_EXTS.get(ext, []):
                try:
                    if router.is_supported_file("x" + a) and router.get_extractor("x" + a) is native:
                        ok.append(a)
                except Exception:
                    pass
        except Exception:
            pass
        _ALT[ext] = ok
    return _ALT[ext]


BLANK_EXTS = [".txt", ".csv", ".tsv", ".md", ".json"]      # extractors that accept empty input: an empty member is a visible member with an (empty) result


def build_members(seed: int, n: int, corrupt: int | None, with_noise: bool, prefix: str = "", dict_size: int | None = None, blanks: str | None = None,
                  updates: str | None = None, repetitive: str | None = None, magic: str | None = None):
    """-> (members for archives.build, eligible list [(name, data)], corrupted member name or None)

    ``prefix``: every member name starts with it ("./" = what `tar -czf x.tgz .`, `zip -r x.zip .` and 7z with ./ arguments write; the
    "." directory itself comes first).  ``dict_size``: the 7z folder's LZMA / LZMA2 dictionary; members are added whose content repeats at a
    distance between 2/3 of it and all of it (within one member, and as a second copy of an earlier member), so that the packed stream
    really contains matches that need the whole declared dictionary.  ``blanks``: "empty" interleaves zero-length members of the plain-text
    family (and directories next to them), "filled" is their control twin (the same members holding two bytes).  ``updates``: "same-name"
    appends newer versions of one or two earlier members under the *same* member name, as the update / append modes of tar (-u, -r) and of
    zipfile do (the archive then repeats a name; every occurrence is a member with bytes of its own); "renamed" is the control twin.
    ``repetitive``: "run" adds one or two very repetitive members of a few hundred KiB (the CSV export of a nearly empty sheet, a log of
    identical lines, one repeated character: deflate / LZMA shrink them 500:1 and more, so they dominate the archive's overall ratio although
    every size stays far below the per-member limit); "plain" is the control twin (the same members with a few KiB of ordinary text).
    ``magic``: "BZ" puts a member first whose *name* begins with the two magic bytes of a compressed stream that are printable ("BZ", bzip2) -
    in an uncompressed TAR the first member's name is the first thing in the file; "plain" is the control twin (the name prefixed with x)."""
    from vlib.gen import docs, mutate
    rng = random.Random(f"c10:{seed}")
    members, eligible = [], []
    dirs = ["", "a/", "a/b/", "docs v2/", "ünï/", "報告/", "Q1最终/", "x\u0100y/", "a\u3000b/", "\U0001F600/", "..data/", "v1...2/", "etc./",
            "long-" + "p" * 70 + "/" + "q" * 64 + "/"]      # > 100 bytes: GNU @LongLink record / ustar prefix field / pax path record in front of the member
    used = set()
    alt_used = build_members.alt_used = []
    fmts = {}
    corrupted = None
    if prefix == "./":
        members.append({"name": ".", "type": "dir"})
    if dict_size and n:
        r3 = random.Random(f"c10d:{seed}")
        abc = b"abcdefghijklmnopqrstuvwxyz ABCDEFGHIJKLM,.\n"
        table = bytes(abc[i % len(abc)] for i in range(256))
        blk = r3.randbytes(min(900, dict_size // 6)).translate(table)
        dist = r3.randint(dict_size * 2 // 3 + 8, dict_size - 8)
        fill = r3.randbytes(dist - len(blk)).translate(table)
        data = b"qr00005z " + blk + fill + blk + b" qr00006z\n"
        members.append({"name": f"{prefix}far-repeat.txt", "data": data, "type": "file"})
        eligible.append((f"{prefix}far-repeat.txt", data))
    rb = random.Random(f"c10b:{seed}")

    def blank(tag):
        d = rb.choice(dirs)
        nm = f"{prefix}{d}blank{tag}{rb.choice(BLANK_EXTS)}"
        body = b"" if blanks == "empty" else b"0\n"
        k = rb.random()
        if k < 0.3:
            members.append({"name": f"{prefix}{d}bdir{tag}", "type": "dir"})
        members.append({"name": nm, "data": body, "type": "file"})
        eligible.append((nm, body))
        if k > 0.7:
            members.append({"name": f"{prefix}{d}adir{tag}", "type": "dir"})

    if blanks and rb.random() < 0.5:
        blank("F")
    for i in range(n):
        fmt = rng.choice(MEMBER_FMTS)
        data, _ = docs.build(fmt, seed * 100 + i)
        ext = docs.BUILDERS[fmt][3]
        if rng.random() < 0.3 and alt_extensions(ext):
            ext = rng.choice(alt_extensions(ext))      # another spelling of the type: upper case, alias, or known to the router only through its MIME fallback
            alt_used.append(ext)
        d = rng.choice(dirs)
        # duplicate basenames in different folders are intended; names mix Latin-1, U+xx00 code units (0x0100, 0x4E00, 0x3000), astral and combining characters
        base = rng.choice(["report", "data", "notes", "Überblick", "same", "v1\u4e00", "Q1最终", "x\u0100", "é\u0300", "n\u3000m", "\U0001F4C4doc", "ß\u0200",
                           "draft..final", "range 1..10", "to be continued...", "a..b..c"])      # consecutive dots that are no parent reference
        name = f"{prefix}{d}{base}{i if rng.random() < 0.6 else ''}{ext}"
        if name in used:
            name = f"{prefix}{d}{base}_{i}{ext}"
        used.add(name)
        d = prefix + d
        if corrupt is not None and i == corrupt:
            r2 = random.Random(f"c10c:{seed}")
            op = r2.choice(["truncate", "bitflip", "zero", "head_only", "garbage", "garbage"])
            # "garbage": bytes the member's own extractor is certain to reject (the failure must stay contained)
            data = bytes(r2.randrange(256) for _ in range(200)) if op == "garbage" else mutate.byte_mutate(data, op, r2)
            corrupted = name
        twin = None
        if with_noise and rng.random() < 0.25:
            # a resource-fork-directory member with the *same base name* as the visible member, in front of it or behind it
            twin = {"name": f"__MACOSX/{name}" if rng.random() < 0.5 else f"__MACOSX/{name.rsplit('/', 1)[-1]}", "data": b"qr00007z fork twin\n", "type": "file"}
            if rng.random() < 0.5:
                members.append(twin)
                twin = None
        members.append({"name": name, "data": data, "type": "file"})
        eligible.append((name, data))
        fmts[name] = fmt
        if twin:
            members.append(twin)
        if dict_size and i == n - 1 and len(eligible) >= 2 and corrupt is None:
            # second copy of an earlier member under another name: in a solid folder a match as far back as the members in between are long
            cname, cdata = eligible[rng.randrange(len(eligible) - 1)]
            cname = cname.rsplit("/", 1)[0] + "/copy-of-" + cname.rsplit("/", 1)[-1] if "/" in cname else "copy-of-" + cname
            if cname not in used:
                used.add(cname)
                members.append({"name": cname, "data": cdata, "type": "file"})
                eligible.append((cname, cdata))
        if blanks and (rb.random() < 0.4 or (i == n - 1 and not any(nm.rsplit("/", 1)[-1].startswith("blank") for nm, _ in eligible))):
            blank(i)
        if with_noise and rng.random() < 0.5:
            k = rng.random()
            if k < 0.25:
                members.append({"name": f"{d}sub{i}", "type": "dir"})
            elif k < 0.45:
                members.append({"name": f"{d}empty{i}.bin", "data": b"", "type": "file"})
            elif k < 0.6:
                members.append({"name": f"{d}.hidden{i}.txt", "data": b"qr00001z hidden\n", "type": "file"})
            elif k < 0.7:
                members.append({"name": f"__MACOSX/{d}._fork{i}.txt", "data": b"qr00002z fork\n", "type": "file"})
            elif k < 0.85:
                members.append({"name": f"{d}tool{i}.exe", "data": b"MZ\x90\x00" + b"qr00003z", "type": "file"})
            else:
                # a nested archive of every documented kind: a readable archive of the type its name announces, with a supported file inside
                nm = f"{d}inner{i}" + rng.choice([".zip", ".tar", ".tar.gz", ".tgz", ".tar.bz2", ".tbz2", ".tar.xz", ".txz", ".7z", ".TAR.GZ", ".Tar.Xz", ".ZIP"])
                members.append({"name": nm, "data": archives.nested_for(nm, [{"name": "in/x.txt", "data": b"qr00004z nested\n"}]), "type": "file"})
    if repetitive:
        rr = random.Random(f"c10r:{seed}")
        for k in range(rr.randint(1, 2)):
            kind = rr.choice(["csv", "log", "char", "json"])
            nm = f"{prefix}{rr.choice(dirs)}" + {"csv": f"export{k}.csv", "log": f"app{k}.txt", "char": f"ruler{k}.md", "json": f"zeros{k}.json"}[kind]
            size = rr.choice([200, 400, 600, 1000]) * 1024
            unit = {"csv": b";;;;;;;\r\n", "log": b"2024-01-02 03:04:05 INFO heartbeat ok\n", "char": b"-", "json": b"0, "}[kind]
            body = b"qr00008z\n" + (unit * (size // len(unit) + 1))[:size] if repetitive == "run" else b"qr00008z\n" + bytes(rr.choice(b"abcdefghij klmnop\n") for _ in range(3000))
            at = rr.randint(0, len(members))
            members.insert(at, {"name": nm, "data": body, "type": "file"})
            # eligible follows archive order: insert behind the eligible members that precede position ``at``
            before = {m["name"] for m in members[:at]}
            eligible.insert(sum(1 for en, _ in eligible if en in before), (nm, body))
    if magic and not prefix:
        rm = random.Random(f"c10m:{seed}")
        nm = ("BZ" if magic == "BZ" else "xBZ") + rm.choice(["-Bericht.txt", "h91-report.md", "IP.csv", " 2024 plan.txt", "/inside.txt"])
        body = b"qr00009z first member\n"
        members.insert(0, {"name": nm, "data": body, "type": "file"})
        eligible.insert(0, (nm, body))
    if updates and fmts:
        ru = random.Random(f"c10u:{seed}")
        for j, name in enumerate(ru.sample(sorted(fmts), min(len(fmts), ru.randint(1, 2)))):
            if name == corrupted:
                continue
            data = docs.build(fmts[name], seed * 100 + 50 + j)[0]            # another document of the same type
            d, _, b = name.rpartition("/")
            nm = name if updates == "same-name" else (d + "/" if d else "") + "updated-" + b
            members.append({"name": nm, "data": data, "type": "file"})
            eligible.append((nm, data))
    return members, eligible, corrupted


def _canon(j):
    return json.dumps(j, sort_keys=True, ensure_ascii=True)


DECLARED_DICTS = [4096, 1 << 16, 1 << 26, 1 << 20, (1 << 20) + (1 << 19), 1 << 24, 1 << 27, (1 << 24) + (1 << 23), (1 << 26) + (1 << 25), 1 << 16, 1 << 22]
RECONF = [[{"enable_parallel": False}], [{}], [{"buffer_size": 32768}], [{"max_workers": 2}, {"enable_caching": True}], [{"enable_streaming": False, "buffer_size": 8192}]]


def work(case):
    """Option calls that do not mention the per-member limit (configure_archive_extraction: None = leave as it is) come first when the case
    names them; the configuration is restored afterwards, and a case with problems is run again without them (control twin)."""
    from vlib.worker import arm_cpu
    from sharepoint2text.parsing.extractors import archive_extractor as AE
    arm_cpu(120)
    if case.get("reconf") is None:
        return _work_all(case)
    saved = AE._config
    try:
        for kw in RECONF[case["reconf"] % len(RECONF)]:
            AE.configure_archive_extraction(**kw)
        out = _work_all(case)
    finally:
        AE._config = saved
    if out["problems"]:
        out["reconf_twin_problems"] = sorted({p["sym"] for p in _work_all(case)["problems"]})
    return out


def _work_all(case):
    blanks = "empty" if case.get("blanks") else None
    upd = "same-name" if case.get("updates") else None
    rep_ = "run" if case.get("repetitive") else None
    mg = "BZ" if case.get("magicname") else None
    sub = not case.get("nosub")
    out = _run(case, case.get("prefix", ""), case.get("dict"), blanks, updates=upd, repetitive=rep_, magic=mg, substreams=sub)
    if out["problems"] and case.get("bare_empty"):
        out["bare_empty_twin_problems"] = sorted({p["sym"] for p in _run(case, "", None, None, twin=True)["problems"]})
        return out
    if out["problems"] and case.get("ddict"):
        # control twin for the declared dictionary size alone
        out["ddict_twin_problems"] = sorted({p["sym"] for p in _run(case, case.get("prefix", ""), case.get("dict"), blanks, updates=upd, repetitive=rep_, magic=mg, substreams=sub, ddict_off=True)["problems"]})
        if not out["ddict_twin_problems"]:
            return out
    if out["problems"] and mg:
        # control twin for the first member's name alone
        out["magic_twin_problems"] = sorted({p["sym"] for p in _run(case, case.get("prefix", ""), case.get("dict"), blanks, updates=upd, repetitive=rep_, magic="plain", substreams=sub)["problems"]})
        if not out["magic_twin_problems"]:
            return out
    if out["problems"] and not sub:
        # control twin for the missing SubStreamsInfo section alone
        out["nosub_twin_problems"] = sorted({p["sym"] for p in _run(case, case.get("prefix", ""), case.get("dict"), blanks, updates=upd, repetitive=rep_, magic=mg, substreams=True)["problems"]})
        if not out["nosub_twin_problems"]:
            return out
    if out["problems"] and rep_:
        # control twin for the repetitive members alone: the same members holding a few KiB of ordinary text
        out["repetitive_twin_problems"] = sorted({p["sym"] for p in _run(case, case.get("prefix", ""), case.get("dict"), blanks, updates=upd, repetitive="plain")["problems"]})
    if out["problems"] and upd:
        # control twin for the repeated names alone: the newer versions under names of their own
        out["update_twin_problems"] = sorted({p["sym"] for p in _run(case, case.get("prefix", ""), case.get("dict"), blanks, updates="renamed", repetitive=rep_)["problems"]})
    if out["problems"] and blanks:
        # control twin for the empty members alone: the same archive with two bytes in each of them
        out["blank_twin_problems"] = sorted({p["sym"] for p in _run(case, case.get("prefix", ""), case.get("dict"), "filled", updates=upd, repetitive=rep_)["problems"]})
    if out["problems"] and (case.get("prefix") or case.get("dict") or case.get("ddict")) and out.get("blank_twin_problems", True):
        # control twin: the same members under plain names in a folder with the writer's default dictionary
        out["twin_problems"] = sorted({p["sym"] for p in _run(case, "", case.get("dict"), "filled" if blanks else None, twin=True, updates="renamed" if upd else None, repetitive="plain" if rep_ else None)["problems"]})
    return out


def _run(case, prefix, dict_size, blanks=None, twin=False, updates=None, repetitive=None, magic=None, substreams=True, ddict_off=False):
    from vlib import obs
    from sharepoint2text.parsing import router
    members, eligible, corrupted = build_members(case["seed"], case["n"], case.get("corrupt"), case.get("noise", True), prefix, dict_size, blanks, updates, repetitive, magic)
    layout = case["layout"]
    # an archive without any entry: 7-Zip writes the signature header alone ("bare"); the control twin carries an (empty) end header
    data = archives.build(layout, members, dict_size=None if twin else dict_size, substreams=substreams, bare_empty=bool(case.get("bare_empty")) and not members and not twin,
                          declared_dict=None if (twin or ddict_off) else case.get("ddict"))
    apath = "dir/arch" + archives.ext_of(layout)
    out = {"layout": layout, "n_members": len(members), "n_eligible": len(eligible), "size": len(data), "problems": [],
           "alt_exts": sorted(set(getattr(build_members, "alt_used", [])))}
    # expected: each eligible member extracted on its own
    expected = []
    for name, mdata in eligible:
        base = name.rsplit("/", 1)[-1]
        try:
            fn = router.get_extractor(base)
            res = list(fn(io.BytesIO(mdata), f"{apath}!/{name}"))
            expected.append((name, [_canon(r.to_json()) for r in res], None))
        except Exception as e:
            expected.append((name, [], type(e).__name__))
    try:
        got = list(obs.extractor("zip")(io.BytesIO(data), apath))
    except Exception as e:
        out["exc"] = obs.exc_record(e)
        out["problems"].append({"sym": "valid-archive-rejected", "detail": f"{out['exc']['name']}: {out['exc']['msg']}"})
        return out
    out["n_results"] = len(got)
    gj = []
    for r in got:
        try:
            gj.append(_canon(r.to_json()))
        except Exception as e:
            gj.append(f"<to_json raised {type(e).__name__}>")
    # walk both lists in order
    later_first, seen_first = {}, set()
    for name, exp_js, _ in reversed(expected):       # first result of every later member, per member
        later_first[name] = set(seen_first)
        if exp_js:
            seen_first.add(exp_js[0])
    gi = 0
    for name, exp_js, exp_exc in expected:
        is_corrupt = name == corrupted
        if exp_exc is not None or not exp_js:
            # the member fails on its own: it must simply be absent (contained), nothing else demanded of it
            continue
        k = len(exp_js)
        chunk = gj[gi:gi + k]
        if chunk == exp_js:
            gi += k
            # labels
            for r in got[gi - k:gi]:
                try:
                    m = r.get_metadata()
                    base = name.rsplit("/", 1)[-1]
                    if m.filename != base:
                        out["problems"].append({"sym": "label-filename-wrong", "detail": f"{m.filename!r} for member {name!r}"})
                    # "./x" and "x" name the same member: either spelling is the member's path
                    if not (m.file_path or "").endswith((f"{apath}!/{name}", f"{apath}!/{name[2:] if name.startswith('./') else name}")):
                        out["problems"].append({"sym": "label-path-not-archive-bang-member", "detail": f"{m.file_path!r} for member {name!r}"})
                except Exception as e:
                    out["problems"].append({"sym": "label-metadata-raised", "detail": f"{type(e).__name__}: {e}"})
            continue
        if is_corrupt:
            # a corrupt member may come out differently or not at all; resynchronise on the next member
            continue
        # not at the expected position: is it elsewhere (order), or different (content), or missing?
        if all(j in gj for j in exp_js):
            out["problems"].append({"sym": "member-out-of-order", "detail": f"member {name!r} is returned, but not at its archive position"})
        elif gi < len(gj) and gj[gi] in later_first.get(name, ()):
            # what stands at its position is a later member's own result: this member is missing, the others are where they belong
            out["problems"].append({"sym": "member-missing", "detail": f"member {name!r} produced no result (the next member's result follows directly)"})
        elif gi < len(gj):
            out["problems"].append({"sym": "member-content-differs-or-missing", "detail": f"member {name!r}: result at its position differs from extracting the member's bytes on its own"})
            gi += k
        else:
            out["problems"].append({"sym": "member-missing", "detail": f"member {name!r} produced no result ({len(gj)} results for {len(expected)} eligible members)"})
    extra = len(gj) - gi
    if extra > 0 and corrupted is None:
        out["problems"].append({"sym": "extra-results", "detail": f"{extra} result(s) beyond those of the eligible members"})
    out["corrupted"] = corrupted
    return out


def layout_class(layout: str) -> str:
    if layout.startswith("7z"):
        p = layout.split("-")
        lay = "mixed" if p[1] == "mixed" else ("per-file" if p[2] == "per" else p[2])
        return f"7z-{lay}" + ("+enchdr" if layout.endswith("enchdr") else "")
    return layout


def gen_cases(run):
    rng = run.rng
    cid = 0
    reps = run.n(30, 300)
    for layout in archives.EXTENDED_LAYOUTS:
        # TAR header formats other than tarfile's default (GNU tar's own format, POSIX ustar) x compression: a third of the repetitions each
        for r in range(reps if layout in archives.ALL_LAYOUTS else reps // 3):
            n = rng.choice([0, 1, 1, 2, 3, 4, 6, 10])
            corrupt = rng.randrange(n) if (n >= 2 and r % 2 == 1) else None
            cid += 1
            case = {"id": cid, "layout": layout, "seed": run.seed * 10000 + cid, "n": n, "corrupt": corrupt, "noise": r % 4 != 0}
            if layout.startswith("7z") and n == 0 and r % 2 == 0:
                case["bare_empty"], case["noise"] = True, False
            if r % 5 == 3 and not layout.startswith("7z") and n:
                case["updates"] = True          # newer versions of earlier members appended under the same names (tar -u / -r, zipfile append)
            if r % 6 == 4 or (layout.startswith("zip") and r % 3 == 0):
                case["repetitive"] = True       # a member that compresses several hundred to one
            if r % 5 == 2 and "prefix" not in case and n:
                case["magicname"] = True        # the first member's name begins with the printable magic of a compressed stream
            if layout.startswith("7z") and "per-file" in layout and r % 4 == 3:
                case["nosub"] = True            # 7z without SubStreamsInfo (legal with one file per folder: each file is its folder's whole output)
            if r % 5 == 1 and n:
                case["reconf"] = cid                # option calls that leave the member limit alone; a member of several hundred KiB is in the archive
                case["repetitive"] = True
            if r % 4 == 1:
                case["blanks"] = True           # zero-length members of the plain-text family, next to directories
            if r % 6 == 2:
                case["prefix"] = "./"           # packed from inside the directory: "./"-prefixed member names
            if layout.startswith("7z") and "copy" not in layout and r % 3 != 0:
                # dictionary of the LZMA / LZMA2 folders: every size a property byte can express up to 128 KiB, in the thorough tier now and then up to 1 MiB (2^n and 3 * 2^n), for LZMA also arbitrary values
                sizes = sevenz.lzma2_dict_sizes(10 if (run.quick or rng.random() < 0.9) else 16) + ([5000, 100000, 4097] if "lzma2" not in layout and "mixed" not in layout else [])
                case["dict"] = rng.choice(sizes)
            if layout.startswith("7z") and r % 3 == 2:
                # dictionary size *declared* in the LZMA / LZMA2 coder properties of the data folders and of a compressed header (the encoder used a smaller
                # one, as 7z -mx=9 does for small inputs): 4 KiB ... 128 MiB, 2^n and 2^n + 2^(n-1); the big ones on a part of the archives only
                case["ddict"] = DECLARED_DICTS[cid % len(DECLARED_DICTS)]
            yield case


def main(run):
    run.rule = ("case = one archive (layout = container x compression / coder x folder layout x TAR header format pax|gnu|ustar, 0..10 generated member documents, directories / empty (unsupported and plain-text) / hidden / unsupported / nested members interleaved, optionally one corrupted member); "
                "distinct = (layout, #members, corrupted?, problem set); non-trivial = read_archive's ordered results were compared with stand-alone extraction of every eligible member")
    run.assumptions = ["the 7z writer is validated on solid layouts by the repository reader itself (self-test) and follows 7zFormat.txt for the others",
                       "a member that fails on its own is only required to be absent"]
    per_layout = {}
    alt_seen = {}
    compared = 0
    for case, ob in pool.run_cases("checks.c10:work", gen_cases(run), deadline_s=300):
        rep = {"case": case}
        if ob.get("_harness_error"):
            run.inconclusive("harness error: " + ob["_harness_error"])
            print(ob.get("_tb"))
            continue
        if ob.get("_timeout") or ob.get("_died") or ob.get("_cpu_exhausted") or ob.get("_oom"):
            run.inconclusive_cases += 1
            run.case(None, nontrivial=False)
            continue
        lc = layout_class(case["layout"])
        per_layout[case["layout"]] = per_layout.get(case["layout"], 0) + 1
        compared += ob.get("n_eligible", 0)
        seen = set()
        feat = "corrupt-member" if case.get("corrupt") is not None else ("empty-archive" if case["n"] == 0 else "clean")
        dclass = None
        if case.get("dict"):
            dclass = "3x2^n" if case["dict"] in sevenz.lzma2_dict_sizes(40)[1::2] else "2^n" if case["dict"] & (case["dict"] - 1) == 0 else "arbitrary"
            run.count(f"7z_archives_with_{dclass}_dictionary_and_far_matches")
        if case.get("prefix"):
            run.count("archives_with_dot-slash_prefixed_names")
        if case.get("blanks"):
            run.count(("7z" if case["layout"].startswith("7z") else "zip_stored" if case["layout"] == "zip-stored" else "other") + "_archives_with_empty_text_members")
        if ob["problems"] and case.get("blanks") and ob.get("blank_twin_problems") == []:
            feat = "empty-member"                       # the twin whose empty members hold two bytes is clean
            if case["layout"].startswith("7z"):
                lc = "7z"                               # one mechanism for every coder / folder layout
        for a in ob.get("alt_exts", []):
            alt_seen[a.lower()] = alt_seen.get(a.lower(), 0) + 1
        if case.get("bare_empty"):
            run.count("7z_archives_without_entries_as_7zip_writes_them")
            if ob["problems"] and ob.get("bare_empty_twin_problems") == []:
                feat, lc = "empty-archive-without-end-header", "7z"
        if case.get("reconf") is not None:
            run.count("archives_read_after_option_calls_that_leave_the_member_limit_alone")
            if ob["problems"] and ob.get("reconf_twin_problems") == []:
                feat = "after-option-calls-that-do-not-mention-the-member-limit"       # the same archive under the untouched configuration is clean
        if case.get("magicname"):
            run.count(("tar_uncompressed" if archives.family(case["layout"]) == "tar" else "other") + "_archives_whose_first_member_name_starts_with_BZ")
            if ob["problems"] and ob.get("magic_twin_problems") == []:
                feat = "first-member-name-starts-with-BZ"
                lc = archives.family(case["layout"]) if not case["layout"].startswith("7z") else "7z"      # header format is irrelevant
        if case.get("nosub"):
            run.count("7z_archives_without_substreams_info")
            if ob["problems"] and ob.get("nosub_twin_problems") == [] and feat != "first-member-name-starts-with-BZ":
                feat, lc = "no-substreams-info", "7z"
                ob["problems"] = [{"sym": "members-empty-or-missing", "detail": "; ".join(p["detail"] for p in ob["problems"][:3])}]      # one mechanism, one symptom
        if case.get("repetitive"):
            run.count(("zip_deflated" if case["layout"] == "zip-deflated" else "7z" if case["layout"].startswith("7z") else "other") + "_archives_with_highly_compressible_member")
            if feat == "clean" and ob["problems"] and ob.get("repetitive_twin_problems") == []:
                feat = "highly-compressible-member"      # the twin with ordinary text in those members is clean
        if case.get("updates"):
            run.count(("zip" if case["layout"].startswith("zip") else "tar") + "_archives_with_repeated_member_names")
        if feat == "clean" and ob["problems"] and case.get("updates") and ob.get("update_twin_problems") == []:
            feat = "repeated-member-names"              # the twin with the newer versions under names of their own is clean
        twin_clean = not ob.get("twin_problems")         # the risky feature is only named when the control twin is judged clean
        ddc = None
        if case.get("ddict"):
            ddc = "declared-dictionary-64MiB-or-more" if case["ddict"] >= 1 << 26 else "declared-dictionary-larger-than-used"
            run.count("7z_archives_with_" + ddc.replace("-", "_"))
        if ob["problems"] and ddc and ob.get("ddict_twin_problems") == [] and feat in ("clean", "corrupt-member"):
            feat = ddc                  # the same archive declaring the dictionary the encoder used is clean
        if feat == "clean" and ob["problems"] and twin_clean and (dclass or case.get("prefix") or ddc):
            feat = "+".join(["clean"] + ([f"{dclass}-dictionary-far-matches"] if dclass else []) + (["dot-slash-prefixed-names"] if case.get("prefix") else []) + ([ddc] if ddc else []))
        for p in ob["problems"]:
            key = f"C10:{lc}:{feat}:{p['sym']}"
            if key not in seen:
                seen.add(key)
                run.violation(key, f"{case['layout']} ({case['n']} members, seed {case['seed']}): {p['detail']}", rep)
        run.case(f"{case['layout']}:{case['n']}:{feat}:{ob.get('n_results')}:{','.join(sorted(seen))}",
                 sample={"layout": case["layout"], "members": ob.get("n_members"), "eligible": ob.get("n_eligible"), "results": ob.get("n_results"), "corrupted": ob.get("corrupted"), "problems": sorted(seen)} if case["id"] % 29 == 0 else None)
    run.count("members_compared_with_standalone_extraction", compared)
    run.extras["archives_per_layout"] = per_layout
    run.extras["members_under_other_spellings_of_their_type"] = alt_seen
    table_only = {".htm", ".html", ".md", ".txt", ".csv", ".json", ".docx", ".docm", ".xlsx", ".xlsm", ".pptx", ".pptm", ".pdf", ".rtf", ".epub", ".odt", ".ods"}
    run.require("member_spellings_beyond_the_common_extensions", len([a for a in alt_seen if a not in table_only]), 3)
    run.require("layouts_exercised", len(per_layout), len(archives.EXTENDED_LAYOUTS))
    for fmt in ("pax", "gnu", "ustar"):     # every TAR header format must have been read back uncompressed (detection by the tar magic) and compressed
        run.require(f"tar_{fmt}_uncompressed_archives", sum(n for l, n in per_layout.items() if archives.family(l) == "tar" and archives.tar_format(l) == fmt), 5)
        run.require(f"tar_{fmt}_compressed_archives", sum(n for l, n in per_layout.items() if archives.family(l).startswith("tar.") and archives.tar_format(l) == fmt), 15)
    for k, lo in (("7z_archives_with_declared_dictionary_64MiB_or_more", run.n(20, 200)), ("7z_archives_with_declared_dictionary_larger_than_used", run.n(60, 600)),
                  ("7z_archives_without_entries_as_7zip_writes_them", run.n(8, 80)), ("archives_read_after_option_calls_that_leave_the_member_limit_alone", run.n(100, 1000)),
                  ("tar_uncompressed_archives_whose_first_member_name_starts_with_BZ", run.n(6, 60)), ("other_archives_whose_first_member_name_starts_with_BZ", run.n(60, 600)),
                  ("7z_archives_without_substreams_info", run.n(20, 200)),
                  ("zip_deflated_archives_with_highly_compressible_member", run.n(10, 100)), ("7z_archives_with_highly_compressible_member", run.n(60, 600)),
                  ("other_archives_with_highly_compressible_member", run.n(30, 300)),
                  ("tar_archives_with_repeated_member_names", run.n(25, 250)), ("zip_archives_with_repeated_member_names", run.n(6, 60)),
                  ("7z_archives_with_empty_text_members", run.n(60, 600)), ("zip_stored_archives_with_empty_text_members", run.n(5, 50)), ("other_archives_with_empty_text_members", run.n(25, 250)),
                  ("7z_archives_with_3x2^n_dictionary_and_far_matches", run.n(40, 400)), ("7z_archives_with_2^n_dictionary_and_far_matches", run.n(40, 400)),
                  ("archives_with_dot-slash_prefixed_names", run.n(60, 600))):
        run.require(k, run.counters.get(k, 0), lo)
    run.require("members_compared_with_standalone_extraction", compared, run.n(400, 8000))


def replay(run, doc):
    case = doc["case"]["case"]
    for c, ob in pool.run_cases("checks.c10:work", [case], workers=1, deadline_s=300):
        print(ob)
    run.case("replay")
    run.case("replay2")
