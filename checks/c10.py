"""C10 — archive members come out as themselves: right bytes, name, order; a corrupt member affects only itself.

Archives are produced by reference writers (zipfile, tarfile in its three header formats PAX / GNU / USTAR, the independent
7z writer vlib/gen/sevenz.py) over sets of generated member documents in every layout; read_archive's results are compared, in order, with extracting each eligible
member's bytes on its own through the routed extractor under the same archive!/member path.
"""
from __future__ import annotations

import io
import json
import random

from vlib import pool
from vlib.gen import archives

LEVEL = "exploration"
MEMBER_FMTS = ["txt", "csv", "md", "json", "html", "rtf", "docx", "xlsx", "pptx", "odt", "ods", "pdf", "epub"]


def work_init(init):
    import logging
    logging.disable(logging.CRITICAL)
    import sharepoint2text  # noqa
    from vlib import corpus, obs
    for k in corpus.KINDS:
        obs.extractor(k)


def build_members(seed: int, n: int, corrupt: int | None, with_noise: bool):
    """-> (members for archives.build, eligible list [(name, data)], corrupted member name or None)"""
    from vlib.gen import docs, mutate
    rng = random.Random(f"c10:{seed}")
    members, eligible = [], []
    dirs = ["", "a/", "a/b/", "docs v2/", "ünï/", "報告/", "Q1最终/", "x\u0100y/", "a\u3000b/", "\U0001F600/",
            "long-" + "p" * 70 + "/" + "q" * 64 + "/"]      # > 100 bytes: GNU @LongLink record / ustar prefix field / pax path record in front of the member
    used = set()
    corrupted = None
    for i in range(n):
        fmt = rng.choice(MEMBER_FMTS)
        data, _ = docs.build(fmt, seed * 100 + i)
        ext = docs.BUILDERS[fmt][3]
        d = rng.choice(dirs)
        # duplicate basenames in different folders are intended; names mix Latin-1, U+xx00 code units (0x0100, 0x4E00, 0x3000), astral and combining characters
        base = rng.choice(["report", "data", "notes", "Überblick", "same", "v1\u4e00", "Q1最终", "x\u0100", "é\u0300", "n\u3000m", "\U0001F4C4doc", "ß\u0200"])
        name = f"{d}{base}{i if rng.random() < 0.6 else ''}{ext}"
        if name in used:
            name = f"{d}{base}_{i}{ext}"
        used.add(name)
        if corrupt is not None and i == corrupt:
            r2 = random.Random(f"c10c:{seed}")
            op = r2.choice(["truncate", "bitflip", "zero", "head_only", "garbage", "garbage"])
            # "garbage": bytes the member's own extractor is certain to reject (the failure must stay contained)
            data = bytes(r2.randrange(256) for _ in range(200)) if op == "garbage" else mutate.byte_mutate(data, op, r2)
            corrupted = name
        members.append({"name": name, "data": data, "type": "file"})
        eligible.append((name, data))
        if with_noise and rng.random() < 0.5:
            k = rng.random()
            if k < 0.25:
                members.append({"name": f"{d}sub{i}", "type": "dir"})
            elif k < 0.45:
                members.append({"name": f"{d}empty{i}.bin", "data": b"", "type": "file"})
            elif k < 0.6:
                members.append({"name": f"{d}.hidden{i}.txt", "data": b"qr00001z hidden\n", "type": "file"})
            elif k < 0.7:
                members.append({"name": f"__MACOSX/{d}._fork{i}.txt", "data": b"qr00002z fork\n", "type": "file"})
            elif k < 0.85:
                members.append({"name": f"{d}tool{i}.exe", "data": b"MZ\x90\x00" + b"qr00003z", "type": "file"})
            else:
                members.append({"name": f"{d}inner{i}.zip", "data": archives.build("zip-stored", [{"name": "x.txt", "data": b"qr00004z nested\n"}]), "type": "file"})
    return members, eligible, corrupted


def _canon(j):
    return json.dumps(j, sort_keys=True, ensure_ascii=True)


def work(case):
    from vlib import obs
    from vlib.worker import arm_cpu
    from sharepoint2text.parsing import router
    arm_cpu(120)
    members, eligible, corrupted = build_members(case["seed"], case["n"], case.get("corrupt"), case.get("noise", True))
    layout = case["layout"]
    data = archives.build(layout, members)
    apath = "dir/arch" + archives.ext_of(layout)
    out = {"layout": layout, "n_members": len(members), "n_eligible": len(eligible), "size": len(data), "problems": []}
    # expected: each eligible member extracted on its own
    expected = []
    for name, mdata in eligible:
        base = name.rsplit("/", 1)[-1]
        try:
            fn = router.get_extractor(base)
            res = list(fn(io.BytesIO(mdata), f"{apath}!/{name}"))
            expected.append((name, [_canon(r.to_json()) for r in res], None))
        except Exception as e:
            expected.append((name, [], type(e).__name__))
    try:
        got = list(obs.extractor("zip")(io.BytesIO(data), apath))
    except Exception as e:
        out["exc"] = obs.exc_record(e)
        out["problems"].append({"sym": "valid-archive-rejected", "detail": f"{out['exc']['name']}: {out['exc']['msg']}"})
        return out
    out["n_results"] = len(got)
    gj = []
    for r in got:
        try:
            gj.append(_canon(r.to_json()))
        except Exception as e:
            gj.append(f"<to_json raised {type(e).__name__}>")
    # walk both lists in order
    gi = 0
    for name, exp_js, exp_exc in expected:
        is_corrupt = name == corrupted
        if exp_exc is not None or not exp_js:
            # the member fails on its own: it must simply be absent (contained), nothing else demanded of it
            continue
        k = len(exp_js)
        chunk = gj[gi:gi + k]
        if chunk == exp_js:
            gi += k
            # labels
            for r in got[gi - k:gi]:
                try:
                    m = r.get_metadata()
                    base = name.rsplit("/", 1)[-1]
                    if m.filename != base:
                        out["problems"].append({"sym": "label-filename-wrong", "detail": f"{m.filename!r} for member {name!r}"})
                    if not (m.file_path or "").endswith(f"{apath}!/{name}"):
                        out["problems"].append({"sym": "label-path-not-archive-bang-member", "detail": f"{m.file_path!r} for member {name!r}"})
                except Exception as e:
                    out["problems"].append({"sym": "label-metadata-raised", "detail": f"{type(e).__name__}: {e}"})
            continue
        if is_corrupt:
            # a corrupt member may come out differently or not at all; resynchronise on the next member
            continue
        # not at the expected position: is it elsewhere (order), or different (content), or missing?
        if all(j in gj for j in exp_js):
            out["problems"].append({"sym": "member-out-of-order", "detail": f"member {name!r} is returned, but not at its archive position"})
        elif gi < len(gj):
            out["problems"].append({"sym": "member-content-differs-or-missing", "detail": f"member {name!r}: result at its position differs from extracting the member's bytes on its own"})
            gi += k
        else:
            out["problems"].append({"sym": "member-missing", "detail": f"member {name!r} produced no result ({len(gj)} results for {len(expected)} eligible members)"})
    extra = len(gj) - gi
    if extra > 0 and corrupted is None:
        out["problems"].append({"sym": "extra-results", "detail": f"{extra} result(s) beyond those of the eligible members"})
    out["corrupted"] = corrupted
    return out


def layout_class(layout: str) -> str:
    if layout.startswith("7z"):
        p = layout.split("-")
        lay = "mixed" if p[1] == "mixed" else ("per-file" if p[2] == "per" else p[2])
        return f"7z-{lay}" + ("+enchdr" if layout.endswith("enchdr") else "")
    return layout


def gen_cases(run):
    rng = run.rng
    cid = 0
    reps = run.n(30, 300)
    for layout in archives.EXTENDED_LAYOUTS:
        # TAR header formats other than tarfile's default (GNU tar's own format, POSIX ustar) x compression: half the repetitions each
        for r in range(reps if layout in archives.ALL_LAYOUTS else reps // 2):
            n = rng.choice([0, 1, 1, 2, 3, 4, 6, 10])
            corrupt = rng.randrange(n) if (n >= 2 and r % 2 == 1) else None
            cid += 1
            yield {"id": cid, "layout": layout, "seed": run.seed * 10000 + cid, "n": n, "corrupt": corrupt, "noise": r % 4 != 0}


def main(run):
    run.rule = ("case = one archive (layout = container x compression / coder x folder layout x TAR header format pax|gnu|ustar, 0..10 generated member documents, directories / empty / hidden / unsupported / nested members interleaved, optionally one corrupted member); "
                "distinct = (layout, #members, corrupted?, problem set); non-trivial = read_archive's ordered results were compared with stand-alone extraction of every eligible member")
    run.assumptions = ["the 7z writer is validated on solid layouts by the repository reader itself (self-test) and follows 7zFormat.txt for the others",
                       "a member that fails on its own is only required to be absent"]
    per_layout = {}
    compared = 0
    for case, ob in pool.run_cases("checks.c10:work", gen_cases(run), deadline_s=300):
        rep = {"case": case}
        if ob.get("_harness_error"):
            run.inconclusive("harness error: " + ob["_harness_error"])
            print(ob.get("_tb"))
            continue
        if ob.get("_timeout") or ob.get("_died") or ob.get("_cpu_exhausted") or ob.get("_oom"):
            run.inconclusive_cases += 1
            run.case(None, nontrivial=False)
            continue
        lc = layout_class(case["layout"])
        per_layout[case["layout"]] = per_layout.get(case["layout"], 0) + 1
        compared += ob.get("n_eligible", 0)
        seen = set()
        feat = "corrupt-member" if case.get("corrupt") is not None else ("empty-archive" if case["n"] == 0 else "clean")
        for p in ob["problems"]:
            key = f"C10:{lc}:{feat}:{p['sym']}"
            if key not in seen:
                seen.add(key)
                run.violation(key, f"{case['layout']} ({case['n']} members, seed {case['seed']}): {p['detail']}", rep)
        run.case(f"{case['layout']}:{case['n']}:{feat}:{ob.get('n_results')}:{','.join(sorted(seen))}",
                 sample={"layout": case["layout"], "members": ob.get("n_members"), "eligible": ob.get("n_eligible"), "results": ob.get("n_results"), "corrupted": ob.get("corrupted"), "problems": sorted(seen)} if case["id"] % 29 == 0 else None)
    run.count("members_compared_with_standalone_extraction", compared)
    run.extras["archives_per_layout"] = per_layout
    run.require("layouts_exercised", len(per_layout), len(archives.EXTENDED_LAYOUTS))
    for fmt in ("pax", "gnu", "ustar"):     # every TAR header format must have been read back uncompressed (detection by the tar magic) and compressed
        run.require(f"tar_{fmt}_uncompressed_archives", sum(n for l, n in per_layout.items() if archives.family(l) == "tar" and archives.tar_format(l) == fmt), 5)
        run.require(f"tar_{fmt}_compressed_archives", sum(n for l, n in per_layout.items() if archives.family(l).startswith("tar.") and archives.tar_format(l) == fmt), 15)
    run.require("members_compared_with_standalone_extraction", compared, run.n(400, 8000))


def replay(run, doc):
    case = doc["case"]["case"]
    for c, ob in pool.run_cases("checks.c10:work", [case], workers=1, deadline_s=300):
        print(ob)
    run.case("replay")
    run.case("replay2")
