"""C18 — SharePoint listing is complete, exact and fault-contained.

Monitor shape: ``request_func`` of the real ``SharePointRestClient`` is a simulated Microsoft Graph
service (vlib/gen/graphsim.py) over a random document library whose ground truth the harness
knows.  Two oracles:

(a) fault-free: the multiset of (id, name, parent_path) returned by ``list_all_files``,
    ``list_files_filtered``, ``list_files_modified_since``, ``list_files_created_since`` (and, on
    (id, name) only, ``list_files_in_folder`` / ``list_drives``) must equal a reference walk of the
    library filtered by this module's own implementation of the documented semantics
    (after-inclusive, before-exclusive, extension case-insensitive, fnmatch on the full path),
    evaluated on exact integer timestamps.  Where the documentation promises nothing (timestamp
    absent from the JSON, pattern matching only case-insensitively, extension entries spelled without their dot)
    the reference is three-valued and either answer is accepted.
(b) fault enumeration: for every listing run, for EVERY request index k of the fault-free request
    sequence and every fault kind, a fresh client is run against a transport that fails exactly at
    request k.  Required: an exception of the client's own family (``SharePointRequestError`` with
    status_code/url for HTTP and network failures, incl. an answer whose status is outside 2xx — 1xx, 3xx, 4xx,
    5xx — handed back without an exception) — or a transparently recovered complete listing —
    nothing else escapes; every response object handed out so far was closed (or exited); the same
    client and a fresh client then return the complete listing from a healthy transport.

Workers (sandboxed children) only run the client and report what it did; every verdict is computed
here in the parent from the observation and the library rebuilt from the recipe.
"""
from __future__ import annotations

import fnmatch
import hashlib
import json
import random
import time
from collections import Counter

from vlib import core, pool
from vlib.gen import graphsim as G

LEVEL = "fault_enumeration"
YES, MAYBE, NO = 2, 1, 0

# risky fault kinds: kind -> (component override or None, risky feature, twin kind that must be clean)
RISKY_KIND = {
    "wrongtype_list": (None, "json-wrong-toplevel-type", "nonjson"),
    "wrongtype_null": (None, "json-wrong-toplevel-type", "nonjson"),
    "wrongtype_str": (None, "json-wrong-toplevel-type", "nonjson"),
    "wrongtype_num": (None, "json-wrong-toplevel-type", "nonjson"),
    "nonjson_nonutf8": (None, "non-utf8-body", "nonjson"),
    "raise_timeout": ("transport", "oserror-raised-by-request-func", "urlerror"),
    "raise_disconnect": ("transport", "oserror-raised-by-request-func", "urlerror"),
    "read_incomplete": ("transport", "read-raises", "truncjson"),
    "read_timeout": ("transport", "read-raises", "truncjson"),
}
NETWORK_KINDS = ("urlerror", "raise_timeout", "raise_disconnect", "read_incomplete", "read_timeout")
LABELS = ("token", "site", "drives", "children", "children-next", "item-by-path")


# =================================================================================================
# child side: run the real client, report what it did
# =================================================================================================
def _mk_client(lib, sim):
    from sharepoint2text.sharepoint_io import EntraIDAppCredentials, SharePointRestClient

    return SharePointRestClient(lib.site_url, EntraIDAppCredentials(lib.tenant_id, lib.client_id, lib.client_secret), request_func=sim)


def _dt(b):
    from datetime import datetime, timedelta, timezone

    tz = timezone(timedelta(minutes=b["tzmin"]))
    return datetime(1970, 1, 1, tzinfo=timezone.utc).astimezone(tz) + timedelta(microseconds=b["us"])


def _invoke(client, rs):
    from sharepoint2text.sharepoint_io import FileFilter

    api = rs["api"]
    if api == "all":
        res = client.list_all_files()
    elif api == "filtered":
        f = rs["filter"]
        kw = {k: _dt(f[k]) for k in ("created_after", "created_before", "modified_after", "modified_before") if f.get(k)}
        ff = FileFilter(folder_paths=list(f.get("folder_paths") or []), path_patterns=list(f.get("path_patterns") or []),
                        extensions=list(f.get("extensions") or []), **kw)
        res = list(client.list_files_filtered(ff, drive_id=rs.get("drive")))
    elif api in ("modified_since", "created_since"):
        fn = client.list_files_modified_since if api == "modified_since" else client.list_files_created_since
        res = list(fn(_dt(rs["since"]), folder_paths=rs.get("folder_paths") or None, extensions=rs.get("extensions") or None, drive_id=rs.get("drive")))
    elif api == "in_folder":
        res = client.list_files_in_folder(rs["folder"], drive_id=rs.get("drive"))
    elif api == "drives":
        return [[str(d.get("id")), str(d.get("name")), ""] for d in client.list_drives()]
    else:
        raise AssertionError(api)
    return [[f.id, f.name, f.parent_path or ""] for f in res]


def _digest(listing) -> str:
    return hashlib.sha1(json.dumps(sorted(map(list, listing)), ensure_ascii=True).encode()).hexdigest()[:16]


def _call(client, rs, base_digest=None):
    """One observed call -> outcome dict (what happened, not whether it is right)."""
    from sharepoint2text.sharepoint_io import SharePointError, SharePointRequestError

    try:
        listing = _invoke(client, rs)
    except Exception as e:  # the exception surface is the observation
        url = getattr(e, "url", None)
        return {"exc": {"type": type(e).__name__, "module": type(e).__module__, "mro": [c.__name__ for c in type(e).__mro__],
                        "family": isinstance(e, SharePointError), "req": isinstance(e, SharePointRequestError),
                        "status_code": getattr(e, "status_code", None) if isinstance(getattr(e, "status_code", None), (int, type(None))) else repr(getattr(e, "status_code", None)),
                        "url": url if isinstance(url, (str, type(None))) else repr(url),
                        "cause": type(e.__cause__).__name__ if e.__cause__ is not None else None, "msg": str(e)[:160]}}
    d = _digest(listing)
    out = {"ret": d, "n": len(listing)}
    if base_digest is None or d != base_digest:
        out["listing"] = listing
    return out


def _run_one(lib, cache, rs, enumerate_faults, kinds, only):
    sim = G.GraphSim(lib, cache=cache)
    client = _mk_client(lib, sim)
    base = _call(client, rs)
    seq = [[e["label"], e["url"]] for e in sim.log]
    n = len(seq)
    ro = {"base": base, "seq": seq, "opened": len(sim.responses), "released": sum(r.released for r in sim.responses),
          "unclosed": [r.idx for r in sim.responses if not r.released], "ctx": sum(r.enters for r in sim.responses),
          "timeouts": sorted(set(map(repr, sim.timeouts_seen)))}
    if "exc" in base:
        return ro
    bd = base["ret"]
    ro["warm"] = _call(client, rs, bd)                # same client again, healthy transport (history: cached token / site id)
    ro["warm_nreq"] = len(sim.log) - n
    if not enumerate_faults:
        return ro
    pairs = [tuple(p) for p in only] if only is not None else [(k, kind) for k in range(n) for kind in kinds]
    table, index, recs = [], {}, []

    def ref(o):
        if "exc" in o and o["exc"].get("url") is not None:
            pass
        key = json.dumps(o, sort_keys=True)
        if key not in index:
            index[key] = len(table)
            table.append(o)
        return index[key]

    tot = Counter()
    for k, kind in pairs:
        if k >= n:
            continue
        f = G.Fault(k, kind)
        sim = G.GraphSim(lib, fault=f, cache=cache)
        client = _mk_client(lib, sim)
        o = _call(client, rs, bd)
        if "exc" in o:                                  # keep the table small: record whether the url is the failed request's
            u = o["exc"]["url"]
            o["exc"]["url_is_k"] = (u == seq[k][1])
            if u == seq[k][1]:
                o["exc"]["url"] = "<url of request k>"
        nreq = len(sim.log)
        unclosed = [r.idx for r in sim.responses if not r.released]
        opened, released = len(sim.responses), sum(r.released for r in sim.responses)
        eb = [len(sim.error_bodies), sum(b.reads > 0 for b in sim.error_bodies), sum(b.closes > 0 for b in sim.error_bodies)]
        same_url = nreq > k and sim.log[k]["url"] == seq[k][1]
        same = _call(client, rs, bd)                     # same client object, transport healthy again (the fault is one-shot)
        same_unclosed = [r.idx for r in sim.responses if not r.released]
        tot["opened"] += len(sim.responses)
        tot["released"] += sum(r.released for r in sim.responses)
        sim2 = G.GraphSim(lib, cache=cache)
        fresh = _call(_mk_client(lib, sim2), rs, bd)     # fresh client object, healthy transport
        tot["opened"] += len(sim2.responses)
        tot["released"] += sum(r.released for r in sim2.responses)
        tot["requests"] += len(sim.log) + len(sim2.log)
        recs.append([k, kind, f.fired, same_url, ref(o), nreq, opened, released, unclosed, ref(same), same_unclosed, ref(fresh), eb])
    ro["table"], ro["recs"], ro["totals"] = table, recs, dict(tot)
    return ro


def work_init(init: dict) -> None:
    import logging

    logging.disable(logging.CRITICAL)    # the client logs every token fetch / missing folder; keep the worker's stderr for real trouble


def work(case: dict) -> dict:
    lib = G.Library(case["lib"])
    cache: dict = {}
    out = {"stats": lib.stats(), "runs": []}
    for rs in case["runs"]:
        out["runs"].append(_run_one(lib, cache, rs, case.get("enumerate", True), case.get("kinds") or list(G.ALL_KINDS), case.get("only")))
    return out


# =================================================================================================
# parent side: reference semantics (independent of the client)
# =================================================================================================
def _visible_stamp(n, field):
    key = "createdDateTime" if field == "created" else "lastModifiedDateTime"
    return None if key in n.omit else getattr(n, field)


def _filter_of(rs) -> dict:
    if rs["api"] == "filtered":
        return rs["filter"]
    if rs["api"] == "modified_since":
        return {"modified_after": rs["since"], "folder_paths": rs.get("folder_paths") or [], "extensions": rs.get("extensions") or []}
    if rs["api"] == "created_since":
        return {"created_after": rs["since"], "folder_paths": rs.get("folder_paths") or [], "extensions": rs.get("extensions") or []}
    return {}


def sensitive(flt, n) -> bool:
    """True iff dropping the sub-second part of the file's timestamp changes a date comparison of this filter."""
    for field in ("created", "modified"):
        st = _visible_stamp(n, field)
        if st is None:
            continue
        t = G.stamp_ticks(st)
        for side in ("_after", "_before"):
            b = flt.get(field + side)
            if b and st[0] * 10_000_000 < b["us"] * 10 <= t:
                return True
    return False


def match(flt, n, parent_path) -> int:
    v = YES
    for field in ("created", "modified"):
        a, b = flt.get(field + "_after"), flt.get(field + "_before")
        if not a and not b:
            continue
        st = _visible_stamp(n, field)
        if st is None:
            v = min(v, MAYBE)       # nothing is promised about a file whose JSON carries no such timestamp
            continue
        t = G.stamp_ticks(st)
        if a and t < a["us"] * 10:          # inclusive lower bound
            return NO
        if b and t >= b["us"] * 10:         # exclusive upper bound
            return NO
    exts = flt.get("extensions") or []
    if exts:
        # An extension is written with its dot (".pdf", ".tar.gz"): a file matches iff its name ends with it, letter case
        # ignored — however many dots the extension has and even when the name is nothing else (".gitignore").  Entries
        # without a leading dot ("pdf", "") are not a documented spelling: either answer is accepted for names ending so.
        low = n.name.lower()
        if not any(low.endswith(e.lower()) for e in exts):
            return NO
        if not any(len(e) > 1 and e.startswith(".") and low.endswith(e.lower()) for e in exts):
            v = min(v, MAYBE)
    pats = flt.get("path_patterns") or []
    if pats:
        full = f"{parent_path}/{n.name}" if parent_path else n.name
        if not any(fnmatch.fnmatchcase(full, p) for p in pats):
            if any(fnmatch.fnmatchcase(full.lower(), p.lower()) for p in pats):
                v = min(v, MAYBE)   # fnmatch.fnmatch normalises case on some platforms
            else:
                return NO
    return v


def reference(lib, rs, skip_target: int | None = None) -> dict:
    """-> {id: (name, parent_path, verdict, node)} for the run; ``skip_target`` drops one folder_paths entry."""
    api = rs["api"]
    exp = {}
    if api == "drives":
        return {d.id: (d.name, "", YES, None) for d in lib.drives}
    drive = lib.drive(rs.get("drive"))
    if drive is None:
        return exp
    if api == "all":
        for n, pp in lib.walk_files(drive.root, ""):
            exp[n.id] = (n.name, pp, YES, n)
        return exp
    if api == "in_folder":
        p = rs["folder"].strip("/")
        f = drive.resolve(p) if p else drive.root
        if f is not None and f.kind == "folder":
            for c in f.children:
                if c.kind == "file":
                    exp[c.id] = (c.name, None, YES, c)
        return exp
    flt = _filter_of(rs)
    targets = list(flt.get("folder_paths") or [])
    starts = []
    if not targets:
        starts.append((drive.root, ""))
    for j, t in enumerate(targets):
        if j == skip_target:
            continue
        f = drive.resolve(t.strip("/")) or drive.resolve(t.strip("/"), ci=True)   # Graph addresses paths case-insensitively
        if f is not None and f.kind == "folder" and f.parent is not None:
            starts.append((f, t.strip("/")))
    for f, pp0 in starts:
        for n, pp in lib.walk_files(f, pp0):
            v = match(flt, n, pp)
            if v != NO:
                old = exp.get(n.id)
                exp[n.id] = (n.name, pp, max(v, old[2]) if old else v, n)
    return exp


def _norm_pp(p) -> str:
    return "/".join(seg for seg in (p or "").split("/") if seg)


def compare(rs, exp: dict, listing) -> list[tuple[str, str, object]]:
    """-> [(symptom, detail, node-or-None)]; empty = the listing is complete and exact."""
    problems = []
    ids = Counter(r[0] for r in listing)
    ignore_pp = rs["api"] in ("in_folder", "drives")
    for rid, name, pp in listing:
        e = exp.get(rid)
        if e is None:
            problems.append(("extra-file-returned", f"returned id={rid} name={name!r} parent_path={pp!r} which the reference does not select", _node_of(rs, rid)))
            continue
        if name != e[0]:
            problems.append(("wrong-name", f"id={rid}: name {name!r} expected {e[0]!r}", e[3]))
        if not ignore_pp and (pp or "") != (e[1] or ""):
            problems.append(("wrong-parent-path", f"id={rid} name={name!r}: parent_path {pp!r} expected {e[1]!r}", e[3]))
    for rid, c in ids.items():
        if c > 1:
            problems.append(("duplicate", f"id={rid} returned {c} times", exp.get(rid, (None, None, None, None))[3]))
    for rid, e in exp.items():
        if e[2] == YES and rid not in ids:
            problems.append(("matching-file-lost", f"id={rid} name={e[0]!r} parent_path={e[1]!r} matches but was not returned", e[3]))
    return problems


_NODES: dict = {}


def _node_of(rs, rid):
    lib = _NODES.get("lib")
    if lib is None:
        return None
    d = lib.drive(rs.get("drive"))
    return d.by_id.get(rid) if d else None


# =================================================================================================
# parent side: workload planning
# =================================================================================================
def _bound(us, rng):
    return {"us": int(us), "tzmin": rng.choice([0, 0, 0, 120, -300, 330])}


def _pick_bound(rng, lib, drive, field, risky: bool):
    """Choose a filter bound for ``field``; clean bounds never make any file of the drive 'sensitive'."""
    files = [n for n in drive.files() if _visible_stamp(n, field) is not None]
    if not files:
        return _bound(1_600_000_000_000_000, rng), "no-stamps"
    if risky:
        cands = [n for n in files if (G.stamp_ticks(_visible_stamp(n, field)) // 10) % 1_000_000 != 0]
        if not cands:
            return None, None
        n = rng.choice(cands)
        t = G.stamp_ticks(_visible_stamp(n, field))
        us = t // 10 if rng.random() < 0.6 else rng.randint(_visible_stamp(n, field)[0] * 1_000_000 + 1, t // 10)
        return _bound(us, rng), "fraction-at-bound"
    mode = rng.choice(["exact", "exact", "exact", "between", "micro", "far"])
    secs = sorted({_visible_stamp(n, field)[0] for n in files})
    tag = mode
    if mode == "exact":
        z = [n for n in files if G.stamp_ticks(_visible_stamp(n, field)) % 10_000_000 == 0]
        if z:
            us = getattr(rng.choice(z), field)[0] * 1_000_000
        else:
            us, tag = rng.choice(secs) * 1_000_000, "second-floor"
    elif mode == "between":
        us = (rng.choice(secs) + rng.choice([1, -1, 3600])) * 1_000_000
    elif mode == "micro":
        us = (rng.choice(secs) + rng.choice([0, 0, 1, -1])) * 1_000_000 + rng.choice([1, 250_000, 500_000, 999_999])
    else:
        us = (secs[0] - 10) * 1_000_000 if rng.random() < 0.5 else (secs[-1] + 10) * 1_000_000
    b = _bound(us, rng)
    probe = {field + "_after": b}
    if any(sensitive(probe, n) for n in files):
        b["us"] = b["us"] // 1_000_000 * 1_000_000      # whole-second bounds can never be sensitive
        tag = "second-floor"
    return b, tag


def _suffixes(name):
    """Every dotted suffix of a file name: 'a.tar.gz' -> '.tar.gz', '.gz'; '.gitignore' -> '.gitignore'."""
    return [name[i:] for i, c in enumerate(name) if c == "." and i < len(name) - 1 and " " not in name[i:]]


def _exts(rng, files):
    present = sorted({sfx for n, _ in files for sfx in _suffixes(n.name)[-2:]})
    out = []
    for _ in range(rng.randint(1, 3)):
        e = rng.choice(present) if present and rng.random() < 0.85 else rng.choice([".zip", ".PDF", ".docx"])
        r = rng.random()
        out.append(e.upper() if r < 0.3 else e.lower() if r < 0.6 else e.swapcase() if r < 0.7 else e)
    return out


def _patterns(rng, files):
    if not files:
        return ["*.pdf"]
    out = []
    for _ in range(rng.randint(1, 2)):
        n, pp = rng.choice(files)
        full = f"{pp}/{n.name}" if pp else n.name
        ext = "." + n.name.rsplit(".", 1)[1] if "." in n.name else ""
        r = rng.randrange(9)
        if r == 0:
            p = "*" + ext
        elif r == 1:
            p = (pp.split("/")[0] + "/*") if pp else "*"
        elif r == 2:
            p = "*/" + n.name.replace("[", "?").replace("]", "?")
        elif r == 3:
            p = "*" + n.name[1:4].replace("[", "?").replace("]", "?") + "*"
        elif r == 4:
            i = rng.randrange(len(full))
            p = (full[:i] + "?" + full[i + 1:]).replace("[", "?").replace("]", "?")
        elif r == 5:
            p = "**/*" + ext
        elif r == 6:
            p = full.replace("[", "[[]")
        elif r == 7:
            p = (pp + "/*") if pp else "*" + ext.upper()
        else:
            p = "[A-Ma-m]*"
        out.append(p)
    return out


def _folder_paths(rng, drive, tags):
    fs = drive.folders()
    out = []
    rng.shuffle(fs)
    for f in fs:
        p = f.path()
        if any(p == q or p.startswith(q + "/") or q.startswith(p + "/") for q in out):
            continue
        out.append(p)
        if len(out) >= rng.randint(1, 3):
            break
    joined = "".join(out)
    if any(c in joined for c in " #%+&'[]") or any(ord(c) > 127 for c in joined):
        tags.append("quoted-folder-path")
    if any("/" in p for p in out):
        tags.append("nested-folder-path")
    r = rng.random()
    if r < 0.15 or not out:
        out.insert(rng.randrange(len(out) + 1), "No Such Folder #1/x")
        tags.append("nonexistent-folder")
    elif r < 0.25 and drive.files():
        out.append(rng.choice(drive.files()).path())
        tags.append("folder-path-is-file")
    return out


def _plan_clean_runs(rng, lib):
    runs = []
    dflt = lib.default_drive
    named = lib.drives[1]
    runs.append({"api": "all", "tags": [], "feature": "clean"})
    # filtered, default drive, whole drive
    for which in (0, 1):
        tags = []
        drive = dflt if which == 0 or rng.random() < 0.4 else named
        files = list(lib.walk_files(drive.root, ""))
        flt = {}
        r = rng.randrange(6)
        if r in (0, 1, 5):
            field = rng.choice(["modified", "modified", "created"])
            side = rng.choice(["_after", "_before", "both"])
            if side == "both":
                a, ta = _pick_bound(rng, lib, drive, field, False)
                b, tb = _pick_bound(rng, lib, drive, field, False)
                if a["us"] > b["us"]:
                    a, b = b, a
                flt[field + "_after"], flt[field + "_before"] = a, b
                tags += [f"{field}-window", "bound:" + ta, "bound:" + tb]
            else:
                b, tb = _pick_bound(rng, lib, drive, field, False)
                flt[field + side] = b
                tags += [field + side, "bound:" + tb]
        if r in (1, 2) or rng.random() < 0.25:
            flt["extensions"] = _exts(rng, files)
            tags.append("extensions")
        if r in (3, 5) or rng.random() < 0.2:
            flt["path_patterns"] = _patterns(rng, files)
            tags.append("patterns")
        if which == 1 or r == 4:
            flt["folder_paths"] = _folder_paths(rng, drive, tags)
            tags.append("folder_paths")
        rs = {"api": "filtered", "filter": flt, "tags": tags, "feature": "clean"}
        if drive is not dflt:
            rs["drive"] = drive.id
            tags.append("named-drive")
        runs.append(rs)
    # *_since
    api = rng.choice(["modified_since", "modified_since", "created_since"])
    tags = []
    drive = named if rng.random() < 0.3 else dflt
    b, tb = _pick_bound(rng, lib, drive, api.split("_")[0], False)
    rs = {"api": api, "since": b, "tags": tags, "feature": "clean"}
    tags.append("bound:" + tb)
    if rng.random() < 0.4:
        rs["folder_paths"] = _folder_paths(rng, drive, tags)
        tags.append("folder_paths")
    if rng.random() < 0.5:
        rs["extensions"] = _exts(rng, list(lib.walk_files(drive.root, "")))
        tags.append("extensions")
    if drive is not dflt:
        rs["drive"] = drive.id
        tags.append("named-drive")
    runs.append(rs)
    # list_files_in_folder
    drive = named if rng.random() < 0.3 else dflt
    fs = drive.folders()
    folder = rng.choice(fs).path() if fs and rng.random() < 0.7 else rng.choice(["/", ""])
    rs = {"api": "in_folder", "folder": folder, "tags": ["root" if folder in ("/", "") else "subfolder"], "feature": "clean"}
    if drive is not dflt:
        rs["drive"] = drive.id
        rs["tags"].append("named-drive")
    runs.append(rs)
    runs.append({"api": "drives", "tags": [], "feature": "clean"})
    return runs


def _floor_bounds(rs):
    t = json.loads(json.dumps(rs))
    for holder in (t.get("filter") or {}, t):
        for k, v in list(holder.items()):
            if isinstance(v, dict) and "us" in v:
                v["us"] = v["us"] // 1_000_000 * 1_000_000
    t["feature"] = "clean"
    t["tags"] = [x for x in t["tags"] if x != "bound:fraction-at-bound"] + ["twin"]
    return t


def _plan_frac_runs(rng, lib):
    """Risky feature: a file timestamp with a sub-second part shares its second with a filter bound."""
    runs = []
    d = lib.default_drive
    for api, field, side in (("filtered", "modified", "_after"), ("filtered", "modified", "_before"), ("modified_since", "modified", "_after"),
                             ("filtered", "created", "_before"), ("created_since", "created", "_after")):
        b, tag = _pick_bound(rng, lib, d, field, True)
        if b is None:
            continue
        if api == "filtered":
            rs = {"api": api, "filter": {field + side: b}, "tags": [field + side, "bound:" + tag], "feature": "fracbound"}
        else:
            rs = {"api": api, "since": b, "tags": ["bound:" + tag], "feature": "fracbound"}
        if any(sensitive(_filter_of(rs), n) for n in d.files()):
            runs.append(rs)
    return runs


def _plan_overlap_runs(rng, lib):
    """Risky feature: folder_paths that contain each other (or repeat)."""
    runs = []
    for d in lib.drives[:2]:
        nested = [f for f in d.folders() if f.parent.parent is not None and any(True for _ in lib.walk_files(f, ""))]
        same = [f for f in d.folders() if any(True for _ in lib.walk_files(f, ""))]
        for mode in ("nested", "repeat"):
            if mode == "nested" and nested:
                f = rng.choice(nested)
                paths = [f.parent.path(), f.path()]
                if rng.random() < 0.5:
                    paths.reverse()
                twin = [f.parent.path()]
            elif mode == "repeat" and same:
                f = rng.choice(same)
                paths, twin = [f.path(), f.path()], [f.path()]
            else:
                continue
            rs = {"api": "filtered", "filter": {"folder_paths": paths}, "tags": ["folder_paths", "overlap-" + mode], "feature": "overlap",
                  "twin_paths": twin}
            if d is not lib.default_drive:
                rs["drive"] = d.id
            runs.append(rs)
    return runs


def _plan_ext_runs(rng, lib):
    """Clean: extension filters in every shape the names of the library offer — compound ('.tar.gz'), the last component only
    ('.gz'), a whole dot-file name ('.gitignore'), each in several letter cases, mixed with absent ones, and (either answer
    accepted) spelled without the dot — through all three filtered entry points, with and without folder_paths."""
    runs = []
    far = {"us": 946_684_800_000_000, "tzmin": 0}
    recase = lambda e: rng.choice((e, e.lower(), e.upper(), e.swapcase(), e.title()))
    for d in lib.drives[:2]:
        files = list(lib.walk_files(d.root, ""))
        comp = sorted({sfx for n, _ in files for sfx in _suffixes(n.name) if sfx.count(".") >= 2 and not n.name.startswith(sfx)})
        whole = sorted({n.name for n, _ in files if n.name.startswith(".") and len(n.name) > 1 and " " not in n.name})
        last = sorted({_suffixes(n.name)[-1] for n, _ in files if _suffixes(n.name)})
        shapes = []
        for e in comp[:4]:
            shapes.append((["ext:compound"], [recase(e)]))
        for e in whole[:3]:
            shapes.append((["ext:whole-name"], [recase(e)]))
        if comp and last:
            shapes.append((["ext:compound", "ext:mixed"], [rng.choice(last), recase(rng.choice(comp)), ".zip"]))
        if whole and last:
            shapes.append((["ext:whole-name", "ext:mixed"], [".nope", recase(rng.choice(whole)), recase(rng.choice(last))]))
        if last:
            shapes.append((["ext:last-component"], [recase(rng.choice(last)) for _ in range(2)]))
            e = rng.choice(comp or last)
            shapes.append((["ext:undotted"], [recase(e[1:])]))
        for etags, exts in shapes:
            api = rng.choice(["filtered", "filtered", "modified_since", "created_since"])
            tags = ["extensions"] + etags
            fps = None
            if rng.random() < 0.3 and d.folders():
                fps = _folder_paths(rng, d, tags)
                tags.append("folder_paths")
            if api == "filtered":
                flt = {"extensions": exts}
                if fps:
                    flt["folder_paths"] = fps
                rs = {"api": api, "filter": flt, "tags": tags, "feature": "clean"}
            else:
                rs = {"api": api, "since": dict(far), "extensions": exts, "tags": tags + ["bound:far"], "feature": "clean"}
                if fps:
                    rs["folder_paths"] = fps
            if d is not lib.default_drive:
                rs["drive"] = d.id
                tags.append("named-drive")
            runs.append(rs)
    return runs


def _plan_foldersince_runs(rng, lib):
    """Clean: folder_paths combined with a lower modified bound (list_files_filtered / list_files_modified_since) where a file
    below the requested folder is at or after the bound; the folder's own stamp (older / newer / absent) must not matter."""
    runs = []
    for d in lib.drives[:2]:
        cands = []
        for f in d.folders():
            for n, pp in lib.walk_files(f, f.path()):
                if _visible_stamp(n, "modified") is not None:
                    cands.append((f, n))
        rng.shuffle(cands)
        for f, n in cands[:5]:
            sec = _visible_stamp(n, "modified")[0] - rng.choice([0, 0, 1, 3600, 86400 * 30])
            b = {"us": sec * 1_000_000, "tzmin": rng.choice([0, 0, 120, -300])}       # whole-second bounds are never 'sensitive'
            fst = _visible_stamp(f, "modified")
            tags = ["folder_paths", "folder+modified_after", "folder-stamp:" + ("absent" if fst is None else "older" if fst[0] < sec else "newer"), "bound:second-floor"]
            paths = [f.path()]
            if rng.random() < 0.3:
                others = [g.path() for g in d.folders() if g is not f and not g.path().startswith(f.path() + "/") and not f.path().startswith(g.path() + "/")]
                if others:
                    paths.insert(rng.randrange(2), rng.choice(others))
            if rng.random() < 0.5:
                rs = {"api": "modified_since", "since": b, "folder_paths": paths, "tags": tags, "feature": "clean"}
            else:
                flt = {"folder_paths": paths, "modified_after": b}
                if rng.random() < 0.3:
                    flt["modified_before"] = {"us": 2_000_000_000_000_000, "tzmin": 0}
                rs = {"api": "filtered", "filter": flt, "tags": tags + ["modified_after"], "feature": "clean"}
            if d is not lib.default_drive:
                rs["drive"] = d.id
                tags.append("named-drive")
            runs.append(rs)
    return runs


def _prefix_pairs(lib, d):
    """(A, B): sibling folders where B's name starts with A's name, both with files below."""
    has = lambda f: any(True for _ in lib.walk_files(f, ""))
    out = []
    for a in d.folders():
        for b in a.parent.children:
            if b is not a and b.kind == "folder" and b.name.startswith(a.name) and has(a) and has(b):
                out.append((a, b))
    return out


def _plan_prefix_runs(rng, lib):
    """Clean: folder_paths whose entries are string prefixes of each other without containing each other (sibling names
    "Plan" / "Plan2024"), in both orders, mixed with genuinely nested paths, repeats and a case variant, through all three
    filtered entry points.  The reference walk decides; every file is due exactly once."""
    runs = []
    far = {"us": 946_684_800_000_000, "tzmin": 0}
    for d in lib.drives[:2]:
        pairs = _prefix_pairs(lib, d)
        rng.shuffle(pairs)
        for a, b in pairs[:2]:
            A, B = a.path(), b.path()
            subs_b = [c for c in b.children if c.kind == "folder"]
            subs_a = [c for c in a.children if c.kind == "folder"]
            lists = [("prefix-first", [A, B]), ("extension-first", [B, A]), ("repeat", [A, B, A])]
            if subs_b:
                lists.append(("below-extension", [A, rng.choice(subs_b).path()]))
            if subs_a:
                x = rng.choice(subs_a).path()
                lists.append(("nested", rng.choice(([A, x, B], [x, A, B], [B, x, A]))))
            if B.swapcase() != B:
                lists.append(("case-variant", [A, B.swapcase()]))
            third = [f.path() for f in d.folders() if f is not a and f is not b and not f.path().startswith(A)]
            if third:
                lists.append(("with-unrelated", [rng.choice(third), A, B]))
            for order, paths in lists:
                api = rng.choice(["filtered", "filtered", "modified_since", "created_since"])
                tags = ["folder_paths", "prefix-sibling", "prefix-sibling:" + order]
                if api == "filtered":
                    flt = {"folder_paths": paths}
                    if rng.random() < 0.3:
                        flt["extensions"] = _exts(rng, list(lib.walk_files(b, B)))
                        tags.append("extensions")
                    rs = {"api": api, "filter": flt, "tags": tags, "feature": "clean"}
                else:
                    rs = {"api": api, "since": dict(far), "folder_paths": paths, "tags": tags + ["bound:far"], "feature": "clean"}
                if d is not lib.default_drive:
                    rs["drive"] = d.id
                    tags.append("named-drive")
                runs.append(rs)
    return runs


def _plan_slash_runs(rng, lib):
    """Risky feature: a folder_paths entry spelled with a leading / trailing slash (the lookup strips them)."""
    runs = []
    for d in lib.drives[:2]:
        fs = [f for f in d.folders() if any(True for _ in lib.walk_files(f, ""))]
        rng.shuffle(fs)
        picked = []
        for f in fs:
            if not any(f.path() == q.path() or f.path().startswith(q.path() + "/") or q.path().startswith(f.path() + "/") for q in picked):
                picked.append(f)
        for n in (1, 2):
            if len(picked) < n:
                continue
            paths = [rng.choice(("/%s", "%s/", "/%s/")) % f.path() for f in picked[:n]]
            rs = {"api": rng.choice(["filtered", "modified_since"]), "tags": ["folder_paths", "slashed-folder-path"], "feature": "slashpath"}
            if rs["api"] == "filtered":
                rs["filter"] = {"folder_paths": paths}
            else:
                rs.update(since={"us": 946_684_800_000_000, "tzmin": 0}, folder_paths=paths)
                rs["tags"].append("bound:far")
            if d is not lib.default_drive:
                rs["drive"] = d.id
            runs.append(rs)
    return runs


def _strip_slashes(rs):
    t = json.loads(json.dumps(rs))
    holder = t["filter"] if t["api"] == "filtered" else t
    holder["folder_paths"] = [p.strip("/") for p in holder["folder_paths"]]
    t["feature"] = "clean"
    t["tags"] = [x for x in t["tags"] if x != "slashed-folder-path"] + ["twin"]
    return t


def plan_cases(run) -> list[dict]:
    rng = run.rng
    cases = []
    # (shape, page sizes, weight, enumerate faults?)
    if run.quick:
        mix = [("tiny", 16, True), ("small", 18, True), ("medium", 4, True), ("deep", 4, True), ("wide", 3, True), ("large", 4, False)]
        n_frac, n_over, n_prefix, n_slash, n_ext = 5, 4, 8, 3, 8
    else:
        mix = [("tiny", 80, True), ("small", 110, True), ("medium", 45, True), ("deep", 40, True), ("wide", 30, True), ("large", 12, False),
               ("large", 2, True)]
        n_frac, n_over, n_prefix, n_slash, n_ext = 30, 20, 60, 15, 60
    cid = 0

    def recipe(shape):
        ps_hi = {"tiny": 4, "small": 5, "medium": 8, "deep": 4, "wide": 13, "large": 13}[shape]
        ps = rng.choice([1, 2, 2, 3, rng.randint(1, ps_hi), ps_hi + 5]) if shape != "large" else rng.choice([1, 2, 5, 13, 50])
        return {"seed": rng.getrandbits(40), "shape": shape, "page_size": ps, "empty_pages": rng.random() < 0.25}

    for shape, count, enum in mix:
        for _ in range(count):
            rc = recipe(shape)
            if enum and shape in ("medium", "wide") and rc["page_size"] == 1:
                rc["page_size"] = 2
            if enum and shape == "large":
                rc["page_size"] = 13
            lib = G.Library(rc)
            prng = random.Random(f"plan:{rc['seed']}")
            cases.append({"cid": cid, "lib": rc, "runs": _plan_clean_runs(prng, lib), "enumerate": enum, "feature": "clean"})
            cid += 1
    made = tries = 0
    while made < n_prefix and tries < n_prefix * 20:      # clean family: sibling folders whose names are prefixes of each other
        tries += 1
        rc = dict(recipe(rng.choice(["tiny", "small", "small", "medium", "deep"])), prefix_siblings=True)
        lib = G.Library(rc)
        runs = _plan_prefix_runs(random.Random(f"plan:{rc['seed']}"), lib)
        if not runs:
            continue
        made += 1
        cases.append({"cid": cid, "lib": rc, "runs": runs, "enumerate": False, "feature": "clean"})
        cid += 1
    for _ in range(n_ext):                                   # clean family: extension filters of every shape over names of every shape
        rc = dict(recipe(rng.choice(["tiny", "small", "small", "medium", "deep", "wide"])), ext_shapes=True)
        lib = G.Library(rc)
        cases.append({"cid": cid, "lib": rc, "runs": _plan_ext_runs(random.Random(f"plan:{rc['seed']}"), lib), "enumerate": False, "feature": "clean"})
        cid += 1
    for feature, count, planner in (("fracbound", n_frac, _plan_frac_runs), ("overlap", n_over, _plan_overlap_runs), ("slashpath", n_slash, _plan_slash_runs)):
        made = tries = 0
        while made < count and tries < count * 20:
            tries += 1
            rc = recipe(rng.choice(["small", "medium", "wide", "deep"]))
            if feature == "slashpath":
                rc["prefix_siblings"] = True
            lib = G.Library(rc)
            prng = random.Random(f"plan:{rc['seed']}")
            runs = planner(prng, lib)
            if not runs:
                continue
            made += 1
            cases.append({"cid": cid, "lib": rc, "runs": runs, "enumerate": False, "feature": feature, "twin": cid + 1})
            if feature == "fracbound":
                trc = dict(rc, strip_fraction=True)
                truns = [_floor_bounds(r) for r in runs]
            elif feature == "slashpath":
                trc = dict(rc)
                truns = [_strip_slashes(r) for r in runs]
            else:
                trc = dict(rc)
                truns = []
                for r in runs:
                    t = json.loads(json.dumps(r))
                    t["filter"]["folder_paths"] = t.pop("twin_paths")
                    t["feature"] = "clean"
                    t["tags"] = ["folder_paths", "twin"]
                    truns.append(t)
            cases.append({"cid": cid + 1, "lib": trc, "runs": truns, "enumerate": True, "feature": "clean", "twin_of": cid})
            cid += 2
    made = tries = 0
    n_fs = 8 if run.quick else 50
    while made < n_fs and tries < n_fs * 20:                 # clean family: folder_paths + modified_after over folders with stamps of their own
        tries += 1
        rc = dict(recipe(rng.choice(["small", "small", "medium", "deep", "wide"])), folder_stamps=True)
        lib = G.Library(rc)
        runs = _plan_foldersince_runs(random.Random(f"plan:{rc['seed']}"), lib)
        if not runs:
            continue
        made += 1
        cases.append({"cid": cid, "lib": rc, "runs": runs, "enumerate": False, "feature": "clean"})
        cid += 1
    return cases


# =================================================================================================
# parent side: verdicts
# =================================================================================================
class Judge:
    def __init__(self, run):
        self.run = run
        self.pending: dict = {}       # (cid, run index) -> [(key, what, replay)] of risky library runs, released when the twin is clean
        self.dirty: set = set()       # (cid, run index) with any violation
        self.exc_seen = Counter()
        self.label_kind = Counter()
        self.tag_runs = Counter()
        self.c = Counter()
        self.replay_mode = False

    # ------------------------------------------------------------------ helpers
    def _viol(self, case, ri, key, what, replay, fault_free=True):
        if fault_free:                       # a twin is "clean" when its fault-free listing is right; fault kinds have their own sibling twin
            self.dirty.add((case["cid"], ri))
        self.run.violation(key, what, replay)

    def _complete(self, lib, rs, out, base) -> list:
        """Problems of an outcome that should be a complete listing."""
        if "exc" in out:
            e = out["exc"]
            return [("raised", f"{e['type']}: {e['msg']}", None)]
        if out["ret"] == base["ret"]:
            return []
        return compare(rs, reference(lib, rs), out.get("listing", []))

    # ------------------------------------------------------------------ one case
    def case(self, case, obs):
        run = self.run
        lib = G.Library(case["lib"])
        _NODES["lib"] = lib
        st = lib.stats()
        self.c["libraries"] += 1
        if case.get("enumerate"):
            self.c["libraries_fault_enumerated"] += 1
        self.c["max_depth_seen"] = max(self.c["max_depth_seen"], st["depth"])
        self.c["max_children_seen"] = max(self.c["max_children_seen"], st["max_children"])
        for ri, (rs, ro) in enumerate(zip(case["runs"], obs["runs"])):
            self.listing_run(case, lib, ri, rs, ro)

    def listing_run(self, case, lib, ri, rs, ro):
        run = self.run
        api = rs["api"]
        rep0 = {"lib": case["lib"], "run": rs}
        self.c["listing_runs"] += 1
        self.c["responses_opened"] += ro["opened"]
        self.c["responses_released"] += ro["released"]
        self.c["context_manager_entries"] += ro.get("ctx", 0)
        for t in rs["tags"]:
            self.tag_runs[t] += 1
        base = ro["base"]
        n = len(ro["seq"])
        labels = [s[0] for s in ro["seq"]]
        if labels.count("children-next"):
            self.tag_runs["paged"] += 1
        exp = reference(lib, rs)
        flt = _filter_of(rs)
        if any(k in flt for k in ("modified_after", "modified_before", "created_after", "created_before")):
            hits = 0
            for e in exp.values():
                nd = e[3]
                for field in ("created", "modified"):
                    s = _visible_stamp(nd, field)
                    for side in ("_after", "_before"):
                        b = flt.get(field + side)
                        if b and s is not None and G.stamp_ticks(s) == b["us"] * 10:
                            hits += 1
            # files excluded by an exclusive bound that equals their timestamp are not in exp; count them separately
            d = lib.drive(rs.get("drive"))
            for nd in (d.files() if d else []):
                for field in ("created", "modified"):
                    s = _visible_stamp(nd, field)
                    b = flt.get(field + "_before")
                    if b and s is not None and G.stamp_ticks(s) == b["us"] * 10:
                        hits += 1
            self.c["files_exactly_at_a_bound"] += hits
        self.c["reference_maybe_files"] += sum(1 for e in exp.values() if e[2] == MAYBE)
        self.c["reference_selected_files"] += sum(1 for e in exp.values() if e[2] == YES)
        for t in ("ext:compound", "ext:whole-name"):
            if t in rs["tags"]:
                self.c["files_selected_by_" + t] += sum(1 for e in exp.values() if e[2] == YES)
        feature = rs["feature"]
        sig_tags = sorted(set(t for t in rs["tags"]))
        if "exc" in base:
            e = base["exc"]
            ok404 = "nonexistent-folder" in rs["tags"] and e["req"] and e["status_code"] == 404
            if not ok404:
                self._viol(case, ri, f"C18:{api}:clean:fault-free-call-raised",
                           f"{api} on a healthy transport raised {e['type']}: {e['msg']}", rep0)
            run.case(["fault-free", api, sig_tags, "raised:" + e["type"]])
            return
        problems = compare(rs, exp, base["listing"])
        if ro["unclosed"]:
            self.c["fault_free_unclosed_responses"] += len(ro["unclosed"])
        warm = ro.get("warm")
        if warm is not None:
            wp = self._complete(lib, rs, warm, base)
            if wp:
                self._viol(case, ri, f"C18:{api}:clean:second-call-on-same-client-{wp[0][0]}",
                           f"second {api} call on the same client (healthy transport): {wp[0][1]}", rep0)
        risky_probs = []
        for sym, detail, node in problems:
            key = f"C18:{api}:clean:{sym}"
            if feature == "fracbound" and sym in ("matching-file-lost", "extra-file-returned") and node is not None and sensitive(flt, node):
                key = f"C18:filter:timestamp-fraction-in-bound-second:{sym}"
                d = lib.drive(rs.get("drive"))
                detail += (f" [file lastModified={G.stamp_text(node.modified) if node.modified else None} created={G.stamp_text(node.created) if node.created else None};"
                           f" filter={json.dumps({k: v for k, v in flt.items() if v})}]")
                risky_probs.append((key, f"{api}: {detail}", rep0))
            elif feature == "slashpath" and sym == "wrong-parent-path" and node is not None and any(
                    r[0] == node.id and _norm_pp(r[2]) == _norm_pp(exp[node.id][1]) for r in base["listing"]):
                key = "C18:list_files_filtered:folder-path-with-outer-slashes:wrong-parent-path"
                risky_probs.append((key, f"{api} folder_paths={flt.get('folder_paths')}: {detail}", rep0))
            elif feature == "overlap" and sym == "duplicate":
                key = "C18:list_files_filtered:overlapping-folder-paths:duplicate"
                risky_probs.append((key, f"{api} folder_paths={flt.get('folder_paths')}: {detail}", rep0))
            else:
                self._viol(case, ri, key, f"{api} {sig_tags} page_size={case['lib']['page_size']} shape={case['lib']['shape']}: {detail}", rep0)
        if risky_probs:
            self.pending[(case["cid"], ri)] = (case.get("twin"), risky_probs)
        run.case(["fault-free", api, sig_tags, case["lib"]["shape"], "pages>1" if "children-next" in labels else "single-page",
                  "ok" if not problems else "diff"],
                 sample={"api": api, "library": case["lib"], "filter": flt, "requests": n, "returned": base["n"]} if self.c["listing_runs"] % 97 == 1 else None)
        if "recs" not in ro:
            return
        # ---------------------------------------------------------------- fault enumeration
        self.c["runs_fault_enumerated"] += 1
        self.c["request_positions"] += n
        tot = ro.get("totals", {})
        self.c["responses_opened"] += tot.get("opened", 0)
        self.c["responses_released"] += tot.get("released", 0)
        self.c["requests_served_in_fault_runs"] += tot.get("requests", 0)
        table = ro["table"]
        bad: dict = {}
        deferred = []
        for rec in ro["recs"]:
            k, kind, fired, same_url, oi, nreq, opened, released, unclosed, si, same_unclosed, fi, eb = rec
            out, same, fresh = table[oi], table[si], table[fi]
            label, url_k = ro["seq"][k]
            self.c["pairs_executed"] += 1
            self.label_kind[(label, kind)] += 1
            self.c["httperror_bodies_raised"] += eb[0]
            self.c["httperror_bodies_read"] += eb[1]
            self.c["httperror_bodies_closed"] += eb[2]
            comp = "token" if label == "token" else "folder-lookup" if label == "item-by-path" else "graph"
            risky = RISKY_KIND.get(kind)
            feat = risky[1] if risky else "clean"
            kcomp = risky[0] or comp if risky else comp
            klass = ("http-error" if kind.startswith("http") else "url-error" if kind == "urlerror" else "non-2xx-status" if kind.startswith("ret")
                     else "malformed-json" if kind in ("truncjson", "nonjson") else kind)
            rep = {"lib": case["lib"], "run": rs, "k": k, "kind": kind}
            found = []

            def v(symptom, what):
                pre = f"{klass}-" if feat == "clean" else ""
                found.append((f"C18:{kcomp}:{feat}:{pre}{symptom}", f"{api} request #{k} ({label}) fault={kind}: {what}"))

            if not fired or not same_url:
                run.inconclusive(f"fault {kind}@{k} did not fire on the recorded request sequence (non-deterministic request order?)")
            outcome = "?"
            if "exc" in out:
                e = out["exc"]
                self.exc_seen[f"{kind}:{e['type']}"] += 1
                outcome = e["type"]
                if not e["family"]:
                    v("escaped-exception", f"{e['module']}.{e['type']}: {e['msg']} escaped (not a SharePointError)")
                else:
                    code = int(kind[4:]) if kind.startswith("http") else int(kind[3:]) if kind.startswith("ret") else None
                    if code is not None or kind in NETWORK_KINDS:
                        if not e["req"]:
                            v("not-request-error", f"raised {e['type']} instead of SharePointRequestError")
                        else:
                            if code is not None and e["status_code"] != code:
                                v("status-code-wrong", f"SharePointRequestError.status_code={e['status_code']!r}, the transport failed with {code}")
                            if not e.get("url_is_k"):
                                v("url-wrong", f"SharePointRequestError.url={e['url']!r}, the failed request was {url_k!r}")
            else:
                # no exception: fine if the fault was absorbed and the listing is still complete
                probs = [] if out["ret"] == base["ret"] else compare(rs, exp, out.get("listing", []))
                if not probs:
                    outcome = "recovered-complete"
                    self.c["faults_absorbed_with_complete_listing"] += 1
                else:
                    ok = False
                    if label == "item-by-path" and kind in ("http404", "ret404"):
                        # a 404 on a folder lookup *means* "no such folder": the listing without that folder is a correct answer
                        for j in range(len(flt.get("folder_paths") or [])):
                            if not compare(rs, reference(lib, rs, skip_target=j), out.get("listing", [])):
                                ok = True
                                break
                    if ok:
                        outcome = "404-read-as-folder-absent"
                        self.c["lookup_404_read_as_folder_absent"] += 1
                    else:
                        outcome = "silent-incomplete"
                        v("silent-incomplete-listing", f"no exception, but the listing is wrong: {probs[0][1]} (+{len(probs) - 1} more)")
            if unclosed:
                v("response-not-closed", f"after the call ended, response object(s) of request(s) {unclosed} were neither closed nor exited ({released}/{opened} released)")
            sp = self._complete(lib, rs, same, base)
            if sp:
                v("retry-same-client-" + ("raised" if sp[0][0] == "raised" else "incomplete"), f"retry on the same client, healthy transport: {sp[0][1]}")
            elif same_unclosed:
                v("response-not-closed", f"after the retry, response object(s) of request(s) {same_unclosed} still open")
            fp = self._complete(lib, rs, fresh, base)
            if fp:
                v("retry-fresh-client-" + ("raised" if fp[0][0] == "raised" else "incomplete"), f"fresh client after the fault, healthy transport: {fp[0][1]}")
            run.case(["fault", api, label, kind, outcome, "ok" if not found else "viol"],
                     sample={"api": api, "k": k, "label": label, "kind": kind, "outcome": outcome, "exc": out.get("exc")} if self.c["pairs_executed"] % 5003 == 1 else None)
            if found:
                bad[(k, kind)] = found
                deferred.append((k, kind, risky, found, rep))
        for k, kind, risky, found, rep in deferred:
            for key, what in found:
                if risky and (k, risky[2]) in bad:
                    key += ":twin-dirty"           # never report as a known finding when the benign sibling fault also fails
                self._viol(case, ri, key, what, rep, fault_free=False)

    # ------------------------------------------------------------------ end of run
    def finish(self, cases_by_cid):
        for (cid, ri), (twin, probs) in sorted(self.pending.items()):
            twin_dirty = not self.replay_mode and (twin is None or (twin, ri) in self.dirty)
            for key, what, rep in probs:
                self.run.violation(key + (":twin-dirty" if twin_dirty else ""), what, rep)


# =================================================================================================
# entry points
# =================================================================================================
def main(run):
    run.rule = ("case = one observed listing call: (fault-free, API, filter features, tree shape, paging) or (fault, API, request kind at index k, "
                "fault kind, outcome class); non-trivial = the real client ran against the simulated Graph service and its result / exception / "
                "response-close counters were judged against the reference walk")
    run.assumptions = [
        "vlib/gen/graphsim.py answers like Microsoft Graph for the endpoints the client uses (token, site lookup, drives, children by id/path with @odata.nextLink, item by path)",
        "a fault fires once, at request index k of a fresh client; later requests are served normally",
        "folder_paths are addressed case-insensitively (as the simulator / Graph does); the expected parent path keeps the caller's spelling without outer slashes",
        "files whose JSON lacks the filtered timestamp, patterns matching only case-insensitively and extension entries written without their dot are 'either answer accepted' (a dotted entry, however many dots, decides by the end of the name)",
        "list_files_in_folder / list_drives are judged on (id, name) only; an HTTPError body left unclosed by the client is counted, not judged",
    ]
    cases = plan_cases(run)
    by_cid = {c["cid"]: c for c in cases}
    judge = Judge(run)
    cases.sort(key=lambda c: -({"large": 5, "medium": 3, "wide": 3, "deep": 2}.get(c["lib"]["shape"], 1) * (2 if c["enumerate"] else 0)))
    planned_pairs = 0
    judge_s = 0.0
    for case, obs in pool.run_cases("checks.c18:work", cases, deadline_s=900):
        if not isinstance(obs, dict) or obs.get("_died") or obs.get("_timeout") or obs.get("_harness_error") or obs.get("_cpu_exhausted") or "runs" not in obs:
            run.inconclusive_cases += 1
            run.inconclusive(f"library {case['lib']} not observed: {str(obs)[:300]}")
            continue
        tj = time.time()
        judge.case(case, obs)
        judge_s += time.time() - tj
        if case["enumerate"]:
            planned_pairs += sum(len(ro["seq"]) for ro in obs["runs"] if "recs" in ro) * len(G.ALL_KINDS)
    judge.finish(by_cid)
    c = judge.c
    for k, v in c.items():
        run.count(k, v)
    combos = {(l, k) for (l, k) in judge.label_kind}
    missing = [(l, k) for l in LABELS for k in G.ALL_KINDS if (l, k) not in combos]
    run.extras["fault_kinds"] = {"core": list(G.KINDS_CORE), "wrong_toplevel_type": list(G.KINDS_WRONGTYPE), "extra_transport": list(G.KINDS_EXTRA)}
    run.extras["positions_by_request_kind"] = {l: sum(v for (ll, k), v in judge.label_kind.items() if ll == l and k == "urlerror") for l in LABELS}
    run.extras["pairs_by_fault_kind"] = {k: sum(v for (l, kk), v in judge.label_kind.items() if kk == k) for k in G.ALL_KINDS}
    run.extras["exceptions_seen_by_fault_kind"] = dict(sorted(judge.exc_seen.items()))
    run.extras["listing_runs_by_feature_tag"] = dict(sorted(judge.tag_runs.items()))
    run.extras["fault_enumeration"] = {
        "libraries": c["libraries"], "libraries_fault_enumerated": c["libraries_fault_enumerated"], "listing_runs_enumerated": c["runs_fault_enumerated"],
        "request_positions": c["request_positions"], "fault_kinds": len(G.ALL_KINDS), "pairs_planned": planned_pairs, "pairs_executed": c["pairs_executed"],
        "responses_opened": c["responses_opened"], "responses_released": c["responses_released"],
        "complete_per_listing_run": planned_pairs == c["pairs_executed"]}
    run.extras["parent_judge_seconds"] = round(judge_s, 1)
    run.exhaustive = False
    run.require("pairs_executed_equals_planned", int(planned_pairs == c["pairs_executed"]), 1)
    run.require("pairs_executed", c["pairs_executed"], run.n(20000, 200000))
    run.require("request_kind_x_fault_kind_combinations", len(LABELS) * len(G.ALL_KINDS) - len(missing), len(LABELS) * len(G.ALL_KINDS))
    run.require("libraries", c["libraries"], run.n(50, 300))
    run.require("paged_listing_runs", judge.tag_runs["paged"], run.n(50, 400))
    run.require("files_exactly_at_a_bound", c["files_exactly_at_a_bound"], run.n(20, 100))
    run.require("named_drive_runs", judge.tag_runs["named-drive"], run.n(15, 100))
    run.require("quoted_folder_path_runs", judge.tag_runs["quoted-folder-path"], run.n(12, 100))
    run.require("max_depth_seen", c["max_depth_seen"], 5)
    run.require("max_children_seen", c["max_children_seen"], run.n(10, 12))
    run.require("risky_fraction_runs", judge.tag_runs["bound:fraction-at-bound"], run.n(5, 30))
    run.require("prefix_sibling_folder_path_runs", judge.tag_runs["prefix-sibling"], run.n(30, 200))
    for order in ("prefix-first", "extension-first", "repeat", "below-extension", "nested", "case-variant"):
        run.require("prefix_sibling_runs:" + order, judge.tag_runs["prefix-sibling:" + order], run.n(3, 20))
    for t in ("ext:compound", "ext:whole-name", "ext:last-component", "ext:undotted"):
        run.require("extension_filter_runs:" + t, judge.tag_runs[t], run.n(8, 60))
    for t in ("ext:compound", "ext:whole-name"):
        run.require("files_selected_by_" + t, c["files_selected_by_" + t], run.n(10, 80))
    run.require("folder_paths_with_modified_after_runs", judge.tag_runs["folder+modified_after"], run.n(25, 150))
    run.require("folder_older_than_bound_runs", judge.tag_runs["folder-stamp:older"], run.n(10, 60))
    run.require("slashed_folder_path_runs", judge.tag_runs["slashed-folder-path"], run.n(3, 15))
    run.require("responses_opened", c["responses_opened"], 1000)
    # "non-2xx without exception" must be injected from every status class outside 2xx (1xx, 3xx, 4xx, 5xx), at every request kind
    ret_classes = {int(k[3:]) // 100 for (l, k), v in judge.label_kind.items() if k.startswith("ret") and v}
    run.require("non_2xx_status_classes_returned_without_exception", len(ret_classes - {2}), 4)
    run.require("request_kinds_answered_with_a_status_below_400", len({l for (l, k) in judge.label_kind if k.startswith("ret") and int(k[3:]) < 400}), len(LABELS))


def replay(run, doc):
    import logging

    logging.disable(logging.CRITICAL)
    case = doc.get("case", doc)
    only = [[case["k"], case["kind"]]] if "k" in case else None
    if only and case["kind"] in RISKY_KIND:
        only.append([case["k"], RISKY_KIND[case["kind"]][2]])
    c = {"cid": 0, "lib": case["lib"], "runs": [case["run"]], "enumerate": only is not None, "only": only, "feature": case["run"].get("feature", "clean")}
    obs = work(c)
    ro = obs["runs"][0]
    print("library:", json.dumps(case["lib"]), json.dumps(obs["stats"]))
    print("run:", json.dumps(case["run"], ensure_ascii=False))
    print("fault-free requests:", len(ro["seq"]))
    for i, (lab, url) in enumerate(ro["seq"][:40]):
        print(f"  #{i} {lab:14s} {url}")
    if "exc" in ro["base"]:
        print("fault-free call raised:", ro["base"]["exc"])
    else:
        lib = G.Library(case["lib"])
        _NODES["lib"] = lib
        exp = reference(lib, case["run"])
        print(f"returned {ro['base']['n']} items; reference selects {sum(1 for e in exp.values() if e[2] == YES)} (+{sum(1 for e in exp.values() if e[2] == MAYBE)} either-way)")
        for sym, detail, _ in compare(case["run"], exp, ro["base"]["listing"]):
            print("  DIFF", sym, detail)
    for rec in ro.get("recs", []):
        print("fault record:", json.dumps({"k": rec[0], "kind": rec[1], "fired": rec[2], "outcome": ro["table"][rec[4]], "requests": rec[5], "opened": rec[6],
                                           "released": rec[7], "unclosed": rec[8], "retry_same": ro["table"][rec[9]], "retry_fresh": ro["table"][rec[11]]}, ensure_ascii=False)[:3000])
    j = Judge(run)
    j.replay_mode = True
    j.case(c, obs)
    j.finish({0: c})
