"""C11 — the ZIP-container bomb guard decides exactly and runs before any member is read.

Two monitors, both fed from sandboxed workers (observation there, verdict here):

(1) decision oracle.  ``ref_decide`` below is the property statement written down literally (exact rational
    arithmetic, strict ``>``).  It is compared with the real ``validate_zipfile`` on a boundary lattice of
    (file_size, compress_size, is_dir) vectors x limit settings, each vector realised (a) as ZipInfo objects
    behind a stub that only has ``infolist()`` and (b) as a real ZIP whose central directory claims those sizes,
    pushed through ``validate_zip_bytesio`` (from several stream positions, which must be restored) and
    ``open_zipfile``.  The advisory words of a central record (external attributes: MS-DOS directory / read-only /
    archive bits, Unix mode in the high word; creating system) are varied on top of every vector: whether an entry is a
    directory is a matter of its name (trailing "/": the ZIP format, ``ZipInfo.is_dir`` and therefore what
    ``ZipFile.read`` will decompress), so a *file* entry carrying a directory attribute still counts in every clause;
    each such vector has a control twin with default attributes.  Where the statement is silent (do directory entries count as entries? do the compressed
    bytes of empty entries count in the total ratio? - they do, see ref_decide) every reading is admissible and nothing is demanded.

    Sequences: the same three entry points are also driven in sequences over ONE BytesIO object (and one ZipFile object per content): the
    limits change between calls, the buffer is refilled with another container; every decision must be that of the current bytes under the
    current limits, as on a fresh buffer (control twin).  The extractors get a recycled buffer too (fixture first, then a bomb-shaped variant).

(2) zip-order monitor (vlib/mon/ziporder.py).  The 10 ZIP-container entry points run on repository fixtures and
    on bomb-shaped variants of them (forged central-directory sizes, 50 001 entries, really-high-ratio members)
    while every ZipFile construction / member access / validate_zipfile call is logged; the offline checker
    demands "successful validation of the same content before any member access" and "nothing decompressed
    before a rejection"; the reference predicate (with the repository's configured default limits) says which
    variants must come back as ExtractionZipBombError and which must not.
"""
from __future__ import annotations

import importlib
import io
import itertools
import zipfile
from fractions import Fraction

LEVEL = "exploration"
ZB = "sharepoint2text.parsing.extractors.util.zip_bomb"
_X = "sharepoint2text.parsing.extractors."
EXTRACTORS = {
    "docx": (_X + "ms_modern.docx_extractor", "read_docx", (".docx", ".docm")),
    "pptx": (_X + "ms_modern.pptx_extractor", "read_pptx", (".pptx", ".pptm")),
    "xlsx": (_X + "ms_modern.xlsx_extractor", "read_xlsx", (".xlsx", ".xlsm")),
    "odt": (_X + "open_office.odt_extractor", "read_odt", (".odt",)),
    "odp": (_X + "open_office.odp_extractor", "read_odp", (".odp",)),
    "ods": (_X + "open_office.ods_extractor", "read_ods", (".ods",)),
    "odg": (_X + "open_office.odg_extractor", "read_odg", (".odg",)),
    "odf": (_X + "open_office.odf_extractor", "read_odf", (".odf",)),
    "epub": (_X + "epub_extractor", "read_epub", (".epub",)),
    "odf-encryption-probe": (_X + "util.encryption", "is_odf_encrypted", (".odt", ".odp", ".ods", ".odg", ".odf")),
}
CLAUSES = ("n", "single", "total", "eratio", "tratio")
# (label, create_system, external_attr) written on *file* entries (name without trailing "/") / on directory entries
FILE_ATTRS = [("default", 0, 0), ("dos-directory-bit", 0, 0x10), ("dos-directory+readonly+archive-bits", 0, 0x31), ("unix-S_IFDIR-mode", 3, 0o040755 << 16),
              ("unix-S_IFDIR-mode+dos-directory-bit", 3, 0o040755 << 16 | 0x10), ("unix-regular-mode", 3, 0o100644 << 16), ("unix-symlink-mode", 3, 0o120777 << 16),
              ("all-attribute-bits", 0, 0xFFFFFFFF), ("ntfs-directory-bit", 10, 0x10), ("dos-archive-bit", 0, 0x20)]
DIR_ATTRS = [("default", 0, 0x10), ("no-attribute", 0, 0), ("unix-S_IFDIR-mode", 3, 0o040755 << 16 | 0x10)]
# general-purpose flag bits of the record (also advisory for the guard: the central directory's sizes are definitive whatever bit 3 says)
FILE_FLAGS = {"data-descriptor-flag": 0x08, "data-descriptor+compression-option-flags": 0x0E, "data-descriptor+masked-header-flags": 0x2008,
              # bit 0 ("encrypted"): who answers first is part of the statement - a container over a limit is rejected with the zip-bomb error
              "encrypted-flag": 0x01, "encrypted+data-descriptor-flags": 0x09}
FILE_ATTRS += [(lab, 0, 0) for lab in FILE_FLAGS]
ATTR_BY_LABEL = {a[0]: a for a in FILE_ATTRS}


def attr_plan(amode):
    """amode (int | None) -> (file-attribute triple, scope 'all' | 'largest', directory-attribute triple).  Every second vector keeps the defaults."""
    if amode is None or amode % 2 == 0:
        return FILE_ATTRS[0], "all", DIR_ATTRS[0 if amode is None else (amode // 2) % len(DIR_ATTRS)]
    k = amode // 2
    return FILE_ATTRS[1 + k % (len(FILE_ATTRS) - 1)], ("all", "largest")[(k // (len(FILE_ATTRS) - 1)) % 2], DIR_ATTRS[k % len(DIR_ATTRS)]


def attr_feature(label):
    if label == "repeated-member-names":
        return label
    if label in FILE_FLAGS:
        return "file-entry-carries-general-purpose-flags"
    a = ATTR_BY_LABEL[label][2]
    return "file-entry-carries-directory-attribute" if (a & 0x10 or (a >> 16) & 0o170000 == 0o040000) else "file-entry-carries-nondefault-attributes"


# =========================================================================================== reference predicate
def ref_decide(entries, lim) -> set:
    """entries: [(file_size, compress_size, is_dir)]; lim = (E, T, S, RT, RE).  -> admissible values of 'rejected'."""
    E, T, S, RT, RE = lim[0], lim[1], lim[2], Fraction(lim[3]), Fraction(lim[4])
    files = [(f, c) for f, c, d in entries if not d]                      # directory entries are ignored
    tot_f = sum(f for f, _ in files)

    def rejected(n, tot_c):
        return (n > E or tot_f > T or any(f > S for f, _ in files)
                or any(f > 0 and c == 0 for f, c in files)                # non-empty entry claims zero compressed size
                or any(c > 0 and Fraction(f, c) > RE for f, c in files)
                or (tot_c > 0 and Fraction(tot_f, tot_c) > RT))
    counts = {len(entries), len(files)}                                   # silent: do directory entries count as entries
    # "total compression ratio" = total uncompressed over total compressed size of the (non-directory) entries; nothing in the
    # statement exempts the compressed bytes of empty entries, so they count (a seeded change that drops them rejects
    # containers that are exactly on the limit)
    totals = {sum(c for _, c in files)}
    return {rejected(n, tc) for n in counts for tc in totals}


def expand(runs):
    out = []
    for f, c, d, k in runs:
        out.extend([(f, c, d)] * k)
    return out


def compress_runs(entries):
    runs = []
    for e in entries:
        if runs and runs[-1][:3] == list(e):
            runs[-1][3] += 1
        else:
            runs.append([e[0], e[1], e[2], 1])
    return runs


def _cls(v, unit=1):
    if v == 0:
        return 0
    s = 1 if v > 0 else -1
    return s if abs(v) <= unit else 2 * s


def margins(entries, lim):
    """Per clause: -2 far inside, -1 adjacent inside, 0 on the limit, +1 adjacent outside, +2 far outside."""
    E, T, S, RT, RE = lim[0], lim[1], lim[2], Fraction(lim[3]), Fraction(lim[4])
    files = [(f, c) for f, c, d in entries if not d]
    m = {"n": _cls(len(files) - E)}
    m["single"] = _cls(max((f for f, _ in files), default=-10) - S)
    tot_f = sum(f for f, _ in files)
    tot_c = sum(c for _, c in files)
    m["total"] = _cls(tot_f - T)
    pe, qe, pr, qr = RE.numerator, RE.denominator, RT.numerator, RT.denominator
    ev = [f * qe - pe * c for f, c in files if c > 0 and f > 0]
    m["eratio"] = _cls(max(ev), max(pe, qe)) if ev else -2
    m["tratio"] = _cls(tot_f * qr - pr * tot_c, max(pr, qr)) if tot_c > 0 and tot_f > 0 else -2
    return m


# =========================================================================================== lattice generators
def small_world(lim, rng, n_triples, n_quads):
    """All vectors with <= 2 entries and all / a sample of the 3- and 4-entry multisets over a tiny value grid."""
    E, T, S = lim[:3]
    opts = [(f, c, 0) for f in range(S + 2) for c in range(S + 3)]
    opts += [(0, 0, 1), (S + 1, 0, 1), (T + 1, 1, 1)]
    yield []
    for a in opts:
        yield [a]
    for a in opts:
        for b in opts:
            yield [a, b]
    triples = list(itertools.combinations_with_replacement(opts, 3))
    if n_triples is not None and n_triples < len(triples):
        triples = rng.sample(triples, n_triples)
    for t in triples:
        t = list(t)
        rng.shuffle(t)
        yield t
    for _ in range(n_quads):
        yield [rng.choice(opts) for _ in range(rng.choice((4, 4, 5)))]


def construct(lim, t, zero=False, fine=0):
    """Best-effort vector putting clause k at limit+t[k] and every other clause well inside.

    ``fine`` > 0 scales the ratio clauses: the compressed sizes grow by that factor, so "limit + 1" in the numerator is a quotient that
    exceeds the limit by about 1 / fine only (a comparison made on a rounded or truncated quotient decides these differently).

    Returns (file entries [(f, c)], number of neutral (0,0) filler entries) or None when impossible.  The
    result is classified afterwards by ``margins``; a wrong construction costs coverage, never soundness."""
    E, T, S, RT, RE = lim[0], lim[1], lim[2], Fraction(lim[3]), Fraction(lim[4])
    pe, qe, pr, qr = RE.numerator, RE.denominator, RT.numerator, RT.denominator
    fixed, adj = [], []
    if zero:
        fixed.append((1, 0))
    if "eratio" in t:
        m = max(1, min(fine or 7, (S - 2) // pe))
        if pe * m + t["eratio"] < 1:
            m += 1
        fixed.append((pe * m + t["eratio"], qe * m))
    if "single" in t:
        if S + t["single"] < 0:
            return None
        adj.append(S + t["single"])
    used = sum(f for f, _ in fixed) + sum(adj)
    if "total" in t:
        rest = T + t["total"] - used
        if rest < 0:
            return None
        cap = S - 2 if S >= 4 else max(S, 1)
        if rest > 64 * cap:
            cap = -(-rest // 64)
        while rest > 0:
            piece = min(rest, cap)
            adj.append(piece)
            rest -= piece
    elif "tratio" in t:
        adj.append(1)
    fsum = sum(f for f, _ in fixed) + sum(adj)
    cmin = [0 if f == 0 else f * qe // pe + 1 for f in adj]
    if "tratio" in t:
        d = t["tratio"]
        if "total" not in t:
            bump = (-(fsum - d)) % pr
            if fsum - d + bump < pr:
                bump += pr
            if fine and adj[-1] + bump + pr * (fine - 1) <= S - 2 and fsum + bump + pr * (fine - 1) <= T - 2:
                bump += pr * (fine - 1)
            adj[-1] += bump
            fsum += bump
            cmin[-1] = adj[-1] * qe // pe + 1
            csum = (fsum - d) // pr * qr
        elif d == 0:
            if (fsum * qr) % pr:
                return None
            csum = fsum * qr // pr
        elif d > 0:
            csum = (fsum * qr - 1) // pr
        else:
            csum = fsum * qr // pr + 1
        rem = csum - sum(c for _, c in fixed) - sum(cmin)
        tun = [i for i, f in enumerate(adj) if f > 0]
        if rem < 0 or (rem > 0 and not tun):
            return None
        cs = list(cmin)
        if tun:
            cs[max(tun, key=lambda i: adj[i])] += rem
    else:
        cs = [0 if f == 0 else max(2 * c0, 2 * (f * qr // pr) + 2) for f, c0 in zip(adj, cmin)]
        need = 2 * (fsum * qr // pr) + 2
        have = sum(c for _, c in fixed) + sum(cs)
        tun = [i for i, f in enumerate(adj) if f > 0]
        if need > have and tun:
            cs[tun[0]] += need - have
    files = fixed + list(zip(adj, cs))
    if "n" in t:
        n = E + t["n"]
        if n < len(files):
            return None
        return files, n - len(files)
    return files, max(0, min(E, 3) - len(files))


def constructive(lim, rng, light_big=True):
    """Singles, all pairs of clauses x {-1,0,+1}^2, the zero-compressed clause, with order / directory variants."""
    E, T, S = lim[:3]
    targets = [({}, False), ({}, True)]
    for a in CLAUSES:
        for da in (-1, 0, 1):
            targets.append(({a: da}, False))
            targets.append(({a: da}, True))
    for a, b in itertools.combinations(CLAUSES, 2):
        for da in (-1, 0, 1):
            for db in (-1, 0, 1):
                targets.append(({a: da, b: db}, False))
    targets = [(t, z, 0) for t, z in targets]
    for fine in (30, 1000, 10 ** 5):          # quotients within 1/30 .. 1/100000 of the ratio limits
        for da in (-1, 0, 1):
            targets += [({"eratio": da}, False, fine), ({"tratio": da}, False, fine)]
            targets += [({"eratio": da, "tratio": db}, False, fine) for db in (-1, 1)]
    wild = [(S + 1, 0, 1), (T + 1, 1, 1), (0, 0, 1)]
    for idx, (t, zero, fine) in enumerate(targets):
        built = construct(lim, t, zero, fine)
        if built is None:
            continue
        files, fillers = built
        base = [[f, c, 0, 1] for f, c in files]
        fill = [[0, 0, 0, fillers]] if fillers else []
        big = fillers > 2000
        variants = [(0, 0)] if (big and light_big) else [(idx % 3, 0), ((idx + 1) % 3, 1 + idx % 2)]
        for order, dirs in variants:
            runs = {0: base + fill, 1: fill + base, 2: list(reversed(base)) + fill}[order]
            if dirs == 1:       # directory entries with sizes that would trip every size clause if they were looked at
                runs = [[f, c, 1, 1] for f, c, _ in wild[:2]] + runs
            elif dirs == 2:
                runs = runs + [[f, c, 1, 1] for f, c, _ in wild]
            yield [list(r) for r in runs]


SETTINGS = [
    (50000, 2 ** 32, 2 ** 30, 200.0, 500.0),     # the documented defaults
    (5, 10_000, 4_000, 200.0, 500.0),
    (4, 3000, 1500, 1.5, 200.0),
    (4, 3000, 1500, 1.5, 1.5),
    (3, 5, 2, 1.0, 1.0),
    (1, 1, 1, 1.0, 1.0),
    (6, 10 ** 6, 10 ** 6, 200.0, 500.0),
    (10, 2 ** 40, 2 ** 35, 200.0, 500.0),        # zip64 sizes in the central directory
    (2, 600, 600, 1.0, 1.5),
    (50000, 2 ** 32, 2 ** 30, 500.0, 200.0),
]
SMALL_WORLDS = [
    (2, 4, 3, 1.0, 1.5),
    (2, 5, 2, 1.5, 1.0),
    (1, 3, 3, 1.5, 1.5),
    (2, 6, 3, 2.0, 2.0),
    (3, 3, 2, 1.0, 2.0),
    (1, 1, 1, 1.0, 1.0),
]


def random_setting(rng):
    S = rng.choice((1, 2, 3, 5, 8, 10, 100, 4096, 2 ** 20, 2 ** 31, 2 ** 33))
    T = rng.choice((S, S + 1, 2 * S, 3 * S + 1, 10 * S))
    E = rng.choice((1, 2, 3, 4, 6, 8, 100))
    R = (0.25, 0.5, 1.0, 1.5, 2.0, 10.0, 200.0, 500.0)
    return (E, T, S, rng.choice(R), rng.choice(R))


# =========================================================================================== worker side
_W = {}


def work_init(init):
    from vlib.mon import ziporder
    for mod, _, _ in EXTRACTORS.values():
        importlib.import_module(mod)
    import openpyxl  # noqa: F401  (its import-time work must not show up inside a case)
    _W["zb"] = importlib.import_module(ZB)
    _W["rebound"] = ziporder.install()
    _W["mon"] = ziporder
    from sharepoint2text.parsing.exceptions import ExtractionZipBombError
    _W["bomb"] = ExtractionZipBombError


def work(case):
    if case["kind"] == "lattice":
        return _work_lattice(case)
    if case["kind"] == "garbage":
        return _work_garbage(case)
    if case["kind"] == "reuse":
        return _work_reuse(case)
    return _work_extract(case)


class _Stub:
    """Only what the guard is documented to need: infolist()."""

    def __init__(self, infos):
        self._infos = infos

    def infolist(self):
        return self._infos


def _outcome(fn):
    try:
        r = fn()
    except _W["bomb"]:
        return "reject"
    except BaseException as e:  # noqa: BLE001 - the class is the observation
        return "exc:" + type(e).__name__
    if isinstance(r, zipfile.ZipFile):
        r.close()
    return "accept"


def _work_lattice(case):
    from vlib.gen import c11_zipforge as F
    zb = _W["zb"]
    E, T, S, RT, RE = case["lim"]
    limits = zb.ZipBombLimits(max_entries=E, max_total_uncompressed_bytes=T, max_single_uncompressed_bytes=S,
                              max_total_compression_ratio=RT, max_entry_compression_ratio=RE)
    res = []
    for vi, runs in enumerate(case["vectors"]):
        infos, ents, plain = [], [], []
        i = 0
        amode = None if case.get("amode") is None else case["amode"] + vi
        (alabel, asys, aattr), scope, (_, dsys, dattr) = attr_plan(amode)
        fmax = max((f for f, _, d, _ in runs if not d), default=0)
        for f, c, d, k in runs:
            zi = zipfile.ZipInfo(f"m{i}/" if d else f"m{i}")
            zi.file_size, zi.compress_size = f, c
            zp = zi
            if d:
                sy, at = dsys, dattr
            elif scope == "all" or f == fmax:
                sy, at = asys, aattr
            else:
                sy, at = FILE_ATTRS[0][1:]
            fl = FILE_FLAGS.get(alabel, 0) if (not d and (scope == "all" or f == fmax)) else 0
            if amode is not None:
                zi.create_system, zi.external_attr = sy, at
                zi.flag_bits = fl
                if alabel != "default" and not d:
                    zp = zipfile.ZipInfo(zi.filename)       # control twin: the same entry with default attributes
                    zp.file_size, zp.compress_size = f, c
                    zp.create_system, zp.external_attr = FILE_ATTRS[0][1:]
            infos.extend([zi] * k)                    # the stub may repeat one object; the real ZIP gets unique names
            plain.extend([zp] * k)
            if case.get("real", True):
                for j in range(k):
                    ents.append(F.Entry(f"m{i + j}/" if d else f"m{i + j}", cd_file_size=f, cd_compress_size=c,
                                        ext_attr=None if amode is None else at, create_system=0 if amode is None else sy, flags=fl))
            i += k
        if case.get("nmode") is not None and alabel == "default" and (case["nmode"] + vi) % 3 == 0 and len(infos) >= 2:
            # repeated member names (what append-mode writers leave behind): every name occurs about twice, the records keep their own sizes.
            # Every record of the central directory is an entry; the control twin is the same vector under unique names.
            import copy
            plain, h = list(infos), (len(infos) + 1) // 2
            infos = [copy.copy(z) for z in infos]
            for j, z in enumerate(infos):
                z.filename = f"m{j % h}" + ("/" if z.filename.endswith("/") else "")
            for j, e in enumerate(ents):
                e.name = f"m{j % h}" + ("/" if e.name.endswith("/") else "")
            alabel = "repeated-member-names"
        stub = _outcome(lambda: zb.validate_zipfile(_Stub(infos), limits=limits, source="c11"))
        twin = None                                   # control twin: the same vector without its directory entries
        if any(d for _, _, d, _ in runs):
            files_only = [z for z in infos if not z.filename.endswith("/")]
            twin = _outcome(lambda: zb.validate_zipfile(_Stub(files_only), limits=limits, source="c11"))
        atwin = None                                  # control twin: the same vector, file entries with default attributes
        if alabel != "default":
            atwin = _outcome(lambda: zb.validate_zipfile(_Stub(plain), limits=limits, source="c11"))
        if not case.get("real", True):
            res.append([stub, None, None, 0, 0, twin, atwin, alabel])
            continue
        data = F.raw_zip(ents)
        bio = io.BytesIO(data)
        poss = (0, 1, len(data) // 2, len(data), len(data) + 3, 7)
        p0 = poss[(case["base"] + vi) % len(poss)]
        bio.seek(p0)
        real = _outcome(lambda: zb.validate_zip_bytesio(bio, limits=limits, source="c11"))
        p1 = bio.tell()
        opened = _outcome(lambda: zb.open_zipfile(io.BytesIO(data), limits=limits, source="c11"))
        res.append([stub, real, opened, p0, p1, twin, atwin, alabel])
    return {"res": res}


def _limits(zb, lim):
    E, T, S, RT, RE = lim
    return zb.ZipBombLimits(max_entries=E, max_total_uncompressed_bytes=T, max_single_uncompressed_bytes=S,
                            max_total_compression_ratio=RT, max_entry_compression_ratio=RE)


def _work_reuse(case):
    """A sequence of guard calls on ONE BytesIO object (and one ZipFile object per content): between steps the limits change and / or the
    buffer is refilled with another container.  Every step is also decided on a fresh buffer (control twin)."""
    from vlib.gen import c11_zipforge as F
    zb = _W["zb"]
    buf = io.BytesIO()
    cur, zf = None, None
    res = []
    for st in case["steps"]:
        ents, i = [], 0
        for f, c, d, k in st["runs"]:
            for j in range(k):
                ents.append(F.Entry(f"m{i + j}/" if d else f"m{i + j}", cd_file_size=f, cd_compress_size=c))
            i += k
        data = F.raw_zip(ents)
        if st["runs"] != cur:                       # the caller recycles its buffer for the next container
            buf.seek(0)
            buf.truncate()
            buf.write(data)
            cur, zf = st["runs"], None
        limits = _limits(zb, st["lim"])
        if st["fn"] == "open_zipfile":
            got = _outcome(lambda: zb.open_zipfile(buf, limits=limits, source="c11"))
        elif st["fn"] == "validate_zip_bytesio":
            got = _outcome(lambda: zb.validate_zip_bytesio(buf, limits=limits, source="c11"))
        else:                                       # validate_zipfile on a ZipFile object that lives as long as the content
            if zf is None:
                buf.seek(0)
                zf = zipfile.ZipFile(buf, "r")
            got = _outcome(lambda: zb.validate_zipfile(zf, limits=limits, source="c11"))
        twin = _outcome(lambda: zb.open_zipfile(io.BytesIO(data), limits=limits, source="c11"))
        res.append([got, twin])
    return {"res": res}


def _work_garbage(case):
    zb = _W["zb"]
    res = []
    for data in (b"", b"this is not a zip archive " * 20, b"PK\x03\x04" + b"\0" * 100, b"PK\x05\x06" + b"\xff" * 18):
        for p0 in (0, 3, len(data), len(data) + 9):
            bio = io.BytesIO(data)
            bio.seek(p0)
            out = _outcome(lambda: zb.validate_zip_bytesio(bio, source="c11"))
            res.append([len(data), out, p0, bio.tell()])
    return {"res": res}


def build_variant(base: bytes, v: dict, lim):
    """Fixture bytes -> variant bytes.  Original members stay byte-identical and readable; everything forged sits
    in extra members under zz_c11/ which no extractor asks for."""
    from vlib.gen import c11_zipforge as F
    E, T, S = lim[0], lim[1], lim[2]
    RT, RE = Fraction(lim[3]), Fraction(lim[4])
    name, d, front = v["name"], v.get("d", 0), bool(v.get("front"))
    if name == "plain":
        return base
    with zipfile.ZipFile(io.BytesIO(base)) as z0:
        infos = z0.infolist()
    n_all = len(infos)
    files = [(i.file_size, i.compress_size) for i in infos if not i.is_dir()]
    U0, C0 = sum(f for f, _ in files), sum(c for _, c in files)
    P = "zz_c11/"
    # "attr": the forged / added *file* members carry these external attributes (label of FILE_ATTRS); they stay files by name
    _, asys, aattr = ATTR_BY_LABEL[v.get("attr", "default")]
    akw = {"ext_attr": aattr, "create_system": asys, "flags": FILE_FLAGS.get(v.get("attr"), 0)} if v.get("attr") else {}
    forged = lambda nm, f, c: F.stored(P + nm, b"x", cd_file_size=f, cd_compress_size=c, **akw)  # noqa: E731
    if name == "pad":
        extra = [F.stored(P + "pad.bin", b"x" * 10, **akw)]
    elif name == "dir-wild":
        extra = [F.Entry(P + "d1/", cd_file_size=S + 1, cd_compress_size=0),
                 F.Entry(P + "d2/", cd_file_size=T + 1 + d, cd_compress_size=1)]
    elif name == "entries-all":        # total number of central-directory entries = E + d
        extra = [F.stored(P + f"p{i}", b"x") for i in range(E + d - n_all)]
    elif name == "entries-files":      # number of non-directory entries = E + d
        extra = [F.stored(P + f"p{i}", b"x") for i in range(E + d - len(files))]
    elif name == "single":
        extra = [forged("big.bin", S + d, S + d)]
    elif name == "total":
        rest = T + d - U0
        extra = []
        while rest > 0:
            piece = min(rest, S)
            extra.append(forged(f"t{len(extra)}.bin", piece, piece))
            rest -= piece
    elif name == "eratio":
        c = 1000 * RE.denominator
        f = 1000 * RE.numerator + d
        extra = [forged("r.bin", f, c), forged("dilute.bin", 50 * f, 50 * f)]
    elif name == "tratio":
        A = max(0, int(RT * C0) - U0)
        c = max(1000, A // 250 + 1)
        c += (-(C0 + c)) % RT.denominator
        f = int(RT * (C0 + c)) - U0 + d
        extra = [forged("tr.bin", f, c)]
    elif name == "zero":
        extra = [forged("z.bin", 10 + d, 0)]
    elif name == "real-entry-ratio":   # nothing forged: 4 MiB of zeros really deflate ~1000:1
        extra = [F.deflated(P + "zeros.bin", b"\0" * (4 << 20), **akw)]
    elif name == "real-total-ratio":   # every member below the entry limit, the sum above the total limit
        import random
        noise = random.Random(7).randbytes(1600)
        extra = [F.deflated(P + f"z{i}.bin", b"\0" * (1 << 20) + noise, **akw) for i in range(24)]
    else:
        raise ValueError(name)
    if v.get("dup"):
        # the member name occurs twice: the offending record first, a small innocent record of the same name last
        extra = extra + [F.stored(e.name, b"x") for e in extra[:2]]
    return F.append_entries(base, extra, front=front)


def _work_extract(case):
    from vlib import core
    from vlib.worker import arm_cpu
    mon = _W["mon"]
    zb = _W["zb"]
    D = zb.DEFAULT_ZIP_BOMB_LIMITS
    lim = [D.max_entries, D.max_total_uncompressed_bytes, D.max_single_uncompressed_bytes,
           float(D.max_total_compression_ratio), float(D.max_entry_compression_ratio)]
    if "b64" in case:
        data = core.unb64(case["b64"])
    else:
        data = build_variant((core.FIXTURES / case["fixture"]).read_bytes(), case["variant"], lim)
    with zipfile.ZipFile(io.BytesIO(data)) as z:          # monitor not armed: not part of the log
        vector = compress_runs([(i.file_size, i.compress_size, 1 if i.is_dir() else 0) for i in z.infolist()])
    modname, fname, _ = EXTRACTORS[case["ext"]]
    fn = getattr(importlib.import_module(modname), fname)
    h0 = dict(mon.hits)
    bio = io.BytesIO(data)
    arm_cpu(60)
    reused = None
    if case.get("reuse"):
        # the caller recycles ONE BytesIO: first the unmodified fixture goes through the extractor, then the same object is refilled with the variant
        bio = io.BytesIO((core.FIXTURES / case["fixture"]).read_bytes())
        try:
            r0 = fn(bio) if fname.startswith("is_") else list(fn(bio, "c11." + case["ext"]))
            reused = "first-pass-ok"
        except Exception as e:  # noqa: BLE001
            reused = "first-pass-" + type(e).__name__
        if bio.closed:
            bio, reused = io.BytesIO(data), "buffer-closed-by-extractor"
        else:
            bio.seek(0)
            bio.truncate()
            bio.write(data)
            bio.seek(0)
    mon.begin()
    try:
        r = fn(bio) if fname.startswith("is_") else list(fn(bio, "c11." + case["ext"]))
        outcome = "ok"
        detail = repr(r) if fname.startswith("is_") else f"{len(r)} result(s)"
    except _W["bomb"] as e:
        outcome, detail = "bomb", str(e)[:160]
    except Exception as e:  # noqa: BLE001
        outcome, detail = "exc:" + type(e).__name__, str(e)[:160]
    finally:
        events = mon.end()
    hits = {k: v - h0.get(k, 0) for k, v in mon.hits.items()}
    import hashlib
    return {"outcome": outcome, "detail": detail, "events": events, "vector": vector, "lim": lim, "hits": hits, "reused": reused,
            "rebound": _W["rebound"], "sha": hashlib.sha1(data).hexdigest(), "size": len(data)}


# =========================================================================================== parent side
_PENDING: list = []


def _violating(run, ref, got, component, entries, lim, replay, twin=None, atwin=None, alabel="default"):
    """Queue a decision mismatch; ``flush_pending`` names the mechanism once all of them are known."""
    m = margins(entries, lim)
    zero = any((not d) and f > 0 and c == 0 for f, c, d in entries)
    dirs = any(d for _, _, d in entries)
    if ref == {True} and got != "reject":
        kind = "wrong-accept"
        feats = frozenset([k for k in CLAUSES if m[k] > 0] + (["zero-compressed"] if zero else []))
        sym = ("accepted" if got == "accept" else "raised-" + got[4:]) + "-instead-of-zip-bomb-error"
    elif ref == {False} and got != "accept":
        kind = "wrong-reject"
        feats = frozenset([k for k in CLAUSES if m[k] == 0] + (["n"] if len(entries) == lim[0] else []))
        sym = ("rejected" if got == "reject" else "raised-" + got[4:]) + "-within-limits"
    else:
        return False
    if dirs and twin is not None:
        tref = ref_decide([e for e in entries if not e[2]], lim)
        if tref == ref and twin == ("reject" if tref == {True} else "accept"):
            feats = frozenset(["directory-entries"])     # the twin without directory entries is decided correctly
    if alabel != "default" and atwin == ("reject" if ref == {True} else "accept"):
        feats = frozenset(["attr:" + attr_feature(alabel)])     # the twin with default attributes on its file entries is decided correctly
    what = (f"file entries carry {alabel} attributes; " if alabel != "default" else "") + (f"limits (entries,total,single,total-ratio,entry-ratio)={lim} entries(f,c,dir,count)={compress_runs(entries)[:12]} "
            f"margins={m}: spec says {'reject' if ref == {True} else 'accept'}, {component} -> {got}")
    _PENDING.append((component, kind, sym, feats, dirs, len(entries), what, replay))
    return True


def flush_pending(run):
    """Mechanism = the fewest clauses that explain all mismatches of one (component, symptom): greedy cover of the
    sets of clauses that are exceeded (wrong accept) / sit exactly on their limit (wrong reject)."""
    groups: dict = {}
    for item in _PENDING:
        groups.setdefault(item[:3], []).append(item)
    del _PENDING[:]
    for (component, kind, sym), items in sorted(groups.items()):
        prefix = "exceeds-" if kind == "wrong-accept" else "on-limit-"
        named = {"directory-entries": "directory-entries-present"}
        named.update({"attr:" + attr_feature(a[0]): attr_feature(a[0]) for a in FILE_ATTRS[1:]})
        named["attr:repeated-member-names"] = "repeated-member-names"
        left = items
        while left:
            tally: dict = {}
            for it in left:
                for f in it[3]:
                    tally[f] = tally.get(f, 0) + 1
            if tally:
                best = max(sorted(tally), key=lambda f: tally[f])
                mine = [it for it in left if best in it[3]]
                left = [it for it in left if best not in it[3]]
                feat = named.get(best, prefix + best)
            else:                       # no clause is exceeded / on its limit
                mine = [it for it in left if it[4]] or left
                feat = "clean+directory-entries" if mine[0][4] else "clean"
                left = [it for it in left if it not in mine]
            mine.sort(key=lambda it: it[5])                       # smallest witness first
            for it in mine:
                run.violation(f"C11:{component}:{feat}:{sym}", it[6], it[7])


def eval_lattice(run, case, obs, cells):
    if "res" not in obs:
        run.inconclusive_cases += 1
        run.count("lattice_chunks_lost")
        return
    lim = case["lim"]
    for vi, (runs, one) in enumerate(zip(case["vectors"], obs["res"])):
        stub, real, opened, p0, p1, twin = one[:6]
        atwin, alabel = (one[6], one[7]) if len(one) > 7 else (None, "default")
        entries = expand(runs)
        ref = ref_decide(entries, lim)
        rep = {"kind": "lattice", "lim": lim, "vectors": [runs], "base": case["base"] + vi, "amode": None if case.get("amode") is None else case["amode"] + vi,
               "nmode": None if case.get("nmode") is None else case["nmode"] + vi}
        for comp, got in (("validate_zipfile[ZipInfo-stub]", stub), ("validate_zip_bytesio[forged-zip]", real), ("open_zipfile[forged-zip]", opened)):
            if got is None:
                continue
            _violating(run, ref, got, comp, entries, lim, rep, twin, atwin, alabel)
            run.count("decisions_compared" if len(ref) == 1 else "decisions_unconstrained_by_statement")
            if alabel != "default" and len(ref) == 1 and any(not d for _, _, d in entries):
                run.count("decisions_compared_with_nondefault_file_attributes")
                if ref == {True} and attr_feature(alabel) == "file-entry-carries-directory-attribute":
                    run.count("spec_rejects_although_file_entries_carry_a_directory_attribute")
                if ref == {True} and alabel == "repeated-member-names":
                    run.count("spec_rejects_containers_with_repeated_member_names")
                if ref == {True} and alabel in FILE_FLAGS:
                    run.count("spec_rejects_although_file_entries_carry_general_purpose_flags")
                    if any((not d) and f > 0 and c == 0 for f, c, d in entries):
                        run.count("spec_rejects_zero_compressed_entries_with_data_descriptor_flag")
        if real is None:
            run.count("stub_only_vectors")
        elif p1 != p0:
            cls = {"accept": "accepted", "reject": "rejected"}.get(real, "error")
            run.violation(f"C11:validate_zip_bytesio:{cls}-input:stream-position-changed",
                          f"stream at {p0} before validate_zip_bytesio ({real}), at {p1} after; limits={lim} entries={runs[:8]}", rep)
        if real is not None:
            run.count("stream_position_checks")
            run.count(f"position_checked_on_{real if real in ('accept', 'reject') else 'error'}_from_{'zero' if p0 == 0 else 'nonzero'}")
        m = margins(entries, lim)
        for a, b in itertools.combinations(CLAUSES, 2):
            if abs(m[a]) <= 1 and abs(m[b]) <= 1:
                cells.add((a, m[a], b, m[b]))
        for a in CLAUSES:
            if abs(m[a]) <= 1:
                cells.add((a, m[a]))
        zero = any((not d) and f > 0 and c == 0 for f, c, d in entries)
        dirs = any(d for _, _, d in entries)
        sig = ("lattice", case["world"], tuple(m[k] for k in CLAUSES), zero, dirs, stub, real, alabel)
        run.case(sig, sample={"limits": lim, "entries_f_c_dir_count": runs[:6], "spec_rejects": sorted(ref), "stub": stub,
                              "forged_zip": real, "pos": [p0, p1]} if (run.evaluations % 4001 == 17) else None)
        run.count("spec_reject" if ref == {True} else "spec_accept" if ref == {False} else "spec_either")
        if ref == {True} and not zero and m["n"] <= 0 and m["single"] <= 0 and m["total"] <= 0:
            RTf, REf = Fraction(lim[3]), Fraction(lim[4])
            fl = [(f, c) for f, c, d in entries if not d and c > 0]
            ex_e = max((Fraction(f, c) - REf for f, c in fl), default=Fraction(-1))
            tc = sum(c for _, c, d in entries if not d)
            ex_t = Fraction(sum(f for f, _, d in entries if not d), tc) - RTf if tc else Fraction(-1)
            if 0 < ex_e < Fraction(1, 20) and ex_t <= 0:
                run.count("spec_rejects_only_by_entry_ratio_excess_below_0.05")
            if 0 < ex_t < Fraction(1, 20) and ex_e <= 0:
                run.count("spec_rejects_only_by_total_ratio_excess_below_0.05")


def eval_extract(run, case, obs, per):
    from vlib.mon import ziporder
    ext, v = case["ext"], case.get("variant", {"name": "replayed-bytes"})
    st = per.setdefault(ext, {"runs": 0, "zips_seen": 0, "zips_validated": 0, "zips_read": 0, "member_events_after_validation": 0,
                              "rejections_seen": 0, "read_after_validation": 0, "bombs_rejected": 0, "accepted_ok": 0})
    if "events" not in obs:
        run.inconclusive_cases += 1
        run.count("extract_cases_lost")
        return
    st["runs"] += 1
    rep = {k: case[k] for k in case if k != "id"}
    entries = expand(obs["vector"])
    lim = obs["lim"]
    ref = ref_decide(entries, lim)
    benign = v["name"] in ("plain", "pad") and not v.get("attr")
    feature = "clean" if benign else ("bomb-shape-" if ref == {True} else "near-limit-") + v["name"] + ("+" + attr_feature(v["attr"]) if v.get("attr") else "")
    if v.get("dup") and not benign:
        feature += "+repeated-member-name"
    if case.get("reuse") and obs.get("reused") == "first-pass-ok":
        feature = ("clean" if benign else feature) + "+buffer-object-reused-after-a-legitimate-document"
        st["reused_buffer_runs"] = st.get("reused_buffer_runs", 0) + 1
    shape = "clean" if benign else "bomb-shaped-input" if ref == {True} else "near-limit-input"
    events = obs["events"]
    for sym, why, idx in ziporder.check(events):
        tail = [f"{e['k']}#{e['z']}" + (f"({e['m']})" if e.get("m") else "") for e in events[max(0, idx - 6): idx + 2]]
        run.violation(f"C11:{ext}:{shape}:{sym}", f"{case.get('fixture')} variant={v}: {why}; events around: {tail}", rep)
    # stream position across validate_zip_bytesio inside an extractor
    stack = []
    for e in events:
        if e["k"] == "validate_zip_bytesio_begin":
            stack.append(e["pos"])
        elif e["k"] == "validate_zip_bytesio_end" and stack:
            p0 = stack.pop()
            run.count("stream_position_checks_in_extractors")
            if p0 != e["pos"]:
                run.violation("C11:validate_zip_bytesio:in-extractor:stream-position-changed", f"{ext} {case.get('fixture')}: {p0} -> {e['pos']}", rep)
    out = obs["outcome"]
    if ref == {True}:
        if out == "bomb":
            st["bombs_rejected"] += 1
            if v.get("attr") and attr_feature(v["attr"]) == "file-entry-carries-directory-attribute":
                st["bombs_rejected_although_member_carries_directory_attribute"] = st.get("bombs_rejected_although_member_carries_directory_attribute", 0) + 1
        else:
            # the statement names the error: accepted, or turned away with an error of another class (e.g. "encrypted", "corrupt"), both miss it
            run.violation(f"C11:{ext}:{feature}:" + ("not-rejected-as-zip-bomb" if out == "ok" else "other-error-instead-of-zip-bomb-error"),
                          f"{case.get('fixture')} variant={v}: central directory exceeds the configured limits {lim} (margins {margins(entries, lim)}) but the extractor ended with {out}: {obs['detail']}", rep)
    elif ref == {False} and out == "bomb":
        run.violation(f"C11:{ext}:{feature}:rejected-as-zip-bomb-within-limits",
                      f"{case.get('fixture')} variant={v}: within the configured limits {lim} (margins {margins(entries, lim)}) but: {obs['detail']}", rep)
    s = ziporder.summarise(events)
    for k in ("zips_seen", "zips_validated", "zips_read", "member_events_after_validation"):
        st[k] += s[k]
    st["rejections_seen"] += s["rejections"]
    if s["member_events_after_validation"] and out != "bomb":
        st["read_after_validation"] += 1
    if out == "ok":
        st["accepted_ok"] += 1
    for k, n in obs["hits"].items():
        run.count("hook_hits_" + k, n)
    run.extras.setdefault("rebound_bindings", obs["rebound"])
    run.extras.setdefault("configured_default_limits", lim)
    m = margins(entries, lim)
    sig = ("extract", ext, bool(case.get("reuse")), bool(v.get("dup")), v["name"], v.get("attr", "default"), v.get("d", 0), bool(v.get("front")), out if not out.startswith("exc:") else "exc",
           s["zips_seen"], s["zips_read"] > 0, tuple(sorted(ref)))
    run.case(sig, sample={"extractor": ext, "fixture": case.get("fixture"), "variant": v, "spec_rejects": sorted(ref), "outcome": out,
                          "zip_objects": s, "margins": m} if (v["name"] in ("eratio", "plain") and st["runs"] < 3 and ext in ("xlsx", "odt")) else None)
    run.count("extract_spec_reject" if ref == {True} else "extract_spec_accept" if ref == {False} else "extract_spec_either")


def reuse_cases(run):
    """Sequences over one buffer object: same container under lenient then strict limits (and back); accepted container, then the buffer refilled
    with a rejected one (and back); random walks over both, through each of the three guard entry points."""
    rng = run.rng
    cases = []
    pools = []
    for lim in SETTINGS[1:7] + SMALL_WORLDS[:4]:
        acc, rej = [], []
        for v in constructive(lim, rng):
            if sum(r[3] for r in v) > 40:
                continue
            ref = ref_decide(expand(v), lim)
            (acc if ref == {False} else rej if ref == {True} else []).append(v)
        lenient = (lim[0] * 10, lim[1] * 16, lim[2] * 16, lim[3] * 8, lim[4] * 8)
        rej_len = [v for v in rej if ref_decide(expand(v), lenient) == {False}]
        if acc and rej:
            pools.append((list(lim), list(lenient), acc, rej, rej_len))
    fns = ("open_zipfile", "validate_zip_bytesio", "validate_zipfile")
    for n in range(run.n(240, 2400)):
        lim, lenient, acc, rej, rej_len = pools[n % len(pools)]
        shape = ("lenient-then-strict", "accepted-then-refilled", "walk")[n % 3]
        fn = fns[(n // 3) % 3] if n % 2 else "open_zipfile"
        steps = []
        if shape == "lenient-then-strict" and rej_len:
            v = rng.choice(rej_len)
            steps = [{"lim": lenient, "runs": v, "fn": fn}, {"lim": lim, "runs": v, "fn": fn}, {"lim": lenient, "runs": v, "fn": rng.choice(fns)}, {"lim": lim, "runs": v, "fn": rng.choice(fns)}]
        elif shape == "accepted-then-refilled":
            a, b = rng.choice(acc), rng.choice(rej)
            steps = [{"lim": lim, "runs": a, "fn": fn}, {"lim": lim, "runs": b, "fn": fn}, {"lim": lim, "runs": a, "fn": rng.choice(fns)}, {"lim": lim, "runs": rng.choice(rej), "fn": rng.choice(fns)}]
        else:
            for _ in range(rng.randint(3, 6)):
                steps.append({"lim": rng.choice((lim, lenient)), "runs": rng.choice(acc + rej), "fn": rng.choice(fns)})
        cases.append({"kind": "reuse", "id": n, "shape": shape, "steps": steps})
    return cases


def eval_reuse(run, case, obs):
    if "res" not in obs:
        run.inconclusive_cases += 1
        run.count("reuse_cases_lost")
        return
    accepted_before = False
    for i, (st, (got, twin)) in enumerate(zip(case["steps"], obs["res"])):
        entries = expand(st["runs"])
        ref = ref_decide(entries, st["lim"])
        run.count("decisions_on_reused_buffer")
        if ref == {True} and accepted_before:
            run.count("spec_rejects_on_buffer_accepted_before")
        want = "reject" if ref == {True} else "accept" if ref == {False} else None
        if want and got != want:
            twin_ok = twin == want
            feat = ("buffer-object-reused-after-an-accepted-open" if accepted_before else "buffer-object-reused") if twin_ok else "fresh-buffer-twin-wrong-too"
            sym = ("accepted" if got == "accept" else "rejected" if got == "reject" else "raised-" + got[4:]) + ("-instead-of-zip-bomb-error" if want == "reject" else "-within-limits")
            run.violation(f"C11:{st['fn']}[reused-buffer]:{feat}:{sym}",
                          f"step {i + 1} of {len(case['steps'])} on one BytesIO ({case['shape']}): limits={st['lim']} entries(f,c,dir,count)={st['runs'][:8]}: spec says {want}, got {got}; "
                          f"the same call on a fresh buffer -> {twin}; earlier steps: {[(s['fn'], s['lim'][:3], o[0]) for s, o in zip(case['steps'][:i], obs['res'][:i])]}",
                          {"kind": "reuse", "shape": case["shape"], "steps": case["steps"][:i + 1]})
        if got == "accept":
            accepted_before = True
    run.case(("reuse", case["shape"], tuple(s["fn"] for s in case["steps"]), tuple(o[0] for o in obs["res"])))


def lattice_cases(run):
    rng = run.rng
    cases = []
    cid = [0]

    def emit(world, lim, vectors, chunk, real=True):
        vectors = list(vectors)
        for i in range(0, len(vectors), chunk):
            cases.append({"kind": "lattice", "id": cid[0], "world": world, "lim": list(lim), "vectors": vectors[i:i + chunk],
                          "base": rng.randrange(6), "real": real, "amode": rng.randrange(2 * 2 * (len(FILE_ATTRS) - 1)), "nmode": rng.randrange(3)})
            cid[0] += 1

    for wi, lim in enumerate(SMALL_WORLDS):
        vs = [[[f, c, d, 1] for f, c, d in v] for v in small_world(lim, rng, run.n(700, None), run.n(150, 3000))]
        emit(f"small{wi}", lim, vs, 500)
    settings = list(SETTINGS) + [random_setting(rng) for _ in range(run.n(8, 120))]
    for si, lim in enumerate(settings):
        vs = list(constructive(lim, rng, light_big=run.quick))
        big = [v for v in vs if sum(r[3] for r in v) > 2000]
        small = [v for v in vs if sum(r[3] for r in v) <= 2000]
        world = f"set{si}" if si < len(SETTINGS) else "random"
        # quick tier: 50 000-entry vectors become real ZIPs for the documented defaults only (0.7 s of CPU each)
        emit(world, lim, big, 3, real=(not run.quick) or si == 0)
        emit(world, lim, small, 250)
    cases.sort(key=lambda c: -sum(sum(r[3] for r in v) for v in c["vectors"]))     # heavy chunks first
    return cases


VARIANTS_QUICK = [
    {"name": "plain"}, {"name": "pad"}, {"name": "pad", "front": 1}, {"name": "dir-wild"}, {"name": "dir-wild", "front": 1},
    {"name": "single", "d": 0}, {"name": "single", "d": 1, "front": 1}, {"name": "single", "d": 1},
    {"name": "total", "d": 0}, {"name": "total", "d": 1},
    {"name": "eratio", "d": 0, "front": 1}, {"name": "eratio", "d": 1},
    {"name": "tratio", "d": 0}, {"name": "tratio", "d": 1, "front": 1}, {"name": "tratio", "d": -1},
    {"name": "zero", "front": 1}, {"name": "zero"},
    {"name": "real-entry-ratio"}, {"name": "real-total-ratio", "front": 1},
    # the member that pushes the container over a limit is a file (by name) that carries directory / other advisory attributes
    {"name": "single", "d": 1, "attr": "dos-directory-bit"}, {"name": "zero", "front": 1, "attr": "unix-S_IFDIR-mode"},
    {"name": "real-entry-ratio", "attr": "dos-directory+readonly+archive-bits"}, {"name": "pad", "attr": "dos-directory-bit"},
    {"name": "zero", "attr": "data-descriptor-flag"}, {"name": "eratio", "d": 1, "attr": "data-descriptor+compression-option-flags"},
    {"name": "single", "d": 1, "dup": 1}, {"name": "real-entry-ratio", "dup": 1}, {"name": "zero", "dup": 1, "front": 1}, {"name": "total", "d": 1, "dup": 1},
    {"name": "real-entry-ratio", "attr": "encrypted-flag"}, {"name": "zero", "front": 1, "attr": "encrypted+data-descriptor-flags"}, {"name": "single", "d": 1, "attr": "encrypted-flag"},
]
VARIANTS_ATTR = [{"name": nm, "d": 1, "attr": a[0]} for nm in ("single", "total", "eratio", "tratio", "zero") for a in FILE_ATTRS[1:]] + \
                [{"name": nm, "attr": a[0]} for nm in ("real-entry-ratio", "real-total-ratio", "pad") for a in FILE_ATTRS[1:]]
# the same BytesIO object first carries the unmodified fixture through the extractor, then this variant
VARIANTS_REUSE = [{"name": "single", "d": 1}, {"name": "zero", "front": 1}, {"name": "real-entry-ratio"}, {"name": "pad"}]
VARIANTS_ENTRIES = [{"name": "entries-all", "d": 0}, {"name": "entries-files", "d": 1}, {"name": "entries-all", "d": 1, "front": 1}]


def extract_cases(run):
    from vlib import core
    rng = run.rng
    cases = []
    for ext, (_, _, sufs) in EXTRACTORS.items():
        fx = [p for p in core.fixtures(sufs, include_protected=True)]
        fx = [p for p in fx if p.read_bytes()[:2] == b"PK"]                 # encrypted OOXML fixtures are OLE2, not ZIP
        fx.sort(key=lambda p: p.stat().st_size)
        rel = [str(p.relative_to(core.FIXTURES)) for p in fx]
        if not rel:
            continue
        if run.quick:
            chosen = [rel[0]] + ([rng.choice(rel[1:])] if len(rel) > 1 else [])
            heavy = [rel[0]]
        else:
            chosen = rel
            heavy = rel[:3]
        for fxt in chosen:
            vs = list(VARIANTS_QUICK)
            if not run.quick:
                vs = []
                for v in VARIANTS_QUICK:
                    vs.append(dict(v))
                    vs.append(dict(v, front=0 if v.get("front") else 1))
                for nm in ("single", "total", "eratio", "tratio", "zero"):
                    vs.append({"name": nm, "d": rng.randrange(2, 10 ** 6), "front": rng.randrange(2)})
                    vs.append({"name": nm, "d": -1, "front": rng.randrange(2)})
                vs += [dict(v, front=rng.randrange(2)) for v in rng.sample(VARIANTS_ATTR, 16)]      # clause x attribute word: a sample per fixture, the cross product over all fixtures
            for v in vs:
                cases.append({"kind": "extract", "ext": ext, "fixture": fxt, "variant": v})
        for fxt in chosen[:1] if run.quick else chosen:
            for v in VARIANTS_REUSE:
                cases.append({"kind": "extract", "ext": ext, "fixture": fxt, "variant": v, "reuse": 1})
        for fxt in heavy:
            for v in VARIANTS_ENTRIES if not run.quick else VARIANTS_ENTRIES[:2]:
                cases.append({"kind": "extract", "ext": ext, "fixture": fxt, "variant": v})
    # heavy first
    cases.sort(key=lambda c: 0 if c["variant"]["name"].startswith("entries") else 1)
    for i, c in enumerate(cases):
        c["id"] = i
    return cases


def main(run):
    from vlib import pool
    run.rule = ("lattice case = (limit setting, per-clause margin class -2..+2 of the five clauses, zero-compressed flag, directory "
                "entries present, outcome); extractor case = (extractor, variant, outcome, #ZipFile objects, read?, spec verdict). "
                "Non-trivial = the real guard was called on the vector / the extractor ran with the event monitor armed")
    run.assumptions = [
        "limit ratios are exactly representable doubles and sizes stay below 2**44, so the float quotient in the real code can decide exactly; "
        "beyond that (ratio within 1 ulp of the limit) the statement is not probed",
        "ZipFile.open/read/extract/extractall/testzip are the only ways a member gets decompressed (zipfile.Path and direct ZipExtFile construction are not monitored)",
        "content identity = sha1 of the whole buffer a ZipFile was opened on",
    ]
    cells: set = set()
    lat = lattice_cases(run)
    for case, obs in pool.run_cases("checks.c11:work", lat, deadline_s=240):
        eval_lattice(run, case, obs, cells)
    flush_pending(run)
    n_lat = run.evaluations
    for case, obs in pool.run_cases("checks.c11:work", reuse_cases(run), deadline_s=120):
        eval_reuse(run, case, obs)
    for case, obs in pool.run_cases("checks.c11:work", [{"kind": "garbage", "id": 0}], workers=1, deadline_s=60):
        for ln, out, p0, p1 in obs.get("res", []):
            run.count("stream_position_checks")
            run.count("position_checked_on_error_from_" + ("zero" if p0 == 0 else "nonzero"))
            run.case(("garbage", ln, out, p0 == 0))
            if p0 != p1:
                run.violation("C11:validate_zip_bytesio:not-a-zip-input:stream-position-changed", f"{ln}-byte non-ZIP input ({out}): position {p0} -> {p1}", {"kind": "garbage"})
    per: dict = {}
    ext_cases = extract_cases(run)
    for case, obs in pool.run_cases("checks.c11:work", ext_cases, deadline_s=240):
        eval_extract(run, case, obs, per)

    pair_cells = {c for c in cells if len(c) == 4}
    run.extras["lattice"] = {"vectors": n_lat, "pairwise_boundary_cells_reached": len(pair_cells), "pairwise_boundary_cells_total": 90,
                             "single_boundary_cells_reached": len({c for c in cells if len(c) == 2}), "single_boundary_cells_total": 15,
                             "cells_not_reached": sorted(f"{a}@{da}&{b}@{db}" for a, b in itertools.combinations(CLAUSES, 2) for da in (-1, 0, 1) for db in (-1, 0, 1)
                                                         if (a, da, b, db) not in pair_cells),
                             "note": "small worlds enumerate every vector with <=2 entries over their value grid completely; constructive settings are best effort and measured by margin class"}
    run.extras["per_extractor"] = per
    run.require("lattice_vectors", n_lat, run.n(8000, 60000))
    run.require("pairwise_boundary_cells_reached", len(pair_cells), 80)
    run.require("single_boundary_cells_reached", len({c for c in cells if len(c) == 2}), 15)
    run.require("decisions_compared", run.counters.get("decisions_compared", 0), run.n(20000, 150000))
    for k, lo in (("decisions_on_reused_buffer", run.n(800, 8000)), ("spec_rejects_on_buffer_accepted_before", run.n(150, 1500)),
                  ("spec_rejects_only_by_entry_ratio_excess_below_0.05", run.n(15, 100)), ("spec_rejects_only_by_total_ratio_excess_below_0.05", run.n(15, 100)),
                  ("decisions_compared_with_nondefault_file_attributes", run.n(8000, 60000)), ("spec_rejects_although_file_entries_carry_a_directory_attribute", run.n(1500, 10000)),
                  ("spec_rejects_containers_with_repeated_member_names", run.n(1500, 10000)), ("spec_rejects_although_file_entries_carry_general_purpose_flags", run.n(1000, 7000)), ("spec_rejects_zero_compressed_entries_with_data_descriptor_flag", run.n(150, 1000))):
        run.require(k, run.counters.get(k, 0), lo)
    for k in ("accept_from_zero", "accept_from_nonzero", "reject_from_zero", "reject_from_nonzero", "error_from_nonzero"):
        run.require("position_checked_on_" + k, run.counters.get("position_checked_on_" + k, 0), 4)
    for ext in EXTRACTORS:
        st = per.get(ext, {})
        run.require(f"{ext}:read_after_validation", st.get("read_after_validation", 0), 1)
        run.require(f"{ext}:bombs_rejected", st.get("bombs_rejected", 0), 1)
        run.require(f"{ext}:reused_buffer_runs", st.get("reused_buffer_runs", 0), 2)
        run.require(f"{ext}:bombs_rejected_although_member_carries_directory_attribute", st.get("bombs_rejected_although_member_carries_directory_attribute", 0), 1)
    for h in ("ZipFile.__init__", "ZipFile.read", "ZipFile.open", "validate_zipfile", "validate_zip_bytesio", "open_zipfile"):
        run.require("hook_hits_" + h, run.counters.get("hook_hits_" + h, 0), 10)
    rb = run.extras.get("rebound_bindings", {})
    for fn in ("validate_zipfile", "validate_zip_bytesio", "open_zipfile"):
        run.require("bindings_wrapped_" + fn, len(rb.get(fn, [])), 1)
    lost = run.counters.get("lattice_chunks_lost", 0) + run.counters.get("extract_cases_lost", 0) + run.counters.get("reuse_cases_lost", 0)
    if lost:
        run.inconclusive(f"{lost} worker case(s) died or timed out")


def replay(run, doc):
    from vlib import pool
    case = dict(doc.get("case") or doc)
    case.setdefault("id", 0)
    case.setdefault("world", "replay")
    cells: set = set()
    per: dict = {}
    for c, obs in pool.run_cases("checks.c11:work", [case], workers=1, deadline_s=240):
        show = {k: v for k, v in obs.items() if k not in ("events", "vector", "rebound")}
        print("observation:", show)
        if c["kind"] == "lattice":
            print("spec (admissible values of 'rejected'):", [sorted(ref_decide(expand(r), c["lim"])) for r in c["vectors"]])
            eval_lattice(run, c, obs, cells)
            flush_pending(run)
        elif c["kind"] == "reuse":
            c.setdefault("shape", "replay")
            eval_reuse(run, c, obs)
        elif c["kind"] == "extract":
            for i, e in enumerate(obs.get("events", [])):
                print(f"  event {i}: {e}")
            eval_extract(run, c, obs, per)
        else:
            for ln, out, p0, p1 in obs.get("res", []):
                print(ln, out, p0, p1)
                if p0 != p1:
                    run.violation("C11:validate_zip_bytesio:not-a-zip-input:stream-position-changed", f"{ln}-byte non-ZIP input ({out}): position {p0} -> {p1}", {"kind": "garbage"})
