"""Hand-rolled worker pool: one subprocess per worker, JSON lines in, JSON lines out.

multiprocessing.Pool hangs when a child dies; hostile inputs may kill, exhaust or stall a child,
so each worker is a plain ``subprocess.Popen`` driven by a parent thread with ``select``.
A dead or stalled worker produces an observation (``_died`` / ``_timeout``) for the case in
flight and is replaced.
"""
from __future__ import annotations

import json
import os
import queue
import select
import signal
import subprocess
import threading
import time

from . import core


class Worker:
    def __init__(self, task: str, hashseed=0, rlimit_as: int | None = None, init: dict | None = None,
                 env: dict | None = None, cwd: str | None = None):
        self.task = task
        r, w = os.pipe()
        self.rfd = r
        e = core.child_env(hashseed, env)
        e["VERIF_RESULT_FD"] = str(w)
        if rlimit_as:
            e["VERIF_RLIMIT_AS"] = str(int(rlimit_as))
        e["VERIF_WORKER_INIT"] = json.dumps(init or {})
        self.errpath = None
        self.proc = subprocess.Popen(
            [core.PY, "-X", "faulthandler", "-m", "vlib.worker", task],
            stdin=subprocess.PIPE, stdout=subprocess.DEVNULL, stderr=subprocess.PIPE,
            pass_fds=(w,), env=e, cwd=cwd or str(core.VERIF),
        )
        os.close(w)
        self.buf = b""
        self._err = []
        self._err_total = 0     # lines ever read from the worker's stderr
        self._err_mark = 0      # ... of which before the case in flight was sent
        self._errthread = threading.Thread(target=self._drain_err, daemon=True)
        self._errthread.start()

    def _drain_err(self):
        try:
            for line in self.proc.stderr:
                self._err.append(line)
                self._err_total += 1
                if len(self._err) > 200:
                    del self._err[:100]
        except Exception:
            pass

    def stderr_tail(self, n=15) -> str:
        return b"".join(self._err[-n:]).decode("utf-8", "replace")

    def stderr_of_this_case(self) -> str:
        """What the worker wrote to stderr since the case in flight was sent (a traceback dumped during an *earlier* case of the same
        worker says nothing about where this one is stuck)."""
        n = min(self._err_total - self._err_mark, len(self._err))
        return b"".join(self._err[-n:]).decode("utf-8", "replace") if n > 0 else ""

    def send(self, case: dict) -> bool:
        self._err_mark = self._err_total
        try:
            self.proc.stdin.write((json.dumps(case) + "\n").encode())
            self.proc.stdin.flush()
            return True
        except (BrokenPipeError, OSError):
            return False

    def recv(self, deadline_s: float):
        """Return a dict, or None on EOF (death), or 'timeout'."""
        end = time.time() + deadline_s
        while b"\n" not in self.buf:
            left = end - time.time()
            if left <= 0:
                return "timeout"
            r, _, _ = select.select([self.rfd], [], [], min(left, 1.0))
            if r:
                chunk = os.read(self.rfd, 1 << 20)
                if not chunk:
                    return None
                self.buf += chunk
        line, self.buf = self.buf.split(b"\n", 1)
        return json.loads(line)

    def cpu_seconds(self) -> float:
        try:
            with open(f"/proc/{self.proc.pid}/stat") as f:
                parts = f.read().rsplit(")", 1)[1].split()
            return (int(parts[11]) + int(parts[12])) / os.sysconf("SC_CLK_TCK")
        except Exception:
            return -1.0

    def blocked(self) -> bool:
        """True when the worker is asleep and stays asleep without using CPU (waiting for a lock, a pipe, a sleep): a starved but
        runnable process is in state R, a busy one accumulates CPU time."""
        try:
            samples = []
            for _ in range(6):
                with open(f"/proc/{self.proc.pid}/stat") as f:
                    parts = f.read().rsplit(")", 1)[1].split()
                samples.append((parts[0], int(parts[11]) + int(parts[12])))
                time.sleep(0.1)
            return all(st == "S" for st, _ in samples) and samples[0][1] == samples[-1][1]
        except Exception:
            return False

    def kill(self):
        try:
            self.proc.kill()
        except Exception:
            pass
        try:
            self.proc.wait(timeout=5)
        except Exception:
            pass
        try:
            self._errthread.join(timeout=2)     # let the reader see what the worker wrote last (a traceback dumped just before the kill)
        except Exception:
            pass
        for f in (self.proc.stdin, self.proc.stderr):
            try:
                f.close()
            except Exception:
                pass
        self._close_rfd()

    def _close_rfd(self):
        # close the result descriptor exactly once: its number is reused by the next worker's pipe, and a second
        # os.close() of the stale number would cut that worker off (EBADF in an unrelated case)
        fd, self.rfd = self.rfd, -1
        if fd >= 0:
            try:
                os.close(fd)
            except Exception:
                pass

    def close(self):
        try:
            self.proc.stdin.close()
        except Exception:
            pass
        try:
            self.proc.wait(timeout=10)
        except Exception:
            self.proc.kill()
            self.proc.wait()
        self._close_rfd()
        try:
            self.proc.stderr.close()
        except Exception:
            pass


def stuck_location(stderr_text: str) -> str | None:
    """Innermost non-harness frame of the last faulthandler dump in a worker's stderr."""
    import re
    i = stderr_text.rfind("most recent call first")
    if i < 0:
        return None
    from .worker import _where
    for m in re.finditer(r'File "([^"]+)", line \d+ in (\S+)', stderr_text[i:]):
        w = _where(m.group(1), m.group(2))
        if w:
            return w
    return None


class _AnyCase(dict):
    """Stand-in case for an observation that belongs to no generated case: every field a caller may look up is None."""
    def __missing__(self, key):
        return None


def run_cases(task: str, cases, *, workers: int | None = None, deadline_s: float = 60.0,
              hashseed=0, rlimit_as: int | None = None, init: dict | None = None,
              env: dict | None = None, fresh_worker_per_case: bool = False):
    """Run ``cases`` (iterable of JSON-able dicts) through workers; yield (case, observation)."""
    workers = workers or core.NCPU
    q: queue.Queue = queue.Queue(maxsize=workers * 4)
    out: queue.Queue = queue.Queue()
    DONE = object()

    def feeder():
        # an exception in the case generator must not leave the workers waiting for ever: it becomes a harness error observation
        # (the run ends INCONCLUSIVE) and the workers are released
        try:
            for c in cases:
                q.put(c)
        except BaseException as e:
            import traceback
            out.put((_AnyCase({"id": -1, "_generator_failed": True, "recipe": _AnyCase({"src": ["none"]})}), {"_harness_error": f"case generator raised {type(e).__name__}: {e}", "_tb": traceback.format_exc()}))
        finally:
            for _ in range(workers):
                q.put(DONE)

    def drive():
        w = None
        try:
            while True:
                c = q.get()
                if c is DONE:
                    break
                if w is None:
                    w = Worker(task, hashseed, rlimit_as, init, env)
                    ready = w.recv(120)
                    if not isinstance(ready, dict) or not ready.get("_ready"):
                        out.put((c, {"_died": True, "_startup": True, "stderr": w.stderr_tail(30)}))
                        w.kill()
                        w = None
                        continue
                if not w.send(c):
                    obs = None
                else:
                    obs = w.recv(deadline_s)
                if obs == "timeout":
                    cpu = w.cpu_seconds()
                    blocked = w.blocked()
                    w.kill()
                    err = w.stderr_tail(60)
                    out.put((c, {"_timeout": True, "cpu_s": cpu, "_blocked": blocked, "stderr": err[-1500:], "_stuck_at": stuck_location(w.stderr_of_this_case())}))
                    w = None
                elif obs is None:
                    w.kill()
                    rc = w.proc.returncode
                    out.put((c, {"_died": True, "returncode": rc, "stderr": w.stderr_tail()}))
                    w = None
                else:
                    out.put((c, obs))
                    if fresh_worker_per_case:
                        w.close()
                        w = None
        finally:
            if w is not None:
                w.close()
            out.put(DONE)

    threading.Thread(target=feeder, daemon=True).start()
    ts = [threading.Thread(target=drive, daemon=True) for _ in range(workers)]
    for t in ts:
        t.start()
    done = 0
    while done < workers:
        item = out.get()
        if item is DONE:
            done += 1
            continue
        yield item
