"""Base inputs per extractor kind: repository fixtures + generated ground-truth documents, and mutation recipes.

A *source* is JSON: ["fx", "relative/path"] or ["gen", fmt, seed, feature|None].  ``load(src)`` returns its bytes
(cached per process).  ``make_input(recipe)`` applies a mutation recipe deterministically.
"""
from __future__ import annotations

import functools
import random

from vlib import core

# extension -> registry key of the extractor that documents claim it (only what the corpus needs)
EXT_KIND = {
    ".docx": "docx", ".docm": "docx", ".pptx": "pptx", ".pptm": "pptx", ".xlsx": "xlsx", ".xlsm": "xlsx",
    ".doc": "doc", ".xls": "xls", ".ppt": "ppt", ".rtf": "rtf",
    ".odt": "odt", ".odp": "odp", ".ods": "ods", ".odg": "odg", ".odf": "odf",
    ".msg": "msg", ".mbox": "mbox", ".eml": "eml",
    ".txt": "txt", ".csv": "txt", ".tsv": "txt", ".md": "txt", ".json": "txt",
    ".pdf": "pdf", ".html": "html", ".epub": "epub", ".mhtml": "mhtml",
    ".zip": "zip", ".tar": "zip", ".gz": "zip", ".7z": "zip",
}
KINDS = ["docx", "pptx", "xlsx", "doc", "xls", "ppt", "rtf", "odt", "odp", "ods", "odg", "odf", "msg", "mbox", "eml",
         "txt", "pdf", "html", "epub", "mhtml", "zip"]
ZIP_KINDS = {"docx", "pptx", "xlsx", "odt", "odp", "ods", "odg", "odf", "epub"}
TEXT_KINDS = {"rtf", "html", "mhtml", "txt", "eml", "mbox"}
GEN_FMT_KIND = {"docx": "docx", "pptx": "pptx", "xlsx": "xlsx", "odt": "odt", "odp": "odp", "ods": "ods", "odg": "odg",
                "html": "html", "mhtml": "mhtml", "epub": "epub", "rtf": "rtf", "pdf": "pdf", "txt": "txt", "csv": "txt",
                "md": "txt", "json": "txt", "tsv": "txt", "ppt": "ppt", "xls": "xls", "doc": "doc"}
KIND_EXT = {"docx": ".docx", "pptx": ".pptx", "xlsx": ".xlsx", "doc": ".doc", "xls": ".xls", "ppt": ".ppt", "rtf": ".rtf", "odt": ".odt",
            "odp": ".odp", "ods": ".ods", "odg": ".odg", "odf": ".odf", "msg": ".msg", "mbox": ".mbox", "eml": ".eml", "txt": ".txt",
            "pdf": ".pdf", "html": ".html", "epub": ".epub", "mhtml": ".mhtml", "zip": ".zip"}


def fixture_sources(include_protected=True, max_size=3_000_000):
    out = {}
    for p in core.fixtures(include_protected=include_protected):
        name = p.name.lower()
        ext = ".gz" if name.endswith(".tar.gz") else "." + name.rsplit(".", 1)[-1]
        kind = EXT_KIND.get(ext)
        if kind is None or p.stat().st_size > max_size:
            continue
        out.setdefault(kind, []).append(["fx", str(p.relative_to(core.FIXTURES))])
    return out


def generated_sources(n_per_fmt=3, base_seed=0):
    from vlib.gen import docs
    out = {}
    for fmt in sorted(docs.BUILDERS):
        kind = GEN_FMT_KIND.get(fmt)
        if kind is None:
            continue
        for i in range(n_per_fmt):
            out.setdefault(kind, []).append(["gen", fmt, base_seed + i, None])
        for feat in docs.BUILDERS[fmt][1]:       # unusual-but-well-formed constructs are inputs too
            out.setdefault(kind, []).append(["gen", fmt, base_seed, feat])
    return out


HTML_CHARSETS = ["utf-8", "iso-8859-1", "windows-1252", "iso-8859-8-i", "iso-8859-8-e", "koi8-r", "shift_jis", "x-mac-roman", "utf-16", "no-such-charset", "iso-8859-15", "cp437",
                 "utf-7", "unicode_escape", "raw_unicode_escape", "punycode", "idna", "rot13", "hex", "undefined"]
ESCAPE_CODECS = {"utf-7": b"qb00001z +2AA- +2D0- qb00002z", "unicode_escape": b"qb00001z \\ud83d \\udc00 qb00002z", "raw_unicode_escape": b"qb00001z \\ud83d qb00002z"}


def all_sources(n_gen=3, base_seed=0):
    src = fixture_sources()
    for k, v in generated_sources(n_gen, base_seed).items():
        src.setdefault(k, []).extend(v)
    # archives of generated, image-bearing documents (several results per input) in a few layouts
    for i, layout in enumerate(["zip-deflated", "tar.gz", "7z-lzma-solid", "7z-lzma-per-file"]):
        src.setdefault("zip", []).append(["arch", layout, base_seed + i, 3])
    # HTML declaring charsets Python may or may not know, with high bytes in the body
    for cs in HTML_CHARSETS:
        src.setdefault("html", []).append(["htmlcs", cs])
    return src


@functools.lru_cache(maxsize=256)
def _load(key: str) -> bytes:
    import json
    src = json.loads(key)
    if src[0] == "fx":
        return (core.FIXTURES / src[1]).read_bytes()
    if src[0] == "gen":
        from vlib.gen import docs
        return docs.build(src[1], src[2], src[3])[0]
    if src[0] == "raw":
        return core.unb64(src[1])
    if src[0] == "arch":
        from vlib.gen import archives, docs
        members = []
        for i, fmt in enumerate(["docx", "pptx", "xlsx", "odt", "pdf"][: src[3] + 2]):
            data = docs.build(fmt, src[2] * 10 + i)[0]
            members.append({"name": f"d{i}/doc{i}{docs.BUILDERS[fmt][3]}", "data": data, "type": "file"})
        return archives.build(src[1], members)
    if src[0] == "synth":
        return _synthetic(src[1])
    if src[0] == "htmlcs":
        cs = src[1]
        body = "qb00001z caf\u00e9 \u05e9\u05dc\u05d5\u05dd qb00002z"
        try:
            # escape-style codecs: a body that decodes to unpaired surrogates (what the bytes say, not text)
            raw = ESCAPE_CODECS[cs] if cs in ESCAPE_CODECS else body.encode(cs)
        except (LookupError, UnicodeError, TypeError):
            raw = b"qb00001z caf\xe9 \xf9\xec\xe5\xed qb00002z"
        return b'<html><head><meta http-equiv="Content-Type" content="text/html; charset=' + cs.encode() + b'"><title>t</title></head><body><p>' + raw + b"</p></body></html>"
    raise ValueError(src)


SYNTH_EXT = {"rtf-big-picture": ".rtf", "mbox-raw-8bit-headers": ".mbox", "7z-huge-file-count": ".7z", "7z-huge-stream-count": ".7z", "zip-huge-entry-count": ".zip",
             "zip-ascii-then-nonascii": ".zip", "mbox-ascii-then-nonascii": ".mbox",
             "7z-self-referential-encoded-header": ".7z", "7z-encoded-header-chain": ".7z",
             "tar-absolute-member-names": ".tar", "zip-absolute-member-names": ".zip", "tar-latin1-member-names": ".tar", "zip-with-compressed-members": ".zip",
             "docx-equations-nested-48": ".docx",
             "epub-hrefs-climb-1": ".epub", "epub-hrefs-climb-2": ".epub", "epub-hrefs-climb-3": ".epub", "epub-hrefs-absolute": ".epub", "epub-hrefs-dotdot-inside": ".epub",
             "msg-attachment-type-case": ".msg", "msg-attachment-type-case+name-without-extension": ".msg", "msg-attachment-name-without-extension": ".msg",
             "msg-attachment-type-padded": ".msg"}


def _synthetic(name: str) -> bytes:
    """Hand-written inputs for one purpose each (used by single checks, not part of all_sources())."""
    if name == "rtf-big-picture":
        # one picture of ~4.6 MiB (more than any fixture holds; serialisers that work in slices see more than one slice) and a small one
        rng = random.Random("rtf-big-picture")
        big = b"\x89PNG\r\n\x1a\n" + rng.randbytes(4_800_000)
        small = b"\x89PNG\r\n\x1a\n" + rng.randbytes(2_000)
        pics = "".join("{\\pict\\pngblip\\picw10\\pich10 " + d.hex() + "}" for d in (big, small))
        return ("{\\rtf1\\ansi\\ansicpg1252\\deff0{\\fonttbl{\\f0 Helvetica;}}\\pard qb00001z big picture\\par " + pics + "\\pard qb00002z\\par}").encode("ascii")
    if name in ("7z-self-referential-encoded-header", "7z-encoded-header-chain"):
        # an end header that says "the real header is packed (Copy coder) in the stream at ..." and points at itself, or at a second
        # header saying the same about the first: every checksum is right, unwrapping never reaches a plain header
        import struct as _st, zlib as _zl

        def enc_header(pos, size):
            return bytes([0x17, 0x06, pos, 0x01, 0x09, size, 0x00, 0x07, 0x0B, 0x01, 0x00, 0x01, 0x01, 0x00, 0x0C, size, 0x00, 0x00])
        if name == "7z-self-referential-encoded-header":
            body, off, hdr = b"", 0, enc_header(0, 18)
        else:
            first = enc_header(18, 18)                 # stored at 0: "the header is at 18"  (the end header itself)
            hdr = enc_header(0, 18)                    # end header at 18: "the header is at 0"
            body, off = first, 18
        start = _st.pack("<QQI", off, len(hdr), _zl.crc32(hdr) & 0xFFFFFFFF)
        return b"7z\xbc\xaf\x27\x1c\x00\x04" + _st.pack("<I", _zl.crc32(start) & 0xFFFFFFFF) + start + body + hdr
    if name == "zip-with-compressed-members":
        # an archive of logs and backups: members that are compressed streams or archives themselves, under the names tools give them
        import bz2 as _bz2, gzip as _gz, io as _io, lzma as _lz, tarfile as _tf, zipfile as _zf
        inner_tar = _io.BytesIO()
        with _tf.open(fileobj=inner_tar, mode="w") as t:
            ti = _tf.TarInfo("inner/note.txt")
            d_ = b"qb00009z inside the inner tar\n"
            ti.size = len(d_)
            t.addfile(ti, _io.BytesIO(d_))
        buf = _io.BytesIO()
        with _zf.ZipFile(buf, "w") as z:
            z.writestr("readme.txt", "qb00001z plain member\n")
            z.writestr("logs/app.log.gz", _gz.compress(b"qb00002z a gzip-compressed log\n"))
            z.writestr("logs/old.log.bz2", _bz2.compress(b"qb00003z a bzip2-compressed log\n"))
            z.writestr("logs/older.log.xz", _lz.compress(b"qb00004z an xz-compressed log\n"))
            z.writestr("backup/site.tar.gz", _gz.compress(inner_tar.getvalue()))
            z.writestr("backup/site.tgz", _gz.compress(inner_tar.getvalue()))
            z.writestr("last.md", "# qb00005z last member\n")
        return buf.getvalue()
    if name.startswith("msg-attachment-"):
        # the repository's Outlook message with attachments, relabelled by same-length replacements inside its property streams: the
        # attachments' MIME tags in another (legal: RFC 2045) letter case or padded, their file names without a routable extension
        data = (core.FIXTURES / "email" / "msg_with_attachment.msg").read_bytes() if (core.FIXTURES / "email" / "msg_with_attachment.msg").exists() else             next(p for p in core.FIXTURES.rglob("msg_with_attachment.msg")).read_bytes()

        def both(a, b):
            nonlocal data
            assert len(a) == len(b)
            data = data.replace(a.encode("utf-16-le"), b.encode("utf-16-le")).replace(a.encode("ascii"), b.encode("ascii"))
        if "type-case" in name:
            both("application/pdf", "Application/PDF")
            both("application/vnd.openxmlformats", "APPLICATION/VND.OpenXMLFormats")
        if "type-padded" in name:
            both("application/pdf", "application/PDF")
        if "name-without-extension" in name:
            both("sample.pdf", "sample_pdf")
            both(".pptx", "_pptx")
        return data
    if name.startswith("epub-hrefs-"):
        # a well-formed book whose manifest hrefs leave the container (../x above the root), are absolute, or walk up and down inside it
        import io as _io, re as _re, zipfile as _zf
        from vlib.gen import docs as _docs
        base, _ = _docs.build("epub", 3)
        form = {"epub-hrefs-climb-1": b"../", "epub-hrefs-climb-2": b"../../", "epub-hrefs-climb-3": b"../../../shared/", "epub-hrefs-absolute": b"/",
                "epub-hrefs-dotdot-inside": b"Text/../"}[name]
        zin = _zf.ZipFile(_io.BytesIO(base))
        buf = _io.BytesIO()
        with _zf.ZipFile(buf, "w", _zf.ZIP_DEFLATED) as z:
            for zi in zin.infolist():
                d_ = zin.read(zi)
                if zi.filename.endswith(".opf"):
                    d_ = _re.sub(rb'(<item\b[^>]*\bhref=")', lambda m: m.group(1) + form, d_)
                z.writestr(zi, d_, _zf.ZIP_STORED if zi.filename == "mimetype" else _zf.ZIP_DEFLATED)
        return buf.getvalue()
    if name == "docx-equations-nested-48":
        # one equation per structure kind, nested 48 levels deep (delimiters in delimiters, fractions in numerators, radicals, scripts):
        # 5 KB of well-formed OMML in an otherwise ordinary generated document
        import io as _io, zipfile as _zf
        from vlib.gen import docs as _docs
        base, _ = _docs.build("docx", 7)
        M_NS = "http://schemas.openxmlformats.org/officeDocument/2006/math"

        def nest(kind, depth):
            x = "<m:r><m:t>x</m:t></m:r>"
            for _ in range(depth):
                one = "<m:r><m:t>2</m:t></m:r>"
                x = {"d": f"<m:d><m:e>{x}</m:e></m:d>", "f": f"<m:f><m:num>{x}</m:num><m:den>{one}</m:den></m:f>", "f-den": f"<m:f><m:num>{one}</m:num><m:den>{x}</m:den></m:f>",
                     "rad": f"<m:rad><m:deg/><m:e>{x}</m:e></m:rad>", "rad-deg": f"<m:rad><m:deg>{x}</m:deg><m:e>{one}</m:e></m:rad>",
                     "sSup": f"<m:sSup><m:e>{x}</m:e><m:sup>{one}</m:sup></m:sSup>", "sSup-sup": f"<m:sSup><m:e>{one}</m:e><m:sup>{x}</m:sup></m:sSup>",
                     "sSub-sub": f"<m:sSub><m:e>{one}</m:e><m:sub>{x}</m:sub></m:sSub>", "sSubSup-sub": f"<m:sSubSup><m:e>{one}</m:e><m:sub>{x}</m:sub><m:sup>{one}</m:sup></m:sSubSup>",
                     "sPre-sup": f"<m:sPre><m:sub>{one}</m:sub><m:sup>{x}</m:sup><m:e>{one}</m:e></m:sPre>",
                     "func": f"<m:func><m:fName><m:r><m:t>sin</m:t></m:r></m:fName><m:e>{x}</m:e></m:func>",
                     "nary-e": f'<m:nary><m:naryPr><m:chr m:val="&#8721;"/></m:naryPr><m:sub>{one}</m:sub><m:sup>{one}</m:sup><m:e>{x}</m:e></m:nary>',
                     "nary-sub": f'<m:nary><m:naryPr><m:chr m:val="&#8721;"/></m:naryPr><m:sub>{x}</m:sub><m:sup>{one}</m:sup><m:e>{one}</m:e></m:nary>',
                     "nary-sup": f'<m:nary><m:naryPr><m:chr m:val="&#8747;"/></m:naryPr><m:sub>{one}</m:sub><m:sup>{x}</m:sup><m:e>{one}</m:e></m:nary>',
                     "limLow-lim": f"<m:limLow><m:e>{one}</m:e><m:lim>{x}</m:lim></m:limLow>", "limUpp-e": f"<m:limUpp><m:e>{x}</m:e><m:lim>{one}</m:lim></m:limUpp>",
                     "acc": f'<m:acc><m:accPr><m:chr m:val="&#770;"/></m:accPr><m:e>{x}</m:e></m:acc>', "bar": f"<m:bar><m:e>{x}</m:e></m:bar>",
                     "groupChr": f"<m:groupChr><m:e>{x}</m:e></m:groupChr>", "box": f"<m:box><m:e>{x}</m:e></m:box>", "borderBox": f"<m:borderBox><m:e>{x}</m:e></m:borderBox>",
                     "eqArr": f"<m:eqArr><m:e>{x}</m:e><m:e>{one}</m:e></m:eqArr>", "m": f"<m:m><m:mr><m:e>{x}</m:e><m:e>{one}</m:e></m:mr><m:mr><m:e>{one}</m:e><m:e>{one}</m:e></m:mr></m:m>"}[kind]
            return f'<w:p><m:oMath xmlns:m="{M_NS}">{x}</m:oMath></w:p>'
        # every structure kind, nested through each of its operand slots
        eqs = "".join(nest(k, 48) for k in ("d", "f", "f-den", "rad", "rad-deg", "sSup", "sSup-sup", "sSub-sub", "sSubSup-sub", "sPre-sup", "func", "nary-e", "nary-sub", "nary-sup",
                                            "limLow-lim", "limUpp-e", "acc", "bar", "groupChr", "box", "borderBox", "eqArr", "m"))
        zin = _zf.ZipFile(_io.BytesIO(base))
        buf = _io.BytesIO()
        with _zf.ZipFile(buf, "w", _zf.ZIP_DEFLATED) as z:
            for zi in zin.infolist():
                d_ = zin.read(zi)
                if zi.filename == "word/document.xml":
                    d_ = d_.replace(b"<w:body>", b"<w:body>" + eqs.encode(), 1)
                z.writestr(zi, d_)
        return buf.getvalue()
    if name == "tar-latin1-member-names":
        # member names in a legacy 8-bit encoding (a tar written on a Latin-1 system): tarfile decodes them with surrogateescape, so
        # the results' file metadata carries lone surrogates
        import io as _io, tarfile as _tf
        buf = _io.BytesIO()
        with _tf.open(fileobj=buf, mode="w", format=_tf.GNU_FORMAT, encoding="latin-1") as t:
            for n_, d_ in (("plain.txt", b"qb00001z plain name\n"), ("r\xe9sum\xe9.txt", b"qb00002z latin-1 name\n"), ("d\xefr/\xfcber.md", b"# qb00003z\n")):
                ti = _tf.TarInfo(n_)
                ti.size = len(d_)
                t.addfile(ti, _io.BytesIO(d_))
        return buf.getvalue()
    if name in ("tar-absolute-member-names", "zip-absolute-member-names"):
        # members stored under absolute names (tar -P, backup tools, raw ZipInfo writers) next to relative ones
        import io as _io, tarfile as _tf, zipfile as _zf
        members = [("notes/readme.txt", b"qb00001z relative member\n"), ("/tmp/notes.txt", b"qb00002z absolute member\n"),
                   ("/var/backup/2024/report.md", b"# qb00003z absolute, deeper\n"), ("/top.csv", b"a,b\nqb00004z,1\n")]
        buf = _io.BytesIO()
        if name.startswith("tar"):
            with _tf.open(fileobj=buf, mode="w") as t:
                for n_, d_ in members:
                    ti = _tf.TarInfo(n_)
                    ti.size = len(d_)
                    t.addfile(ti, _io.BytesIO(d_))
        else:
            with _zf.ZipFile(buf, "w") as z:
                for n_, d_ in members:
                    z.writestr(_zf.ZipInfo(n_), d_)
        return buf.getvalue()
    if name == "zip-ascii-then-nonascii":
        import io as _io, zipfile as _zf
        buf = _io.BytesIO()
        with _zf.ZipFile(buf, "w") as z:
            z.writestr("a-notes.txt", "qb00001z meeting notes, plain ASCII\n")
            z.writestr("b-prices.txt", "qb00002z the price is 5 \u20ac\n".encode("utf-8"))
            z.writestr("c-cjk.md", "# qb00003z \u6f22\u5b57\n".encode("utf-8"))
        return buf.getvalue()
    if name == "mbox-ascii-then-nonascii":
        def m(i, body):
            return ("From s%d@example.org Mon Jan  1 0%d:00:00 2024\nFrom: s%d@example.org\nTo: r@example.org\nSubject: qs0000%dz message %d\nMessage-ID: <m%d@example.org>\n"
                    "MIME-Version: 1.0\nContent-Type: text/plain; charset=utf-8\nContent-Transfer-Encoding: 8bit\n\n%s\n\n" % (i, i, i, i, i, i, body)).encode("utf-8")
        return m(1, "qb00001z plain ASCII body") + m(2, "qb00002z price 5 \u20ac") + m(3, "qb00003z \u6f22\u5b57")
    if name == "mbox-raw-8bit-headers":
        # raw 8-bit bytes (unencoded UTF-8 / Latin-1) in every header a reader copies into its result
        def msg(i, enc):
            h = ["From sender%d@example.org Mon Jan  1 0%d:00:00 2024" % (i, i), "From: Gr\u00fc\u00dfe %d <sender%d@example.org>" % (i, i), "To: Empf\u00e4nger <rcpt@example.org>",
                 "Cc: \u00c7a <cc@example.org>", "Reply-To: R\u00e9ponse <reply@example.org>", "Subject: qs0000%dz Gr\u00fc\u00dfe aus K\u00f6ln" % i, "Date: Mon, 01 Jan 2024 0%d:00:00 +0000" % i,
                 "Message-ID: <gr\u00fc\u00dfe.%d@example.org>" % i, "In-Reply-To: <gr\u00fc\u00dfe.0@example.org>", "References: <gr\u00fc\u00dfe.0@example.org>",
                 "MIME-Version: 1.0", "Content-Type: text/plain; charset=utf-8", "Content-Transfer-Encoding: 8bit", "", "qb0000%dz K\u00f6rper" % i, ""]
            return "\n".join(h).encode(enc)
        return msg(1, "utf-8") + b"\n" + msg(2, "latin-1") + b"\n"
    if name in ("7z-huge-file-count", "7z-huge-stream-count"):
        # a well-formed 7z (signature, version, both CRCs valid) whose header declares 2**60 files / pack streams: the reader's
        # own tables cannot be allocated (MemoryError inside read_archive itself, not inside a member extractor)
        import struct
        import zlib
        from vlib.gen.sevenz import num
        if name == "7z-huge-file-count":
            header = b"\x01" + b"\x05" + num(1 << 60) + b"\x00" + b"\x00"
        else:
            header = b"\x01" + b"\x04" + b"\x06" + num(0) + num(1 << 60) + b"\x00" + b"\x00" + b"\x00"
        start = struct.pack("<QQI", 0, len(header), zlib.crc32(header) & 0xFFFFFFFF)
        return b"7z\xbc\xaf\x27\x1c" + b"\x00\x04" + struct.pack("<I", zlib.crc32(start) & 0xFFFFFFFF) + start + header
    if name == "zip-huge-entry-count":
        import struct
        # an empty ZIP whose end-of-central-directory record claims 65535 entries
        return b"PK\x05\x06" + struct.pack("<HHHHIIH", 0, 0, 0xFFFF, 0xFFFF, 0, 0, 0)
    raise ValueError(name)


def load(src) -> bytes:
    import json
    return _load(json.dumps(src))


def source_ext(src) -> str:
    if src[0] == "fx":
        n = src[1].lower()
        return ".tar.gz" if n.endswith(".tar.gz") else "." + n.rsplit(".", 1)[-1]
    if src[0] == "gen":
        from vlib.gen import docs
        return docs.BUILDERS[src[1]][3]
    if src[0] == "arch":
        from vlib.gen import archives
        return archives.ext_of(src[1])
    if src[0] == "htmlcs":
        return ".html"
    if src[0] == "synth":
        return SYNTH_EXT[src[1]]
    return ".bin"


def make_input(recipe: dict) -> bytes:
    """recipe: {"src": src, "op": name|None, "family": byte|zip|text, "mseed": int, "other": src|None}"""
    from vlib.gen import mutate
    data = load(recipe["src"])
    op = recipe.get("op")
    if not op:
        return data
    rng = random.Random(f"{recipe.get('mseed', 0)}:{op}")
    fam = recipe.get("family", "byte")
    if fam == "byte":
        other = load(recipe["other"]) if recipe.get("other") else b""
        if op == "jpeg_segment_length" and "enum" in recipe:
            other = recipe["enum"]          # (the variant number: which picture, which segment, which value)
        return mutate.byte_mutate(data, op, rng, other)
    if fam == "zip":
        return mutate.zip_mutate(data, op, rng)
    if fam == "text":
        return mutate.text_mutate(data, op, rng)
    raise ValueError(fam)
