"""icontract post-conditions on the real accessor methods of every class in sharepoint2text's data_types.

Installed from the harness (no repository edit).  Conditions *record* and return True so that a
broken contract never changes what the code under test does next.  Classes are discovered
reflectively, so a class added later is covered without editing the harness; evaluation counters
per (class, method) are evidence — zero evaluations mean the monitor observed nothing.
"""
from __future__ import annotations

import inspect
import io

TEXT_METHODS = ("get_full_text", "get_text", "get_caption", "get_description", "get_content_type")


class ContractBroken(AssertionError):
    pass


class Recorder:
    def __init__(self):
        self.evals: dict[str, int] = {}
        self.broken: list[dict] = []

    def hit(self, cls, meth):
        k = f"{cls}.{meth}"
        self.evals[k] = self.evals.get(k, 0) + 1

    def bad(self, cls, meth, symptom, detail):
        if len(self.broken) < 200:
            self.broken.append({"cls": cls, "method": meth, "symptom": symptom, "detail": str(detail)[:300]})

    def drain(self):
        b, self.broken = self.broken, []
        return b


def _is_pos_int(v) -> bool:
    return isinstance(v, int) and not isinstance(v, bool) and v >= 1


def install(rec: Recorder):
    import icontract
    from sharepoint2text.parsing.extractors import data_types as DT

    wrapped = []

    def text_cond(cname, mname):
        def text_ok(self, result):
            rec.hit(cname, mname)
            if not isinstance(result, str):
                rec.bad(cname, mname, "not-str", f"returned {type(result).__name__}")
            else:
                try:
                    result.encode("utf-8")
                except UnicodeEncodeError as e:
                    rec.bad(cname, mname, "not-utf8-encodable", f"{e.reason} at {e.start}: {result[max(0, e.start - 10):e.start + 10]!r}")
            return True
        return text_ok

    def unit_meta_cond(cname):
        def unit_meta_ok(self, result):
            rec.hit(cname, "get_metadata")
            n = getattr(result, "unit_number", None)
            if not _is_pos_int(n):
                rec.bad(cname, "get_metadata", "unit-number-not-positive-int", f"unit_number={n!r}")
            return True
        return unit_meta_ok

    def image_meta_cond(cname):
        def image_meta_ok(self, result):
            rec.hit(cname, "get_metadata")
            n = getattr(result, "image_number", None)
            if not _is_pos_int(n):
                rec.bad(cname, "get_metadata", "image-number-not-positive-int", f"image_number={n!r}")
            u = getattr(result, "unit_number", None)
            if u is not None and not _is_pos_int(u):
                rec.bad(cname, "get_metadata", "image-unit-number-not-positive-int", f"unit_number={u!r}")
            return True
        return image_meta_ok

    def bytes_cond(cname):
        def bytes_ok(self, result):
            rec.hit(cname, "get_bytes")
            try:
                if not hasattr(result, "read") or not hasattr(result, "tell"):
                    rec.bad(cname, "get_bytes", "not-a-stream", type(result).__name__)
                    return True
                pos = result.tell()
                if pos != 0:
                    rec.bad(cname, "get_bytes", "stream-not-at-position-0", f"tell()={pos}")
                data = result.read()
                if not isinstance(data, (bytes, bytearray)):
                    rec.bad(cname, "get_bytes", "not-binary", type(data).__name__)
                size = getattr(self, "size_bytes", None)
                if isinstance(size, int) and not isinstance(size, bool) and pos == 0 and size != len(data):
                    rec.bad(cname, "get_bytes", "length-differs-from-reported-size", f"size_bytes={size} len(read())={len(data)}")
                result.seek(pos)
            except Exception as e:
                rec.bad(cname, "get_bytes", "stream-unusable", f"{type(e).__name__}: {e}")
            return True
        return bytes_ok

    def dim_cond(cname):
        def dim_ok(self, result):
            rec.hit(cname, "get_dim")
            try:
                t = self.get_table()
            except Exception as e:
                rec.bad(cname, "get_table", "raised", f"{type(e).__name__}: {e}")
                return True
            want = (len(t), max((len(r) for r in t), default=0))
            got = (getattr(result, "rows", None), getattr(result, "columns", None))
            if got != want:
                rec.bad(cname, "get_dim", "differs-from-table-shape", f"get_dim()={got} table shape={want}")
            return True
        return dim_ok

    def table_cond(cname):
        def table_ok(self, result):
            rec.hit(cname, "get_table")
            if not isinstance(result, list) or not all(isinstance(r, list) for r in result):
                rec.bad(cname, "get_table", "not-list-of-lists", type(result).__name__)
            return True
        return table_ok

    for cname, cls in inspect.getmembers(DT, inspect.isclass):
        if cls.__module__ != DT.__name__:
            continue
        d = cls.__dict__
        is_image = "get_bytes" in d
        is_unit = "get_text" in d and "get_images" in d
        for m in TEXT_METHODS:
            if m in d and callable(d[m]):
                setattr(cls, m, icontract.ensure(text_cond(cname, m), error=ContractBroken)(d[m]))
                wrapped.append(f"{cname}.{m}")
        if is_image:
            setattr(cls, "get_bytes", icontract.ensure(bytes_cond(cname), error=ContractBroken)(d["get_bytes"]))
            wrapped.append(f"{cname}.get_bytes")
            if "get_metadata" in d:
                setattr(cls, "get_metadata", icontract.ensure(image_meta_cond(cname), error=ContractBroken)(d["get_metadata"]))
                wrapped.append(f"{cname}.get_metadata")
        if is_unit and "get_metadata" in d:
            setattr(cls, "get_metadata", icontract.ensure(unit_meta_cond(cname), error=ContractBroken)(d["get_metadata"]))
            wrapped.append(f"{cname}.get_metadata")
        if "get_dim" in d and "get_table" in d:
            setattr(cls, "get_table", icontract.ensure(table_cond(cname), error=ContractBroken)(d["get_table"]))
            setattr(cls, "get_dim", icontract.ensure(dim_cond(cname), error=ContractBroken)(d["get_dim"]))
            wrapped += [f"{cname}.get_table", f"{cname}.get_dim"]
    return wrapped
