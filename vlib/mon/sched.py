"""Controlled scheduler for stateless exploration of thread interleavings at shared-variable accesses.

Threads call ``sched.point(label)`` before every access to the shared variable (the harness arranges that by swapping
the module's class, see checks/c15.py).  Exactly one thread runs between two points (token passing).  ``explore``
enumerates choice sequences depth-first (optionally preemption-bounded) or samples them at random.  A thread that does
not reach its next point within ``stall_s`` while holding the token is treated as *blocked* (e.g. waiting for a lock a
future fix might add): the scheduler hands the token to another enabled thread instead of deadlocking.
"""
from __future__ import annotations

import random
import threading
import time


class Deadlock(Exception):
    pass


class Run:
    def __init__(self, n_threads: int, chooser, stall_s: float = 0.05):
        self.n = n_threads
        self.chooser = chooser               # chooser(step, enabled_ids, last_id) -> chosen id
        self.cv = threading.Condition()
        self.waiting: dict[int, str] = {}    # thread idx -> label, for threads parked at a point
        self.finished: set[int] = set()
        self.token: int | None = None        # thread idx currently allowed to run
        self.running_since = 0.0
        self.trace: list[tuple[int, str]] = []
        self.decisions: list[tuple[int, int, list[int]]] = []   # (chosen position, n enabled, enabled ids)
        self.stall_s = stall_s
        self.local = threading.local()
        self.errors: list[str] = []
        self.blocked_seen = 0

    # ---- called by worker threads
    def point(self, label: str):
        idx = getattr(self.local, "idx", None)
        if idx is None:
            return                            # not one of ours (e.g. main thread)
        with self.cv:
            self.waiting[idx] = label
            if self.token == idx:
                self.token = None
            self.cv.notify_all()
            while self.token != idx:
                self.cv.wait()
            del self.waiting[idx]
            self.trace.append((idx, label))
            self.running_since = time.monotonic()

    def _thread_main(self, idx, fn):
        self.local.idx = idx
        try:
            self.point("start")
            fn(idx)
        except BaseException as e:  # noqa
            self.errors.append(f"thread {idx}: {type(e).__name__}: {e}")
        finally:
            with self.cv:
                self.finished.add(idx)
                if self.token == idx:
                    self.token = None
                self.cv.notify_all()

    # ---- main loop
    def execute(self, fns):
        threads = [threading.Thread(target=self._thread_main, args=(i, fns[i]), daemon=True) for i in range(self.n)]
        for t in threads:
            t.start()
        step = 0
        last = None
        blocked: set[int] = set()
        while True:
            with self.cv:
                # wait until nobody holds the token (or the holder is stalled = blocked on something that is not a point)
                while True:
                    if self.token is None:
                        break
                    if time.monotonic() - self.running_since > self.stall_s and self.token not in self.waiting and self.token not in self.finished:
                        blocked.add(self.token)
                        self.blocked_seen += 1
                        self.token = None
                        break
                    self.cv.wait(timeout=self.stall_s / 2)
                # threads that were blocked and have meanwhile reached a point are enabled again
                blocked -= set(self.waiting) | self.finished
                if len(self.finished) == self.n:
                    break
                enabled = sorted(set(self.waiting) - self.finished)
                if not enabled:
                    if blocked:
                        # everybody left is blocked outside a point: give them time; if nothing moves, it is a deadlock
                        moved = self.cv.wait(timeout=1.0)
                        if not moved and not (set(self.waiting) - self.finished) and len(self.finished) < self.n:
                            raise Deadlock(f"threads {sorted(blocked)} blocked, none enabled; trace={self.trace}")
                        continue
                    self.cv.wait(timeout=0.5)
                    continue
                chosen = self.chooser(step, enabled, last)
                self.decisions.append((enabled.index(chosen), len(enabled), enabled))
                step += 1
                last = chosen
                self.token = chosen
                self.running_since = time.monotonic()
                self.cv.notify_all()
        for t in threads:
            t.join(timeout=5)
        return self


def explore(make_fns, n_threads, on_schedule, *, max_schedules=None, preemption_bound=None, rng: random.Random | None = None,
            random_schedules=0, stall_s=0.05):
    """DFS over schedules (complete unless bounded), then optional random schedules.

    make_fns() -> (fns, context): fresh thread bodies + whatever on_schedule needs to judge the end state.
    on_schedule(run, context, schedule_id) is called after every execution.
    Returns stats dict.
    """
    stats = {"schedules": 0, "complete": False, "max_depth": 0, "blocked_seen": 0, "with_preemption": 0, "distinct_traces": set()}
    prefix: list[int] = []
    while True:
        preempt = [0]

        def chooser(step, enabled, last, prefix=prefix, preempt=preempt):
            if step < len(prefix):
                pos = prefix[step]
                pos = min(pos, len(enabled) - 1)
            else:
                pos = 0      # canonical first alternative: positions 0..n-1 are enumerated by backtracking
            ch = enabled[pos]
            if last is not None and last in enabled and ch != last:
                preempt[0] += 1
            return ch

        fns, ctx = make_fns()
        run = Run(n_threads, chooser, stall_s).execute(fns)
        stats["schedules"] += 1
        stats["max_depth"] = max(stats["max_depth"], len(run.decisions))
        stats["blocked_seen"] += run.blocked_seen
        stats["with_preemption"] += 1 if preempt[0] else 0
        stats["distinct_traces"].add(tuple(t for t, _ in run.trace))
        on_schedule(run, ctx, stats["schedules"])
        if max_schedules and stats["schedules"] >= max_schedules:
            break
        # backtrack: last decision that has an untried alternative (respecting the preemption bound)
        dec = run.decisions
        # canonical positions actually taken
        taken = [d[0] for d in dec]
        i = len(dec) - 1
        nxt = None
        while i >= 0:
            pos, n_en, enabled = dec[i]
            if pos + 1 < n_en:
                cand = taken[:i] + [pos + 1]
                if preemption_bound is None or _count_preemptions(dec[:i], cand, enabled) <= preemption_bound:
                    nxt = cand
                    break
                # try further alternatives at this level
                found = False
                for alt in range(pos + 2, n_en):
                    cand = taken[:i] + [alt]
                    if _count_preemptions(dec[:i], cand, enabled) <= preemption_bound:
                        nxt = cand
                        found = True
                        break
                if found:
                    break
            i -= 1
        if nxt is None:
            stats["complete"] = True
            break
        prefix = nxt
    for k in range(random_schedules):
        r = random.Random(f"{rng.random() if rng else 0.5}:{k}")

        def chooser(step, enabled, last, r=r):
            return r.choice(enabled)

        fns, ctx = make_fns()
        run = Run(n_threads, chooser, stall_s).execute(fns)
        stats["schedules"] += 1
        stats["blocked_seen"] += run.blocked_seen
        stats["distinct_traces"].add(tuple(t for t, _ in run.trace))
        on_schedule(run, ctx, stats["schedules"])
    stats["distinct_traces"] = len(stats["distinct_traces"])
    return stats


def _count_preemptions(decisions_prefix, cand_positions, enabled_at_last) -> int:
    """Preemptions in the candidate prefix: a switch away from a thread that was still enabled."""
    n = 0
    last = None
    for (pos, n_en, enabled), cpos in zip(decisions_prefix + [(0, 0, enabled_at_last)], cand_positions):
        ch = enabled[min(cpos, len(enabled) - 1)]
        if last is not None and last in enabled and ch != last:
            n += 1
        last = ch
    return n
