"""zip-order monitor (DESIGN.md §5): event log over zipfile.ZipFile and the zip-bomb guard.

``install()`` (once per worker process) wraps

* ``zipfile.ZipFile.__init__ / open / read / extract / extractall / testzip`` (class attributes, so
  openpyxl's own ``ZipFile(...)`` is seen as well), and
* ``zip_bomb.validate_zipfile``, ``validate_zip_bytesio`` and ``open_zipfile`` -- on the defining module
  *and* on every module in ``sys.modules`` that holds the same function object under any name
  (``from m import f`` bindings bypass a wrapper put on ``m`` only).  Every wrapper counts its hits.

Between ``begin()`` and ``end()`` every call appends one event ``{"k", "z", "h", ...}``:
``z`` = serial number given to the ZipFile object when it was constructed, ``h`` = sha1 of the bytes the
ZipFile was opened on (content identity: a second ZipFile over a *copy* of the same bytes has the same h).

``check(events)`` is the offline checker, a pure function of the log:

  R1  every member event (open/read/extract/extractall/testzip) on a ZipFile with content h is preceded by
      a *successful* ``validate_zipfile`` of a ZipFile with the same content h;
  R2  when ``validate_zipfile`` rejects content h, no member event on content h happened before it.
"""
from __future__ import annotations

import functools
import hashlib
import io
import os
import sys
import zipfile

MEMBER_KINDS = ("open", "read", "extract", "extractall", "testzip")
ZB_MOD = "sharepoint2text.parsing.extractors.util.zip_bomb"

_state = {"armed": False, "events": [], "next": 0, "installed": False}
hits: dict[str, int] = {}
rebound: dict[str, list[str]] = {}


def _hit(name: str) -> None:
    hits[name] = hits.get(name, 0) + 1


def _log(kind: str, zid, h, **kw) -> None:
    if _state["armed"]:
        e = {"k": kind, "z": zid, "h": h}
        e.update(kw)
        _state["events"].append(e)


def _content_sha(file) -> str | None:
    """sha1 of everything the ZipFile was opened on (not just from the current position)."""
    try:
        if isinstance(file, io.BytesIO):
            return hashlib.sha1(file.getbuffer()).hexdigest()
        if isinstance(file, (str, bytes, os.PathLike)):
            with io.open(file, "rb") as f:
                return hashlib.sha1(f.read()).hexdigest()
        if hasattr(file, "seek") and hasattr(file, "read") and hasattr(file, "tell"):
            pos = file.tell()
            try:
                file.seek(0)
                return hashlib.sha1(file.read()).hexdigest()
            finally:
                file.seek(pos)
    except Exception:
        return None
    return None


def _ident(zf):
    return getattr(zf, "_verif_zid", None), getattr(zf, "_verif_sha", None)


def _wrap_init(orig):
    @functools.wraps(orig)
    def __init__(self, file, mode="r", *a, **kw):
        _hit("ZipFile.__init__")
        zid = _state["next"]
        _state["next"] += 1
        armed = _state["armed"]
        sha = _content_sha(file) if (armed and mode == "r") else None
        try:
            orig(self, file, mode, *a, **kw)
        except BaseException as e:
            _log("init_fail", zid, sha, exc=type(e).__name__)
            raise
        try:
            self._verif_zid = zid
            self._verif_sha = sha
        except Exception:
            pass
        _log("init", zid, sha, mode=mode, entries=len(self.filelist) if mode == "r" else 0)
    return __init__


def _wrap_member(kind, orig):
    @functools.wraps(orig)
    def member(self, *a, **kw):
        _hit("ZipFile." + kind)
        zid, sha = _ident(self)
        name = a[0] if a else kw.get("name", kw.get("member"))
        if isinstance(name, zipfile.ZipInfo):
            name = name.filename
        if getattr(self, "mode", "r") == "r":
            _log(kind, zid, sha, m=None if name is None else str(name)[:80])
        return orig(self, *a, **kw)
    return member


def _wrap_validate(orig, bomb_exc):
    @functools.wraps(orig)
    def validate_zipfile(zf, *a, **kw):
        _hit("validate_zipfile")
        zid, sha = _ident(zf)
        _log("val_begin", zid, sha)
        try:
            r = orig(zf, *a, **kw)
        except bomb_exc as e:
            _log("val_reject", zid, sha, msg=str(e)[:100])
            raise
        except BaseException as e:
            _log("val_error", zid, sha, exc=type(e).__name__)
            raise
        _log("val_ok", zid, sha)
        return r
    return validate_zipfile


def _wrap_stream_helper(name, orig):
    @functools.wraps(orig)
    def helper(file_like, *a, **kw):
        _hit(name)
        try:
            before = file_like.tell()
        except Exception:
            before = None
        _log(name + "_begin", None, None, pos=before)
        try:
            return orig(file_like, *a, **kw)
        finally:
            try:
                after = file_like.tell()
            except Exception:
                after = None
            _log(name + "_end", None, None, pos=after)
    return helper


def _rebind(label: str, orig, wrapper) -> None:
    """Replace every module-level binding of ``orig`` (identity) by ``wrapper``."""
    where = []
    for modname, mod in list(sys.modules.items()):
        d = getattr(mod, "__dict__", None)
        if not isinstance(d, dict):
            continue
        for attr, val in list(d.items()):
            if val is orig:
                try:
                    setattr(mod, attr, wrapper)
                    where.append(f"{modname}.{attr}")
                except Exception:
                    pass
    rebound[label] = sorted(where)


def install() -> dict:
    if _state["installed"]:
        return rebound
    import importlib

    zb = importlib.import_module(ZB_MOD)
    from sharepoint2text.parsing.exceptions import ExtractionZipBombError

    Z = zipfile.ZipFile
    Z.__init__ = _wrap_init(Z.__init__)
    for kind in MEMBER_KINDS:
        setattr(Z, kind, _wrap_member(kind, getattr(Z, kind)))
    _rebind("validate_zipfile", zb.validate_zipfile, _wrap_validate(zb.validate_zipfile, ExtractionZipBombError))
    _rebind("validate_zip_bytesio", zb.validate_zip_bytesio, _wrap_stream_helper("validate_zip_bytesio", zb.validate_zip_bytesio))
    _rebind("open_zipfile", zb.open_zipfile, _wrap_stream_helper("open_zipfile", zb.open_zipfile))
    _state["installed"] = True
    return rebound


def begin() -> None:
    _state["events"] = []
    _state["armed"] = True


def end() -> list:
    _state["armed"] = False
    ev, _state["events"] = _state["events"], []
    return ev


# ------------------------------------------------------------------------------------------ offline checker
def check(events: list) -> list:
    """Return a list of (symptom, explanation, event index) for every ordering fault in the log."""
    problems = []
    ok: set = set()
    rejected: set = set()
    first_member: dict = {}
    for i, e in enumerate(events):
        k, h = e["k"], e.get("h")
        if k == "val_ok":
            if h is not None:
                ok.add(h)
        elif k == "val_reject":
            if h is not None and h in first_member:
                j = first_member[h]
                problems.append(("decompressed-before-rejection",
                                 f"event {j} {events[j]['k']}({events[j].get('m')}) on zip #{events[j]['z']} came before the rejection at event {i} of the same content", i))
            if h is not None:
                rejected.add(h)
        elif k in MEMBER_KINDS:
            if h is None:
                problems.append(("member-access-on-unidentified-zip", f"event {i} {k}({e.get('m')}) on a ZipFile whose content could not be identified (zip #{e['z']})", i))
            elif h not in ok:
                if h in rejected:
                    sym = "read-after-rejection"
                elif any(f["k"] == "val_ok" and f.get("h") == h for f in events[i + 1:]):
                    sym = "read-before-validation"
                else:
                    sym = "read-never-validated"
                problems.append((sym, f"event {i} {k}({e.get('m')}) on zip #{e['z']} is not preceded by a successful validate_zipfile over the same content", i))
            if h is not None:
                first_member.setdefault(h, i)
    return problems


def summarise(events: list) -> dict:
    """Per-run counts: ZipFile objects seen / validated (same object) / covered (same content) / read."""
    seen, validated, read, ok_sha = set(), set(), set(), set()
    read_after_ok = 0
    rejects = 0
    for e in events:
        k = e["k"]
        if k == "init":
            seen.add(e["z"])
        elif k == "val_ok":
            validated.add(e["z"])
            ok_sha.add(e.get("h"))
        elif k == "val_reject":
            rejects += 1
        elif k in MEMBER_KINDS:
            read.add(e["z"])
            if e.get("h") in ok_sha:
                read_after_ok += 1
    return {"zips_seen": len(seen), "zips_validated": len(validated & seen), "zips_read": len(read),
            "member_events_after_validation": read_after_ok, "rejections": rejects}
