"""File-system event monitor built on sys.addaudithook (CPython audit events carry the paths).

``install()`` once per process, then ``arm()`` / ``disarm()`` around a case; ``drain()`` returns the recorded events
[{"ev", "path", "write", "extra"}].  dir_fd-relative events are resolved through /proc/self/fd.
"""
from __future__ import annotations

import os
import sys

_EVENTS: list[dict] = []
_ARMED = False
_INSTALLED = False

WRITE_EVENTS = {"os.mkdir", "os.rmdir", "os.remove", "os.rename", "os.replace", "os.symlink", "os.link", "os.chmod", "os.chown", "os.truncate",
                "os.utime", "os.mkfifo", "os.mknod", "shutil.rmtree", "shutil.copyfile", "shutil.copymode", "shutil.copystat", "shutil.copytree",
                "shutil.move", "shutil.chown", "shutil.make_archive", "shutil.unpack_archive", "tempfile.mkdtemp", "tempfile.mkstemp"}
READ_EVENTS = {"os.scandir", "os.listdir", "os.walk", "glob.glob", "pathlib.Path.glob"}
OTHER = {"subprocess.Popen", "os.system", "os.exec", "os.posix_spawn", "os.fork", "socket.connect", "socket.bind", "socket.getaddrinfo", "urllib.Request"}


def _resolve(path, dir_fd=None):
    try:
        if isinstance(path, int):
            return os.readlink(f"/proc/self/fd/{path}")
        p = os.fsdecode(path)
        if dir_fd is not None and isinstance(dir_fd, int) and dir_fd >= 0 and not os.path.isabs(p):
            base = os.readlink(f"/proc/self/fd/{dir_fd}")
            return os.path.join(base, p)
        return p
    except Exception:
        return repr(path)


def _rmtree_dirfd():
    """shutil.rmtree walks with dir_fd-relative calls; the 'open' audit event does not carry the dir_fd: fetch it from the frame."""
    f = sys._getframe(2)
    for _ in range(8):
        if f is None:
            return None
        if f.f_code.co_name.startswith("_rmtree_safe_fd"):
            for name in ("topfd", "dirfd", "dir_fd"):
                v = f.f_locals.get(name)
                if isinstance(v, int):
                    return v
        f = f.f_back
    return None


def _hook(event, args):
    if not _ARMED:
        return
    try:
        if event == "open":
            path, mode, flags = (list(args) + [None, None, None])[:3]
            if isinstance(path, (str, bytes)) and not os.path.isabs(os.fsdecode(path)):
                dfd = _rmtree_dirfd()
                if dfd is not None:
                    path = _resolve(path, dfd)
            write = False
            if isinstance(flags, int):
                write = bool(flags & (os.O_WRONLY | os.O_RDWR | os.O_CREAT | os.O_TRUNC | os.O_APPEND))
            elif isinstance(mode, str):
                write = any(c in mode for c in "wax+")
            _EVENTS.append({"ev": "open", "path": _resolve(path), "write": write})
        elif event in WRITE_EVENTS or event in READ_EVENTS:
            a = list(args)
            path = a[0] if a else None
            dir_fd = None
            if event in ("os.mkdir",) and len(a) >= 3:
                dir_fd = a[2]
            elif event in ("os.rmdir", "os.remove") and len(a) >= 2:
                dir_fd = a[1]
            rec = {"ev": event, "path": _resolve(path, dir_fd), "write": event in WRITE_EVENTS}
            if event in ("os.rename", "os.replace", "os.symlink", "os.link", "shutil.copyfile", "shutil.move", "shutil.copytree") and len(a) >= 2:
                rec["extra"] = _resolve(a[1])
            if event == "tempfile.mkdtemp" or event == "tempfile.mkstemp":
                rec["path"] = _resolve(a[0]) if a else None
            _EVENTS.append(rec)
        elif event in OTHER or event.startswith("socket.") or event.startswith("subprocess."):
            _EVENTS.append({"ev": event, "path": repr(args)[:200], "write": True})
    except Exception as e:   # the monitor must never disturb the code under test
        _EVENTS.append({"ev": "monitor-error", "path": f"{event}: {e}", "write": False})


def install():
    global _INSTALLED
    if not _INSTALLED:
        sys.addaudithook(_hook)
        _INSTALLED = True


def arm():
    global _ARMED
    del _EVENTS[:]
    _ARMED = True


def disarm():
    global _ARMED
    _ARMED = False


def drain() -> list[dict]:
    ev = list(_EVENTS)
    del _EVENTS[:]
    return ev


def is_interpreter_read(path: str) -> bool:
    """Read-only opens the interpreter itself performs (lazy imports, codecs, mimetypes tables, zoneinfo)."""
    if not isinstance(path, str):
        return False
    if path.endswith((".py", ".pyc", ".so", ".pth")) or "/__pycache__/" in path:
        return True
    return path.startswith(("/etc/mime.types", "/etc/httpd/", "/etc/apache", "/usr/local/etc/", "/usr/share/zoneinfo", "/proc/self/", "/dev/urandom", "/etc/localtime"))
