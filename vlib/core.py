"""Shared plumbing for every check: paths, tiers, seeds, evidence, known findings, replays.

A check is a module ``checks/cNN.py`` exposing ``main(run: Run) -> None``.  It calls
``run.case(...)`` for every execution it observed, ``run.violation(...)`` for every
refuted case, ``run.require(...)`` for the minimum-observation thresholds and returns.
``Run.finish()`` turns that into the evidence file, the stdout lines and the exit code.

Exit codes: 0 held (known findings printed), 1 VIOLATION, 2 INCONCLUSIVE.
"""
from __future__ import annotations

import base64
import hashlib
import json
import os
import random
import subprocess
import sys
import time
import traceback
from pathlib import Path

VERIF = Path(__file__).resolve().parent.parent
REPO = Path(os.environ.get("VERIF_REPO", "/repo"))
DEPS = VERIF / ".deps"
PY = os.environ.get("VERIF_PYTHON", "/venv/bin/python")
FIXTURES = REPO / "sharepoint2text" / "tests" / "resources"
GUARD = "SHAREPOINT2TEXT_VERIF"
NCPU = max(2, min(14, (os.cpu_count() or 4) - 2))


def setup_paths() -> None:
    """Import the repository from /repo's working tree and third-party contract libs from .deps."""
    for p in (str(DEPS), str(VERIF), str(REPO)):
        if p in sys.path:
            sys.path.remove(p)
    sys.path.insert(0, str(DEPS))
    sys.path.insert(0, str(VERIF))
    sys.path.insert(0, str(REPO))
    sys.dont_write_bytecode = True


def ensure_deps() -> None:
    """Install icontract from the offline wheelhouse when a fresh checkout lacks .deps."""
    if (DEPS / "icontract").is_dir():
        return
    DEPS.mkdir(exist_ok=True)
    subprocess.run(
        [PY, "-m", "pip", "install", "--quiet", "--no-index", "--find-links",
         "/opt/veriftools/wheels", "--target", str(DEPS), "icontract"],
        check=False, stdout=subprocess.DEVNULL, stderr=subprocess.DEVNULL,
    )


def child_env(hashseed: str | int = 0, extra: dict | None = None) -> dict:
    env = dict(os.environ)
    env["PYTHONPATH"] = os.pathsep.join([str(REPO), str(VERIF), str(DEPS)])
    env["PYTHONHASHSEED"] = str(hashseed)
    env["PYTHONDONTWRITEBYTECODE"] = "1"
    env[GUARD] = "1"
    env.setdefault("VERIF_REPO", str(REPO))
    if extra:
        env.update({k: str(v) for k, v in extra.items()})
    return env


def b64(b: bytes) -> str:
    return base64.b64encode(b).decode("ascii")


def unb64(s: str) -> bytes:
    return base64.b64decode(s)


def sha(b: bytes | str) -> str:
    if isinstance(b, str):
        b = b.encode("utf-8", "surrogatepass")
    return hashlib.sha1(b).hexdigest()[:16]


def jdump(obj) -> str:
    return json.dumps(obj, sort_keys=True, default=_jdefault, ensure_ascii=True)


def _jdefault(o):
    if isinstance(o, (bytes, bytearray)):
        return {"_b64": b64(bytes(o))}
    if isinstance(o, (set, frozenset)):
        return sorted(o, key=repr)
    if isinstance(o, Path):
        return str(o)
    return repr(o)


def load_known_findings() -> list[dict]:
    out = []
    p = VERIF / "known_findings.json"
    if p.exists():
        out += json.loads(p.read_text())["findings"]
    d = VERIF / "known_findings.d"
    if d.is_dir():
        for q in sorted(d.glob("*.json")):
            out += json.loads(q.read_text())["findings"]
    return out


class Run:
    def __init__(self, pid: str, tier: str, seed: int, level: str = "exploration"):
        self.pid = pid
        self.tier = tier
        self.seed = seed
        self.level = level
        self.rng = random.Random(f"{pid}:{seed}")
        self.t0 = time.time()
        self.evaluations = 0
        self.distinct: set[str] = set()
        self.samples: list = []
        self.counters: dict[str, int] = {}
        self.extras: dict = {}
        self.rule = ""
        self.assumptions: list[str] = []
        self.exhaustive = False
        self._viol: dict[str, dict] = {}     # key -> first witness (+count)
        self._known: dict[str, dict] = {}
        self._requirements: list[tuple[str, int, int]] = []
        self._inconclusive: list[str] = []
        self.inconclusive_cases = 0
        self.findings = [f for f in load_known_findings() if f["property"] == pid]
        self.open_keys = {f["key"]: f for f in self.findings if f.get("status") == "open"}
        self.replay_only: str | None = None

    # ------------------------------------------------------------------ sizes
    @property
    def quick(self) -> bool:
        return self.tier == "quick"

    def n(self, quick: int, thorough: int) -> int:
        return quick if self.quick else thorough

    # ------------------------------------------------------------ observations
    def case(self, signature=None, nontrivial: bool = True, sample=None) -> None:
        """Record one observed execution.  ``signature`` identifies what makes it distinct."""
        self.evaluations += 1
        if nontrivial and signature is not None:
            self.distinct.add(signature if isinstance(signature, str) else jdump(signature))
        if sample is not None and len(self.samples) < 5:
            self.samples.append(sample)

    def count(self, name: str, n: int = 1) -> None:
        self.counters[name] = self.counters.get(name, 0) + n

    def require(self, name: str, value: int, minimum: int) -> None:
        """Minimum-observation threshold; unmet -> the run is inconclusive, never 'held'."""
        self._requirements.append((name, int(value), int(minimum)))

    def inconclusive(self, reason: str) -> None:
        self._inconclusive.append(reason)

    def violation(self, key: str, what: str, replay: dict | None = None) -> None:
        """Report a refuted case under a mechanism key (``Cnn:component:feature:symptom``)."""
        assert key.startswith(self.pid + ":"), key
        bucket = self._known if key in self.open_keys else self._viol
        if key in bucket:
            bucket[key]["count"] += 1
            return
        bucket[key] = {"count": 1, "what": what, "replay": replay or {}}

    # ------------------------------------------------------------------ finish
    def finish(self) -> int:
        wall = time.time() - self.t0
        rdir = Path(os.environ.get("VERIF_REPLAY_DIR", VERIF / "replays")) / self.pid
        if rdir.is_dir() and not self.replay_only:
            for old in rdir.glob("*.json"):      # replays describe the last run only
                old.unlink()
        lines = []
        for key, v in sorted(self._known.items()):
            f = self.open_keys[key]
            lines.append(f"KNOWN-FINDING: property={self.pid} {key} {f['what']} (seen {v['count']}x this run)")
            self._write_replay(rdir, key, v, known=True)
        viol_paths = []
        for key, v in sorted(self._viol.items()):
            path = self._write_replay(rdir, key, v, known=False)
            viol_paths.append(path)
            print(f"violation key={key} count={v['count']}: {v['what']}"[:1500])
        unmet = [f"{n}={v}<{m}" for n, v, m in self._requirements if v < m]
        status = "held"
        if viol_paths:
            status = "violated"
        elif unmet or self._inconclusive:
            status = "inconclusive"
        cov = {
            "evaluations": self.evaluations,
            "distinct_nontrivial": len(self.distinct),
            "rule": self.rule,
            "samples": self.samples[:5],
            "exhaustive": self.exhaustive,
            "counters": dict(sorted(self.counters.items())),
            "thresholds": [{"name": n, "value": v, "minimum": m} for n, v, m in self._requirements],
            "inconclusive_cases": self.inconclusive_cases,
            "known_findings_seen": {k: v["count"] for k, v in sorted(self._known.items())},
            "violation_keys": {k: v["count"] for k, v in sorted(self._viol.items())},
            "status": status,
        }
        cov.update(self.extras)
        ev = {
            "property_id": self.pid,
            "tier": self.tier,
            "seed": self.seed,
            "level": self.level,
            "coverage": cov,
            "assumptions": self.assumptions,
            "wall_s": round(wall, 2),
            "violations": len(self._viol),
        }
        if not self.replay_only:
            edir = Path(os.environ.get("VERIF_EVIDENCE_DIR", VERIF / "evidence"))   # scratch runs against mutants write elsewhere
            edir.mkdir(parents=True, exist_ok=True)
            (edir / f"{self.pid}.json").write_text(json.dumps(ev, indent=1, default=_jdefault) + "\n")
        for ln in lines:
            print(ln)
        print(f"{self.pid} tier={self.tier} seed={self.seed} evaluations={self.evaluations} "
              f"distinct={len(self.distinct)} known={len(self._known)} violations={len(self._viol)} "
              f"wall={wall:.1f}s status={status}")
        if viol_paths:
            for p in viol_paths:
                print(f"VIOLATION property={self.pid} replay={p}")
            return 1
        if status == "inconclusive":
            print(f"INCONCLUSIVE property={self.pid} " + "; ".join(unmet + self._inconclusive))
            return 2
        return 0

    def _write_replay(self, rdir: Path, key: str, v: dict, known: bool) -> str:
        rdir.mkdir(parents=True, exist_ok=True)
        name = "".join(c if c.isalnum() or c in "-_." else "_" for c in key)[:120]
        path = rdir / f"{name}.json"
        body = {"property": self.pid, "key": key, "known": known, "what": v["what"],
                "count": v["count"], "tier": self.tier, "seed": self.seed, "case": v["replay"]}
        path.write_text(json.dumps(body, indent=1, default=_jdefault) + "\n")
        return str(path)


def fixtures(exts: tuple[str, ...] | None = None, include_protected: bool = False) -> list[Path]:
    out = []
    for p in sorted(FIXTURES.rglob("*")):
        if not p.is_file():
            continue
        if not include_protected and "password_protected" in p.parts:
            continue
        if exts and not p.name.lower().endswith(exts):
            continue
        out.append(p)
    return out


def main_entry(argv: list[str]) -> int:
    import argparse
    import importlib

    ap = argparse.ArgumentParser(prog="check")
    ap.add_argument("pid")
    ap.add_argument("--tier", default=os.environ.get("VERIF_TIER", "quick"), choices=["quick", "thorough"])
    ap.add_argument("--replay", default=None)
    ap.add_argument("--seed", type=int, default=int(os.environ.get("VERIF_SEED", "0") or 0))
    a = ap.parse_args(argv)
    pid = a.pid.upper()
    ensure_deps()
    setup_paths()
    os.environ[GUARD] = "1"
    os.environ.setdefault("PYTHONHASHSEED", "0")
    mod = importlib.import_module(f"checks.{pid.lower()}")
    run = Run(pid, a.tier, a.seed, getattr(mod, "LEVEL", "exploration"))
    run.replay_only = a.replay
    try:
        if a.replay:
            mod.replay(run, json.loads(Path(a.replay).read_text()))
        else:
            mod.main(run)
    except Exception:
        traceback.print_exc()
        run.inconclusive("harness error: " + traceback.format_exc().strip().splitlines()[-1])
    return run.finish()
