"""Child process of vlib.pool: ``python -m vlib.worker pkg.module:function``.

Reads one JSON case per line on stdin, calls ``function(case) -> dict`` and writes the
observation as one JSON line on the dedicated result fd (stdout belongs to the code under
test).  ``module.work_init(init_dict)`` is called once before the first case if present.
Every observation carries ``cpu_s`` (process CPU time of the case) and ``maxrss_kb``.
"""
from __future__ import annotations

import importlib
import json
import os
import resource
import signal
import sys
import time
import traceback


class CpuBudget(BaseException):
    """Raised inside a case when its CPU budget (ITIMER_PROF) is used up."""


LAST_PROF_AT = None


def _where(fn: str, func: str | None = None) -> str | None:
    """Location of a frame that belongs to the code under test: file level for a third-party dependency, file:function for the
    repository itself (two stalls in different functions of one extractor are different mechanisms)."""
    if "/vlib/" in fn or "/checks/" in fn or fn.startswith("<"):
        return None
    if "/site-packages/" in fn:
        return "/".join(fn.split("/site-packages/", 1)[1].split("/")[:2])
    if "/sharepoint2text/" in fn:
        where = "/".join(fn.split("/")[-2:])
        if func and not func.startswith("<"):
            where += ":" + func
        return where
    return None     # standard library frames (logging, re, struct ...) are skipped: they run on behalf of a caller further out


_SAMPLES: dict = {}
_TICKS = 0
_N_TICKS = 20


def _on_prof(signum, frame):
    # The budget is spent in _N_TICKS slices of CPU time; every slice samples the innermost frame of the code under test.
    # When the budget is used up the case is attributed to the location seen most often - not to wherever the last slice
    # happened to end (a long loop in a dependency followed by a short repository function must not blame the latter).
    global LAST_PROF_AT, _TICKS
    f = frame
    where = None
    while f is not None:
        where = _where(f.f_code.co_filename, f.f_code.co_name)
        if where:
            break
        f = f.f_back
    if where:
        _SAMPLES[where] = _SAMPLES.get(where, 0) + 1
    _TICKS += 1
    if _TICKS >= _N_TICKS:
        LAST_PROF_AT = max(_SAMPLES, key=_SAMPLES.get) if _SAMPLES else where
        raise CpuBudget()


def arm_cpu(seconds: float) -> None:
    global _TICKS
    _SAMPLES.clear()
    _TICKS = 0
    signal.setitimer(signal.ITIMER_PROF, seconds / _N_TICKS, seconds / _N_TICKS)
    # a loop inside a C function (regex engine) never reaches the Python-level signal handler: have faulthandler's
    # watchdog thread dump the stack to stderr so that the parent can say where the case was when it killed the worker
    import faulthandler
    faulthandler.dump_traceback_later(seconds * 1.5 + 10, repeat=False, file=sys.stderr)


def disarm_cpu() -> None:
    signal.setitimer(signal.ITIMER_PROF, 0)
    import faulthandler
    faulthandler.cancel_dump_traceback_later()


def main() -> None:
    from vlib import core

    core.setup_paths()
    sys.setrecursionlimit(max(sys.getrecursionlimit(), 1000))
    task = sys.argv[1]
    modname, fn = task.split(":")
    rfd = int(os.environ["VERIF_RESULT_FD"])
    out = os.fdopen(rfd, "w", buffering=1)
    signal.signal(signal.SIGPROF, _on_prof)
    mod = importlib.import_module(modname)
    init = json.loads(os.environ.get("VERIF_WORKER_INIT", "{}"))
    if hasattr(mod, "work_init"):
        mod.work_init(init)
    lim = os.environ.get("VERIF_RLIMIT_AS")
    if lim:
        resource.setrlimit(resource.RLIMIT_AS, (int(lim), int(lim)))
    work = getattr(mod, fn)
    out.write(json.dumps({"_ready": True}) + "\n")
    for line in sys.stdin:
        line = line.strip()
        if not line:
            continue
        case = json.loads(line)
        t0 = time.process_time()
        global LAST_PROF_AT
        LAST_PROF_AT = None
        try:
            obs = work(case)
        except CpuBudget:
            obs = {"_cpu_exhausted": True, "_cpu_exhausted_at": LAST_PROF_AT}
        except MemoryError:
            obs = {"_oom": True}
        except BaseException as e:  # harness-level failure: report, never hide
            obs = {"_harness_error": f"{type(e).__name__}: {e}", "_tb": traceback.format_exc()[-2000:]}
        finally:
            disarm_cpu()
        if not isinstance(obs, dict):
            obs = {"value": obs}
        if LAST_PROF_AT and "_cpu_exhausted" not in obs:
            obs["_cpu_budget_fired_at"] = LAST_PROF_AT   # the budget signal fired but the code under test swallowed it and went on
        obs["cpu_s"] = round(time.process_time() - t0, 4)
        obs["maxrss_kb"] = resource.getrusage(resource.RUSAGE_SELF).ru_maxrss
        try:
            s = json.dumps(obs, default=core._jdefault)
        except Exception as e:
            s = json.dumps({"_harness_error": f"unserialisable observation: {e}"})
        out.write(s + "\n")
    out.close()


if __name__ == "__main__":
    main()
