"""Worker task shared by C02/C03/C13/C14 (and corpus producer for C04/C05/C06): build a ground-truth
document, run the real extractor, apply the pure oracles, return findings + a compact observation."""
from __future__ import annotations

from vlib import obs as O
from vlib.gen import docs, expect as E
from vlib.worker import arm_cpu


def work_init(init):
    import sharepoint2text  # noqa: F401  (pre-import so import cost is not charged to a case)


def run_doc(fmt, seed, feature=None, twin=False, want=("c02", "c03", "c13", "c14")):
    data, exp = docs.build(fmt, seed, feature, twin)
    kind, ext = docs.BUILDERS[fmt][2], docs.BUILDERS[fmt][3]
    arm_cpu(30)
    ob = O.observe(data, kind, None)
    out = {"fmt": fmt, "seed": seed, "feature": feature, "twin": twin, "size": len(data),
           "exc": ob["exc"], "n_results": ob["n_results"], "features": sorted(exp.features)}
    if fmt == "mbox" and ob["exc"] is None:
        # a mailbox yields one result per message: the results are the units of the mailbox
        res = ob["results"]
        units = [{"number": i + 1, "text": r["full_text"], "heading_path": [], "table_text": ""} for i, r in enumerate(res)]
        joined = "\n".join(u["text"] for u in units)
        out.update(cls="EmailContent", n_tokens=len(exp.seq), n_units=len(units), n_tables=0, n_images=0, errors={})
        if "c02" in want:
            out["c02"] = E.check_text(exp, joined)
        if "c03" in want:
            out["c03"] = E.check_units(exp, units, joined)
            out["unit_numbers"] = [u["number"] for u in units]
            for i, r in enumerate(res):      # each message is, in turn, a one-unit document
                if len(r.get("units", [])) != 1:
                    out["c03"].append(("unit-count", f"message {i + 1} yields {len(r.get('units', []))} units"))
        return out
    if ob["exc"] is not None or ob["n_results"] != 1:
        return out
    r = ob["results"][0]
    out["cls"] = r["cls"]
    out["n_tokens"] = len(exp.seq)
    out["n_units"] = len(r.get("units", []))
    out["n_tables"] = len(r.get("tables", []))
    out["n_images"] = len(r.get("images", []))
    out["errors"] = {k: v for k, v in r.items() if k.endswith("_error")}
    if "c02" in want:
        out["c02"] = E.check_text(exp, r["full_text"]) + E.check_table_text(exp, r["tables"])
    if "c03" in want:
        out["c03"] = E.check_units(exp, r["units"], r["full_text"])
        out["unit_numbers"] = [u.get("number") for u in r["units"]]
    if "c13" in want:
        out["c13"] = E.check_tables(exp, r["tables"])
    if "c14" in want:
        out["c14"] = E.check_images(exp, r["images"], r["units"])
    return out


def work(case):
    return run_doc(case["fmt"], case["seed"], case.get("feature"), case.get("twin", False), tuple(case.get("want", ("c02", "c03", "c13", "c14"))))
