"""Worker task shared by C02/C03/C13/C14 (and corpus producer for C04/C05/C06): build a ground-truth
document, run the real extractor, apply the pure oracles, return findings + a compact observation."""
from __future__ import annotations

import io

from vlib import obs as O
from vlib.gen import docs, expect as E
from vlib.worker import arm_cpu


def work_init(init):
    import sharepoint2text  # noqa: F401  (pre-import so import cost is not charged to a case)


def option_sequences(make) -> list[tuple[str, str]]:
    """The documented options of get_full_text() / iterate_units() (boolean keyword parameters, found by introspection): for every
    option, on one result object, the calls default -> set -> default and, on a second object, set -> default -> set.  Every call's full
    text must equal the trimmed newline-join of the units *for the same option value*, and the same option value must give the same
    text whatever was asked before."""
    import inspect
    out = []
    try:
        r0 = make()
        opts = [p.name for p in inspect.signature(r0.get_full_text).parameters.values() if isinstance(p.default, bool)]
        unit_opts = {p.name for p in inspect.signature(r0.iterate_units).parameters.values() if isinstance(p.default, bool)}
    except Exception:
        return out
    for opt in opts:
        for order in ((False, True, False), (True, False, True)):
            r = make()
            seen = {}
            for val in order:
                ft = r.get_full_text(**{opt: val})
                if opt in unit_opts:
                    joined = "\n".join(u.get_text() or "" for u in r.iterate_units(**{opt: val})).strip()
                    if joined != ft:
                        out.append(("option-join-inequality", f"get_full_text({opt}={val}) != trimmed newline-join of iterate_units({opt}={val}) after the calls {order[:order.index(val) + 1] if val not in seen else order}"))
                if val in seen and seen[val] != ft:
                    out.append(("full-text-depends-on-earlier-call", f"get_full_text({opt}={val}) gives another text after get_full_text({opt}={not val}) was called on the same object"))
                seen[val] = ft
            if len(set(seen.values())) > 1:
                OPTION_EFFECTIVE.append(opt)
    return out[:2]


OPTION_EFFECTIVE: list = []


def run_doc(fmt, seed, feature=None, twin=False, want=("c02", "c03", "c13", "c14")):
    data, exp = docs.build(fmt, seed, feature, twin)
    kind, ext = docs.BUILDERS[fmt][2], docs.BUILDERS[fmt][3]
    arm_cpu(30)
    ob = O.observe(data, kind, None)
    out = {"fmt": fmt, "seed": seed, "feature": feature, "twin": twin, "size": len(data),
           "exc": ob["exc"], "n_results": ob["n_results"], "features": sorted(exp.features)}
    if fmt == "mbox" and ob["exc"] is None:
        # a mailbox yields one result per message: the results are the units of the mailbox
        res = ob["results"]
        units = [{"number": i + 1, "text": r["full_text"], "heading_path": [], "table_text": ""} for i, r in enumerate(res)]
        joined = "\n".join(u["text"] for u in units)
        out.update(cls="EmailContent", n_tokens=len(exp.seq), n_units=len(units), n_tables=0, n_images=0, errors={})
        if "c02" in want:
            out["c02"] = E.check_text(exp, joined)
        if "c03" in want:
            out["c03"] = E.check_units(exp, units, joined)
            out["unit_numbers"] = [u["number"] for u in units]
            for i, r in enumerate(res):      # each message is, in turn, a one-unit document
                if len(r.get("units", [])) != 1:
                    out["c03"].append(("unit-count", f"message {i + 1} yields {len(r.get('units', []))} units"))
        return out
    if ob["exc"] is not None or ob["n_results"] != 1:
        return out
    r = ob["results"][0]
    out["cls"] = r["cls"]
    out["n_tokens"] = len(exp.seq)
    out["n_units"] = len(r.get("units", []))
    out["n_tables"] = len(r.get("tables", []))
    out["n_images"] = len(r.get("images", []))
    out["errors"] = {k: v for k, v in r.items() if k.endswith("_error")}
    if "c02" in want:
        out["c02"] = E.check_text(exp, r["full_text"]) + E.check_table_text(exp, r["tables"])
    if "c03" in want:
        out["c03"] = E.check_units(exp, r["units"], r["full_text"])
        out["unit_numbers"] = [u.get("number") for u in r["units"]]
        if exp.join_equality:
            del OPTION_EFFECTIVE[:]
            out["c03"] += option_sequences(lambda: next(iter(O.extractor(kind)(io.BytesIO(data), None))))
            out["options_effective"] = sorted(set(OPTION_EFFECTIVE))
    if "c13" in want:
        out["c13"] = E.check_tables(exp, r["tables"])
    if "c14" in want:
        out["c14"] = E.check_images(exp, r["images"], r["units"])
    return out


def work(case):
    return run_doc(case["fmt"], case["seed"], case.get("feature"), case.get("twin", False), tuple(case.get("want", ("c02", "c03", "c13", "c14"))))
