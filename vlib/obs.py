"""Worker-side observation of what an extractor really did with a byte string (no verdicts here)."""
from __future__ import annotations

import hashlib
import io
import json
import math


def extractor(kind: str):
    """kind: registry key ('docx', 'pdf', ...) -> the real extractor callable (lazy import by the router)."""
    from sharepoint2text.parsing import router
    return router._get_extractor(kind)


def exc_record(e: BaseException, yielded: int = 0) -> dict:
    from sharepoint2text.parsing.exceptions import ExtractionError
    cause = e.__cause__
    return {
        "type": f"{type(e).__module__}.{type(e).__qualname__}",
        "name": type(e).__name__,
        "mro": [c.__name__ for c in type(e).__mro__],
        "is_extraction_error": isinstance(e, ExtractionError),
        "is_exception": isinstance(e, Exception),
        "cause": type(cause).__name__ if cause is not None else None,
        "msg": str(e)[:300],
        "yielded_before": yielded,
    }


def jsonable(v):
    """Cell values and metadata: keep JSON types, tag everything else."""
    if v is None or isinstance(v, (bool, int, str)):
        return v
    if isinstance(v, float):
        return v if math.isfinite(v) else {"_float": repr(v)}
    if isinstance(v, (list, tuple)):
        return [jsonable(x) for x in v]
    if isinstance(v, dict):
        return {str(k): jsonable(x) for k, x in v.items()}
    return {"_type": type(v).__name__, "_repr": repr(v)[:200]}


def sha1(b: bytes) -> str:
    return hashlib.sha1(b).hexdigest()


def canonical_json(obj) -> str:
    return json.dumps(obj, sort_keys=True, ensure_ascii=True)


def image_record(img) -> dict:
    rec = {"cls": type(img).__name__}
    try:
        b = img.get_bytes()
        data = b.read()
        rec.update(sha=sha1(data), size=len(data), pos_ok=True)
    except Exception as e:
        rec["bytes_error"] = f"{type(e).__name__}: {e}"[:200]
    try:
        rec["ctype"] = img.get_content_type()
    except Exception as e:
        rec["ctype_error"] = f"{type(e).__name__}: {e}"[:200]
    try:
        m = img.get_metadata()
        rec.update(number=m.image_number, unit=m.unit_number, w=m.width, h=m.height, meta_ctype=m.content_type)
    except Exception as e:
        rec["meta_error"] = f"{type(e).__name__}: {e}"[:200]
    try:
        rec["caption"] = img.get_caption()
        rec["description"] = img.get_description()
    except Exception as e:
        rec["caption_error"] = f"{type(e).__name__}: {e}"[:200]
    return rec


def table_record(t) -> dict:
    rec = {"cls": type(t).__name__}
    try:
        g = t.get_table()
        rec["grid"] = [[jsonable(c) for c in row] for row in g]
    except Exception as e:
        rec["grid_error"] = f"{type(e).__name__}: {e}"[:200]
        rec["grid"] = []
    try:
        d = t.get_dim()
        rec["dim"] = [d.rows, d.columns]
    except Exception as e:
        rec["dim_error"] = f"{type(e).__name__}: {e}"[:200]
        rec["dim"] = None
    return rec


def _table_text(tables) -> str:
    parts = []
    for t in tables:
        try:
            for row in t.get_table():
                for c in row:
                    if c is not None:
                        parts.append(str(c))
        except Exception:
            pass
    return " ".join(parts)


def unit_record(u) -> dict:
    rec = {"cls": type(u).__name__}
    try:
        rec["text"] = u.get_text()
    except Exception as e:
        rec["text_error"] = f"{type(e).__name__}: {e}"[:200]
        rec["text"] = ""
    try:
        m = u.get_metadata()
        rec["number"] = getattr(m, "unit_number", None)
        rec["heading_path"] = list(getattr(m, "heading_path", None) or [])
        rec["meta"] = jsonable({k: getattr(m, k) for k in getattr(m, "__dataclass_fields__", {})})
    except Exception as e:
        rec["meta_error"] = f"{type(e).__name__}: {e}"[:200]
        rec["number"] = None
    try:
        imgs = u.get_images()
        rec["images"] = [image_record(i) for i in imgs]
    except Exception as e:
        rec["images_error"] = f"{type(e).__name__}: {e}"[:200]
        rec["images"] = []
    try:
        tabs = u.get_tables()
        rec["tables"] = [table_record(t) for t in tabs]
        rec["table_text"] = _table_text(tabs)
    except Exception as e:
        rec["tables_error"] = f"{type(e).__name__}: {e}"[:200]
        rec["tables"] = []
    return rec


def result_record(r, want=("text", "units", "tables", "images", "meta", "json")) -> dict:
    rec = {"cls": type(r).__name__}
    if "text" in want:
        try:
            rec["full_text"] = r.get_full_text()
        except Exception as e:
            rec["full_text_error"] = f"{type(e).__name__}: {e}"[:200]
            rec["full_text"] = ""
    if "units" in want:
        try:
            rec["units"] = [unit_record(u) for u in r.iterate_units()]
        except Exception as e:
            rec["units_error"] = f"{type(e).__name__}: {e}"[:200]
            rec["units"] = []
    if "tables" in want:
        try:
            rec["tables"] = [table_record(t) for t in r.iterate_tables()]
        except Exception as e:
            rec["tables_error"] = f"{type(e).__name__}: {e}"[:200]
            rec["tables"] = []
    if "images" in want:
        try:
            rec["images"] = [image_record(i) for i in r.iterate_images()]
        except Exception as e:
            rec["images_error"] = f"{type(e).__name__}: {e}"[:200]
            rec["images"] = []
    if "meta" in want:
        try:
            m = r.get_metadata()
            rec["meta"] = jsonable(m.to_dict() if hasattr(m, "to_dict") else dict(m.__dict__))
        except Exception as e:
            rec["meta_error"] = f"{type(e).__name__}: {e}"[:200]
    if "json" in want:
        try:
            j = r.to_json()
            rec["json_sha"] = sha1(canonical_json(j).encode())
        except Exception as e:
            rec["json_error"] = f"{type(e).__name__}: {e}"[:200]
    return rec


def observe(data: bytes, kind: str, path: str | None = None, want=("text", "units", "tables", "images", "meta", "json"),
            max_results: int = 50) -> dict:
    """Run the real extractor for ``kind`` over ``data`` and record results / the escaping exception."""
    fn = extractor(kind)
    results = []
    n = 0
    try:
        for r in fn(io.BytesIO(data), path):
            n += 1
            if len(results) < max_results:
                results.append(r)
    except BaseException as e:
        if type(e).__name__ == "CpuBudget":
            raise
        return {"exc": exc_record(e, n), "results": [result_record(r, want) for r in results], "n_results": n}
    return {"exc": None, "results": [result_record(r, want) for r in results], "n_results": n}
