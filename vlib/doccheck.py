"""Driver shared by C02 / C03 / C13 / C14: ground-truth documents x real extractors x pure oracles.

Cases: per format N clean documents, and per risky feature K (risky, control-twin) pairs.  A
violation key is ``<PID>:<fmt>:<feature|clean>:<symptom>``; a risky case whose twin (same seed,
feature in benign form) also violates is reported under ``<feature>#twin`` and can therefore
never match a listed finding.
"""
from __future__ import annotations

from vlib import pool
from vlib.gen import docs

PLAIN_FAMILY = {"txt", "csv", "tsv", "md", "json"}
CHARSET_FEATURES = {"cp1252-nonascii", "utf8-nonascii-no-bom", "utf8-bom-nonascii", "utf16-bom-nonascii", "utf16-no-bom"}
WHICH = {"C02": "c02", "C03": "c03", "C13": "c13", "C14": "c14"}


def cases_for(run, formats, n_clean, n_feat, which):
    base = run.seed * 100000
    for fmt in formats:
        feats = docs.BUILDERS[fmt][1]
        for i in range(n_clean):
            yield {"fmt": fmt, "seed": base + i, "feature": None, "twin": False, "want": [which]}
        for f in feats:
            for i in range(n_feat):
                yield {"fmt": fmt, "seed": base + i, "feature": f, "twin": False, "want": [which]}
                yield {"fmt": fmt, "seed": base + i, "feature": f, "twin": True, "want": [which]}


def run_property(run, formats=None, relevant=None):
    """relevant(fmt) -> bool: does this property claim anything for fmt (e.g. tables for C13)."""
    pid = run.pid
    which = WHICH[pid]
    formats = [f for f in (formats or sorted(docs.BUILDERS)) if relevant is None or relevant(f)]
    n_clean = run.n(40, 1500)
    n_feat = run.n(12, 80)
    accepted_clean = {f: 0 for f in formats}
    feat_pairs: dict[tuple[str, str], int] = {}
    judged_tokens = 0
    for case, ob in pool.run_cases("vlib.docwork:work", cases_for(run, formats, n_clean, n_feat, which), deadline_s=120):
        fmt, feat, twin = case["fmt"], case["feature"], case["twin"]
        label = "clean" if not feat else (feat + "#twin" if twin else feat)
        rep = {"fmt": fmt, "seed": case["seed"], "feature": feat, "twin": twin}
        if ob.get("_timeout") or ob.get("_died") or ob.get("_cpu_exhausted") or ob.get("_oom") or ob.get("_harness_error"):
            if ob.get("_harness_error"):
                run.inconclusive(f"harness error in worker: {ob['_harness_error']}")
                print(ob.get("_tb", ""))
            elif ob.get("_cpu_exhausted") or (ob.get("_timeout") and ob.get("cpu_s", 0) > 60):
                run.violation(f"{pid}:{fmt}:{label}:extractor-did-not-finish", f"well-formed generated {fmt} (seed {case['seed']}) exhausted the 30 s CPU budget", rep)
            else:
                run.inconclusive_cases += 1
            run.case(None, nontrivial=False)
            continue
        if ob.get("exc") is not None or (ob.get("n_results") != 1 and fmt != "mbox"):     # (a mailbox yields one result per message)
            why = f"{ob['exc']['name']}: {ob['exc']['msg']}" if ob.get("exc") else f"{ob.get('n_results')} results"
            run.violation(f"{pid}:{fmt}:{label}:well-formed-document-not-extracted", f"generated {fmt} document (seed {case['seed']}, feature {label}) was not extracted: {why}", rep)
            run.case(f"{fmt}:{label}:rejected")
            continue
        syms = ob.get(which, [])
        judged_tokens += ob.get("n_tokens", 0)
        for o in ob.get("options_effective", []):
            run.count(f"documents_where_option_{o}_changes_the_text")
        if not feat:
            accepted_clean[fmt] += 1
        elif not twin:
            feat_pairs[(fmt, feat)] = feat_pairs.get((fmt, feat), 0) + 1
        seen = set()
        for sym, detail in syms:
            kfmt = fmt
            if fmt in PLAIN_FAMILY and feat in CHARSET_FEATURES and not twin:
                # statistical charset detection: one mechanism whatever the carrier extension or the symptom it produces
                kfmt, sym = "plain", "charset-misdetected"
            if sym in seen:
                continue
            seen.add(sym)
            run.violation(f"{pid}:{kfmt}:{label}:{sym}", f"{fmt} (seed {case['seed']}, feature {label}): {detail}", rep)
        run.case(f"{fmt}:{label}:{ob.get('n_units')}u:{min(ob.get('n_tables', 0), 4)}t:{min(ob.get('n_images', 0), 4)}i:{','.join(sorted(seen)) or 'ok'}",
                 sample={**rep, "size": ob.get("size"), "tokens": ob.get("n_tokens"), "units": ob.get("n_units"), "tables": ob.get("n_tables"),
                         "images": ob.get("n_images"), "symptoms": sorted(seen)} if run.evaluations % 97 == 0 else None)
    run.count("tokens_judged", judged_tokens)
    for f, n in accepted_clean.items():
        run.count(f"clean_accepted_{f}", n)
        run.require(f"clean_accepted_{f}", n, min(30, n_clean))
    for (f, feat), n in feat_pairs.items():
        run.count(f"risky_pairs_{f}_{feat}", n)
    if pid == "C03" and "pptx" in formats:
        run.require("documents_where_option_include_image_captions_changes_the_text", run.counters.get("documents_where_option_include_image_captions_changes_the_text", 0), 5)
    run.extras["formats"] = formats
    run.extras["features"] = {f: sorted(docs.BUILDERS[f][1]) for f in formats}


def replay_case(run, doc):
    from vlib import docwork
    c = doc["case"]
    ob = docwork.run_doc(c["fmt"], c["seed"], c.get("feature"), c.get("twin", False))
    print({k: ob[k] for k in ob if k in ("exc", "c02", "c03", "c13", "c14", "unit_numbers", "errors")})
    which = WHICH[run.pid]
    label = "clean" if not c.get("feature") else (c["feature"] + "#twin" if c.get("twin") else c["feature"])
    for sym, detail in ob.get(which, []):
        run.violation(f"{run.pid}:{c['fmt']}:{label}:{sym}", detail, c)
    run.case("replay")
    run.case("replay2")
