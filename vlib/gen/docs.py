"""Registry of ground-truth document builders: fmt -> (builder, risky features, extractor kind, extension)."""
from __future__ import annotations

from . import ooxml

BUILDERS = {
    "docx": (ooxml.build_docx, ooxml.DOCX_FEATURES, "docx", ".docx"),
    "pptx": (ooxml.build_pptx, ooxml.PPTX_FEATURES, "pptx", ".pptx"),
    "xlsx": (ooxml.build_xlsx, ooxml.XLSX_FEATURES, "xlsx", ".xlsx"),
}


def register(fmt, builder, features, kind, ext):
    BUILDERS[fmt] = (builder, features, kind, ext)


def _load_optional():
    import importlib
    import os
    for mod in ("odf", "htmlfam", "rtf", "pdfw", "plain", "mboxdoc", "ole"):
        if mod == "ole" and not (os.environ.get("VERIF_WITH_OLE") or os.path.exists(os.path.join(os.path.dirname(__file__), "ole.ready"))):
            continue   # the OLE2 writers join the registry once they are finished (marker file vlib/gen/ole.ready)
        try:
            m = importlib.import_module(f"{__package__}.{mod}")
        except ModuleNotFoundError as e:
            if e.name and e.name.endswith(mod):
                continue
            raise
        for fmt, spec in getattr(m, "BUILDERS", {}).items():
            BUILDERS[fmt] = spec


_load_optional()


def build(fmt: str, seed: int, feature: str | None = None, twin: bool = False):
    b = BUILDERS[fmt][0]
    return b(seed, feature, twin)
