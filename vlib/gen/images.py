"""Tiny valid raster files with chosen pixel size: PNG (real zlib IDAT, correct CRCs), GIF, BMP, and JPEG containers."""
from __future__ import annotations

import struct
import zlib


def png(w: int, h: int, seed: int = 0) -> bytes:
    def chunk(t: bytes, d: bytes) -> bytes:
        return struct.pack(">I", len(d)) + t + d + struct.pack(">I", zlib.crc32(t + d) & 0xFFFFFFFF)
    raw = bytearray()
    for y in range(h):
        raw.append(0)
        for x in range(w):
            v = (x * 7 + y * 13 + seed * 31) & 0xFF
            raw += bytes((v, (v * 3) & 0xFF, (v ^ seed) & 0xFF))
    ihdr = struct.pack(">IIBBBBB", w, h, 8, 2, 0, 0, 0)
    txt = b"Comment\x00verif-%d" % seed
    return b"\x89PNG\r\n\x1a\n" + chunk(b"IHDR", ihdr) + chunk(b"tEXt", txt) + chunk(b"IDAT", zlib.compress(bytes(raw))) + chunk(b"IEND", b"")


def gif(w: int, h: int, seed: int = 0) -> bytes:
    # GIF89a, 2-colour global table, one image, minimal LZW stream of the clear code + end code
    hdr = b"GIF89a" + struct.pack("<HHBBB", w, h, 0x80, 0, 0) + bytes((seed & 0xFF, 0, 0, 255, 255, 255))
    img = b"," + struct.pack("<HHHHB", 0, 0, w, h, 0)
    data = b"\x02" + b"\x02\x4c\x01" + b"\x00"
    return hdr + b"!\xfe" + bytes([8]) + b"verif%03d" % (seed % 1000) + b"\x00" + img + data + b";"


def bmp(w: int, h: int, seed: int = 0) -> bytes:
    row = ((w * 3 + 3) // 4) * 4
    pix = bytearray()
    for y in range(h):
        r = bytearray()
        for x in range(w):
            r += bytes(((x + seed) & 0xFF, (y + seed) & 0xFF, seed & 0xFF))
        r += b"\x00" * (row - len(r))
        pix += r
    off = 14 + 40
    return (b"BM" + struct.pack("<IHHI", off + len(pix), 0, 0, off)
            + struct.pack("<IiiHHIIiiII", 40, w, -h if seed % 3 == 0 else h, 1, 24, 0, len(pix), 2835, 2835, 0, 0) + bytes(pix))
    # (every third bitmap is stored top-down: a negative biHeight, the picture is |biHeight| rows high)


def jpeg(w: int, h: int, seed: int = 0) -> bytes:
    """JPEG *container* (SOI, APP0/JFIF, DQT, SOF0 with the size, DHT-free SOS with a few entropy bytes, EOI).

    Nothing in the pipeline under test decodes pixels; size sniffers read SOF0.
    """
    app0 = b"\xff\xe0" + struct.pack(">H", 16) + b"JFIF\x00\x01\x01\x00\x00\x01\x00\x01\x00\x00"
    com = b"\xff\xfe" + struct.pack(">H", 2 + 9) + b"verif%04d" % (seed % 10000)
    dqt = b"\xff\xdb" + struct.pack(">H", 67) + b"\x00" + bytes([1 + (i + seed) % 50 for i in range(64)])
    sof = b"\xff\xc0" + struct.pack(">HBHHB", 11, 8, h, w, 1) + b"\x01\x11\x00"
    sos = b"\xff\xda" + struct.pack(">HB", 8, 1) + b"\x01\x00" + b"\x00\x3f\x00"
    ent = bytes(((seed * 17 + i * 29) % 0xFE) for i in range(24))
    return b"\xff\xd8" + app0 + com + dqt + sof + sos + ent + b"\xff\xd9"


CODECS = {
    "png": (png, "image/png", ".png"),
    "jpeg": (jpeg, "image/jpeg", ".jpg"),
    "gif": (gif, "image/gif", ".gif"),
    "bmp": (bmp, "image/bmp", ".bmp"),
}


def make(codec: str, w: int, h: int, seed: int) -> bytes:
    return CODECS[codec][0](w, h, seed)
