"""Tiny valid raster files with chosen pixel size: PNG (real zlib IDAT, correct CRCs), GIF, BMP, and JPEG containers."""
from __future__ import annotations

import struct
import zlib


def png(w: int, h: int, seed: int = 0) -> bytes:
    def chunk(t: bytes, d: bytes) -> bytes:
        return struct.pack(">I", len(d)) + t + d + struct.pack(">I", zlib.crc32(t + d) & 0xFFFFFFFF)
    raw = bytearray()
    for y in range(h):
        raw.append(0)
        for x in range(w):
            v = (x * 7 + y * 13 + seed * 31) & 0xFF
            raw += bytes((v, (v * 3) & 0xFF, (v ^ seed) & 0xFF))
    ihdr = struct.pack(">IIBBBBB", w, h, 8, 2, 0, 0, 0)
    txt = b"Comment\x00verif-%d" % seed
    return b"\x89PNG\r\n\x1a\n" + chunk(b"IHDR", ihdr) + chunk(b"tEXt", txt) + chunk(b"IDAT", zlib.compress(bytes(raw))) + chunk(b"IEND", b"")


def gif(w: int, h: int, seed: int = 0) -> bytes:
    # GIF89a, 2-colour global table, one image, minimal LZW stream of the clear code + end code
    hdr = b"GIF89a" + struct.pack("<HHBBB", w, h, 0x80, 0, 0) + bytes((seed & 0xFF, 0, 0, 255, 255, 255))
    img = b"," + struct.pack("<HHHHB", 0, 0, w, h, 0)
    data = b"\x02" + b"\x02\x4c\x01" + b"\x00"
    return hdr + b"!\xfe" + bytes([8]) + b"verif%03d" % (seed % 1000) + b"\x00" + img + data + b";"


def bmp(w: int, h: int, seed: int = 0) -> bytes:
    row = ((w * 3 + 3) // 4) * 4
    pix = bytearray()
    for y in range(h):
        r = bytearray()
        for x in range(w):
            r += bytes(((x + seed) & 0xFF, (y + seed) & 0xFF, seed & 0xFF))
        r += b"\x00" * (row - len(r))
        pix += r
    off = 14 + 40
    return (b"BM" + struct.pack("<IHHI", off + len(pix), 0, 0, off)
            + struct.pack("<IiiHHIIiiII", 40, w, -h if seed % 3 == 0 else h, 1, 24, 0, len(pix), 2835, 2835, 0, 0) + bytes(pix))
    # (every third bitmap is stored top-down: a negative biHeight, the picture is |biHeight| rows high)


def jpeg(w: int, h: int, seed: int = 0, variant: int | None = None) -> bytes:
    """JPEG *container* (SOI, APP0/JFIF, optional further segments, DQT, SOFn with the size, DHT-free SOS with a few entropy bytes, EOI).

    Nothing in the pipeline under test decodes pixels; size sniffers walk the segments up to the frame header.  The segment layout
    varies with the seed the way real encoders vary: comment / application segments whose payload ends in 0xFF, quantisation tables of a
    heavily compressed picture (entries clamped to 255), several tables, a restart interval, progressive frames (SOF2).
    """
    v = seed % 6 if variant is None else variant
    app0 = b"\xff\xe0" + struct.pack(">H", 16) + b"JFIF\x00\x01\x01\x00\x00\x01\x00\x01\x00\x00"
    com = b"\xff\xfe" + struct.pack(">H", 2 + 9) + b"verif%04d" % (seed % 10000)
    dqt = b"\xff\xdb" + struct.pack(">H", 67) + b"\x00" + bytes([1 + (i + seed) % 50 for i in range(64)])
    extra = b""
    sof_marker = b"\xff\xc0"
    if v == 1:
        com = b"\xff\xfe" + struct.pack(">H", 2 + 10) + b"verif%04d" % (seed % 10000) + b"\xff"          # latin-1 text ending in y-diaeresis
    elif v == 2:
        dqt = b"\xff\xdb" + struct.pack(">H", 67) + b"\x00" + bytes([min(255, 40 + 9 * i) for i in range(64)])   # quality ~10: high frequencies clamped to 255
    elif v == 3:
        exif = b"Exif\x00\x00" + bytes(((seed * 31 + i * 7) % 256) for i in range(40)) + b"\xff\xff"
        extra = b"\xff\xe1" + struct.pack(">H", 2 + len(exif)) + exif
        sof_marker = b"\xff\xc2"                                                                          # progressive
    elif v == 4:
        dqt = dqt + b"\xff\xdb" + struct.pack(">H", 67) + b"\x01" + bytes([255 - (i % 3) for i in range(64)])   # second table
        extra = b"\xff\xdd" + struct.pack(">HH", 4, 8)                                                     # restart interval
    elif v == 5:
        icc = b"ICC_PROFILE\x00\x01\x01" + bytes(((seed + i * 13) % 256) for i in range(64))
        extra = b"\xff\xe2" + struct.pack(">H", 2 + len(icc)) + icc + b"\xff\xed" + struct.pack(">H", 2 + 14) + b"Photoshop 3.0\x00"
    sof = sof_marker + struct.pack(">HBHHB", 11, 8, h, w, 1) + b"\x01\x11\x00"
    sos = b"\xff\xda" + struct.pack(">HB", 8, 1) + b"\x01\x00" + b"\x00\x3f\x00"
    ent = bytes(((seed * 17 + i * 29) % 0xFE) for i in range(24))
    return b"\xff\xd8" + app0 + com + extra + dqt + sof + sos + ent + b"\xff\xd9"


CODECS = {
    "png": (png, "image/png", ".png"),
    "jpeg": (jpeg, "image/jpeg", ".jpg"),
    "gif": (gif, "image/gif", ".gif"),
    "bmp": (bmp, "image/bmp", ".bmp"),
}


def make(codec: str, w: int, h: int, seed: int) -> bytes:
    return CODECS[codec][0](w, h, seed)
