"""graphsim — a simulated Microsoft Graph service over random document libraries (C18).

Two halves, both deterministic functions of a JSON-able *recipe*:

* ``Library``: the ground truth.  A site (hostname + optional site path), one default and one or
  two named drives, each a random folder tree (depth <= 5, 0..12 items per folder) of files,
  folders and the odd "package" item, with names that need URL quoting (space ``# % + & ' ( ) [ ]``
  literal ``%20``, unicode), timestamps kept as exact integers (seconds + decimal fraction string,
  up to 7 digits like the real service) and optional JSON fields left out per item.
* ``GraphSim``: a callable with the signature of ``urllib.request.urlopen`` that answers the
  requests a Graph client makes against that library: the Entra ID token endpoint, site lookup by
  ``hostname:/path``, ``/drives``, children listings by item id or by path with
  ``@odata.nextLink`` paging (configurable page size, opaque percent-encoded ``$skiptoken`` that
  must be passed back verbatim, optional empty intermediate page), item-by-path lookup and
  content download.  It behaves like the wire: the fragment of a URL is never seen, a URL with a
  raw space / control / non-ASCII character is rejected the way ``http.client`` rejects it, a
  missing or unknown bearer token is a 401, an unknown item a 404 — raised as
  ``urllib.error.HTTPError`` exactly like ``urlopen`` does.

Every response handed out is a ``SimResponse`` that counts ``read()``, ``close()`` and
context-manager entry/exit; every ``HTTPError`` carries a counting body.  One scripted ``Fault``
(request index k, kind) can be armed; it fires once, at the k-th request of the sim's life.
"""
from __future__ import annotations

import hashlib
import http.client
import io
import json
import random
import re
import time
from urllib.error import HTTPError, URLError
from urllib.parse import quote, unquote, urlsplit

GRAPH_HOST = "graph.microsoft.com"
LOGIN_HOST = "login.microsoftonline.com"
GRAPH_BASE = f"https://{GRAPH_HOST}/v1.0"

# ----------------------------------------------------------------------------------------------
# fault kinds
# ----------------------------------------------------------------------------------------------
HTTP_CODES = (400, 401, 403, 404, 429, 500, 503)
KINDS_HTTP = tuple(f"http{c}" for c in HTTP_CODES)
# the fault kinds the property quantifies over (all of them must end in the client's own error family)
# "non-2xx status returned without an exception" (a request_func that neither raises for error statuses nor
# follows redirects, a caching proxy answering 304, an interim 1xx handed through): one status per class outside
# 2xx, incl. the value next to the 2xx range; body per status in _RET_BODY (error envelope / empty / HTML)
RET_CODES = (500, 404, 100, 300, 302, 304)
KINDS_RET = tuple(f"ret{c}" for c in RET_CODES)
KINDS_CORE = KINDS_HTTP + ("urlerror", "truncjson", "nonjson") + KINDS_RET
# labelled separately: well-formed JSON of the wrong top-level type
KINDS_WRONGTYPE = ("wrongtype_list", "wrongtype_null", "wrongtype_str", "wrongtype_num")
# labelled separately: further transport failures a urlopen-shaped transport really produces
KINDS_EXTRA = ("nonjson_nonutf8", "raise_timeout", "raise_disconnect", "read_incomplete", "read_timeout")
ALL_KINDS = KINDS_CORE + KINDS_WRONGTYPE + KINDS_EXTRA

_BAD_URL_CHAR = re.compile(r"[\x00-\x20\x7f]|[^\x00-\x7f]")
_HTTP_MSG = {100: "Continue", 300: "Multiple Choices", 302: "Found", 304: "Not Modified", 400: "Bad Request", 401: "Unauthorized", 403: "Forbidden", 404: "Not Found", 429: "Too Many Requests",
             500: "Internal Server Error", 503: "Service Unavailable", 405: "Method Not Allowed"}
_GRAPH_CODE = {400: "invalidRequest", 401: "InvalidAuthenticationToken", 403: "accessDenied", 404: "itemNotFound",
               429: "activityLimitReached", 500: "generalException", 503: "serviceNotAvailable", 405: "invalidRequest"}
_RET_BODY = {100: "envelope", 300: "envelope", 302: "html", 304: "empty"}     # default: error envelope
_WRONGTYPE_BODY = {"wrongtype_list": b'[{"id": "x", "folder": {}}]', "wrongtype_null": b"null",
                   "wrongtype_str": b'"ok"', "wrongtype_num": b"42"}


class Fault:
    __slots__ = ("k", "kind", "fired")

    def __init__(self, k: int, kind: str):
        assert kind in ALL_KINDS, kind
        self.k, self.kind, self.fired = k, kind, False


# ----------------------------------------------------------------------------------------------
# timestamps: (epoch seconds, fraction digits) — exact, never parsed by the harness
# ----------------------------------------------------------------------------------------------
def stamp_text(st) -> str:
    sec, frac = st
    return time.strftime("%Y-%m-%dT%H:%M:%S", time.gmtime(sec)) + ("." + frac if frac else "") + "Z"


def stamp_ticks(st) -> int:
    """Exact value in 100 ns ticks since the epoch."""
    sec, frac = st
    return sec * 10_000_000 + (int(frac.ljust(7, "0")) if frac else 0)


# ----------------------------------------------------------------------------------------------
# ground truth
# ----------------------------------------------------------------------------------------------
_STEMS = [
    "Report", "Q1 Budget", "R&D plan", "100% done", "C# notes", "a+b", "über Größe", "日本語ファイル", "naïve café",
    "emoji 😀 deck", "semi;colon", "eq=sign", "at@home", "comma,name", "brackets [1]", "paren (2)", "it's final",
    "tilde~1", "under_score", "dash-name", "dot.in.name", "%41%20literal", "plus+plus+", "hash#tag#x", "$dollar",
    "!bang", "{brace}", "caret^", "back`tick", "Ünïcödé ＆ wide", "two  spaces", "mixed #1 50% a+b", "Straße 7",
    "Invoice", "notes", "Minutes 2024-03", "summary", "data", "Plan", "draft v2",
]
_EXTS = [".pdf", ".PDF", ".docx", ".Docx", ".xlsx", ".txt", ".tar.gz", ".md", "", ".pptx", ".PdF", ".csv", ".DOCX"]
_MIMES = {".pdf": "application/pdf", ".docx": "application/vnd.openxmlformats-officedocument.wordprocessingml.document",
          ".xlsx": "application/vnd.openxmlformats-officedocument.spreadsheetml.sheet", ".txt": "text/plain",
          ".gz": "application/gzip", ".md": "text/markdown", ".pptx": "application/vnd.openxmlformats-officedocument.presentationml.presentation",
          ".csv": "text/csv"}
_FRACS = ["", "", "", "", "000", "0000000", "5", "25", "123", "123456", "1234567", "999999", "9999999", "000001",
          "0000001", "500", "7500000"]
_ID_ALPHA = "ABCDEFGHIJKLMNOPQRSTUVWXYZ234567"
_OPTIONAL = ("webUrl", "size", "createdDateTime", "lastModifiedDateTime", "downloadUrl", "listItem", "facetBody",
             "parentReference")

SHAPES = {
    # depth = deepest folder level below the root, max_items per folder, folder budget per drive
    "tiny": {"depth": 1, "max_items": 3, "folders": 1, "p_folder": 0.3, "spine": 0},
    "small": {"depth": 2, "max_items": 4, "folders": 3, "p_folder": 0.35, "spine": 0},
    "medium": {"depth": 4, "max_items": 7, "folders": 7, "p_folder": 0.35, "spine": 3},
    "deep": {"depth": 5, "max_items": 3, "folders": 7, "p_folder": 0.5, "spine": 5},
    "wide": {"depth": 2, "max_items": 12, "folders": 4, "p_folder": 0.2, "spine": 0},
    "large": {"depth": 5, "max_items": 12, "folders": 22, "p_folder": 0.3, "spine": 5},
}


class Node:
    __slots__ = ("id", "name", "kind", "children", "parent", "created", "modified", "size", "omit", "custom",
                 "empty_page_at", "_json")

    def __init__(self, id, name, kind, parent):
        self.id, self.name, self.kind, self.parent = id, name, kind, parent
        self.children: list[Node] = []
        self.created = self.modified = None
        self.size = 0
        self.omit: frozenset = frozenset()
        self.custom = None
        self.empty_page_at = None
        self._json = {}

    def ancestors(self) -> list["Node"]:
        out, n = [], self.parent
        while n is not None and n.parent is not None:
            out.append(n)
            n = n.parent
        return out[::-1]

    def parent_path(self) -> str:
        """Path of the containing folder relative to the drive root ('' for items in the root)."""
        return "/".join(a.name for a in self.ancestors())

    def path(self) -> str:
        p = self.parent_path()
        return f"{p}/{self.name}" if p else self.name


class Drive:
    def __init__(self, id, name, root):
        self.id, self.name, self.root = id, name, root
        self.by_id: dict[str, Node] = {}

    def index(self):
        stack = [self.root]
        while stack:
            n = stack.pop()
            self.by_id[n.id] = n
            stack.extend(n.children)

    def files(self):
        return [n for n in self.by_id.values() if n.kind == "file"]

    def folders(self):
        return [n for n in self.by_id.values() if n.kind == "folder" and n.parent is not None]

    def resolve(self, path: str, ci: bool = False) -> Node | None:
        node = self.root
        for seg in [s for s in path.split("/") if s != ""]:
            nxt = None
            for c in node.children:
                if c.name == seg or (ci and c.name.lower() == seg.lower()):
                    nxt = c
                    break
            if nxt is None:
                return None
            node = nxt
        return node


class Library:
    """Ground truth built from ``recipe = {"seed", "shape", "page_size", "strip_fraction"?, "empty_pages"?, "prefix_siblings"?, "ext_shapes"?, "folder_stamps"?}``.

    ``prefix_siblings``: next to some folders (any depth) there are sibling folders whose name extends the folder's name
    ("Plan" / "Plan2024" / "Plan old") or is a proper prefix of it ("Pl"), each with files of its own and sometimes a
    sub-folder — names that a string-prefix test on paths confuses with "the same folder or something below it"."""

    def __init__(self, recipe: dict):
        self.recipe = recipe
        rng = random.Random(f"graphsim:{recipe['seed']}")
        self._rng = rng
        self.shape = dict(SHAPES[recipe.get("shape", "small")])
        self.page_size = int(recipe.get("page_size", 3))
        self.tenant_id = "%08x-%04x-4%03x-a%03x-%012x" % (rng.getrandbits(32), rng.getrandbits(16), rng.getrandbits(12), rng.getrandbits(12), rng.getrandbits(48))
        self.client_id = "app-%08x" % rng.getrandbits(32)
        self.client_secret = "s3cr~t+/%s=" % ("%x" % rng.getrandbits(40))
        self.hostname = rng.choice(["contoso.sharepoint.com", "fabrikam-my.sharepoint.com", "x1.sharepoint.com"])
        self.site_path = rng.choice(["/sites/Docs", "/sites/Team-A", "/teams/x_y", "", "/sites/Docs/sub.site"])
        self.site_url = f"https://{self.hostname}{self.site_path}" + rng.choice(["", "", "/"])
        g = lambda: "%08x-%04x-%04x-%04x-%012x" % (rng.getrandbits(32), rng.getrandbits(16), rng.getrandbits(16), rng.getrandbits(16), rng.getrandbits(48))
        self.site_id = f"{self.hostname},{g()},{g()}"
        self.salt = "%x" % rng.getrandbits(64)
        self._ids: set[str] = set()
        self.drives: list[Drive] = []
        names = ["Documents", "Archive Library", "Projekte & Pläne"]
        for i in range(2 + (rng.random() < 0.3)):
            did = "b!" + "".join(rng.choice("ABCDEFGHIJKLMNOPQRSTUVWXYZabcdefghijklmnopqrstuvwxyz0123456789-_") for _ in range(30))
            root = Node(self._new_id(), "root", "folder", None)
            d = Drive(did, names[i], root)
            self._budget = self.shape["folders"] if i == 0 else max(1, self.shape["folders"] // 2)
            self._fill(root, 0, self.shape["spine"] if i == 0 else min(2, self.shape["spine"]))
            if recipe.get("prefix_siblings"):
                self._add_prefix_siblings(root)
            if recipe.get("ext_shapes"):
                self._add_ext_shapes(root)
            if recipe.get("folder_stamps"):
                self._restamp_folders(root)
            d.index()
            self.drives.append(d)
        self.default_drive = self.drives[0]
        if recipe.get("empty_pages"):
            for d in self.drives:
                for f in [d.root] + d.folders():
                    if len(f.children) >= 2 and rng.random() < 0.6:
                        f.empty_page_at = rng.randrange(1, len(f.children))
        if recipe.get("strip_fraction"):
            for d in self.drives:
                for n in d.by_id.values():
                    if n.created:
                        n.created = (n.created[0], "")
                    if n.modified:
                        n.modified = (n.modified[0], "")

    # -------------------------------------------------------------------------------- building
    def _new_id(self) -> str:
        while True:
            i = "01" + "".join(self._rng.choice(_ID_ALPHA) for _ in range(32))
            if i not in self._ids:
                self._ids.add(i)
                return i

    def _name(self, taken: set, is_file: bool) -> str:
        rng = self._rng
        for _ in range(50):
            stem = rng.choice(_STEMS)
            if rng.random() < 0.25:
                stem = f"{stem} {rng.randrange(1, 30)}"
            name = stem + (rng.choice(_EXTS) if is_file else "")
            if name.lower() not in taken:
                taken.add(name.lower())
                return name
        name = f"item {len(taken)}" + (".txt" if is_file else "")
        taken.add(name.lower())
        return name

    def _stamp(self, base: int | None = None):
        rng = self._rng
        if base is not None and rng.random() < 0.5:
            sec = base + rng.choice([0, 0, 1, -1, 2])        # clusters inside / next to the same second
        else:
            sec = 1_546_300_800 + rng.randrange(0, 200_000_000)   # 2019 .. 2025
        return (sec, rng.choice(_FRACS))

    def _fill(self, folder: Node, depth: int, spine: int):
        rng, sh = self._rng, self.shape
        r = rng.random()
        n = 0 if r < 0.12 else rng.randint(1, sh["max_items"])
        taken: set[str] = set()
        subs = []
        cluster = None
        forced = spine > depth and depth < sh["depth"] and self._budget > 0
        for i in range(max(n, 1 if forced else 0)):
            mk_folder = (forced and i == 0) or (depth < sh["depth"] and self._budget > 0 and rng.random() < sh["p_folder"])
            if mk_folder:
                self._budget -= 1
                c = Node(self._new_id(), self._name(taken, False), "folder", folder)
                subs.append(c)
            elif rng.random() < 0.04:
                c = Node(self._new_id(), self._name(taken, False), "package", folder)
            else:
                c = Node(self._new_id(), self._name(taken, True), "file", folder)
                c.size = rng.choice([0, 1, 17, 4096, 123456, 2**31 + 5])
            c.modified = self._stamp(cluster)
            cluster = c.modified[0]
            c.created = (c.modified[0] - rng.choice([0, 0, 5, 86400, 40_000_000]), rng.choice(_FRACS))
            om = set()
            for f in _OPTIONAL:
                p = 0.06 if f in ("createdDateTime", "lastModifiedDateTime") else 0.12
                if rng.random() < p:
                    om.add(f)
            c.omit = frozenset(om)
            if rng.random() < 0.3:
                c.custom = {"Department": rng.choice(["HR", "R&D", "Finanzen"]), "ReviewDate": "2024-05-0%dT00:00:00Z" % rng.randrange(1, 9)}
            folder.children.append(c)
        rng.shuffle(folder.children)
        for s in subs:
            self._fill(s, depth + 1, spine)

    def _add_child(self, folder: Node, name: str, kind: str) -> Node:
        rng = self._rng
        c = Node(self._new_id(), name, kind, folder)
        if kind == "file":
            c.size = rng.choice([0, 17, 4096])
        c.modified = self._stamp(None)
        c.created = (c.modified[0] - rng.choice([0, 5, 86400]), rng.choice(_FRACS))
        folder.children.insert(rng.randrange(len(folder.children) + 1), c)
        return c

    def _restamp_folders(self, root: Node):
        """``folder_stamps``: a folder's own lastModifiedDateTime says nothing about what is below it (Graph does not
        propagate edits upwards): mostly years older than every file below, sometimes newer, sometimes absent."""
        rng = self._rng
        stack = [root]
        while stack:
            f = stack.pop()
            for c in f.children:
                if c.kind != "folder":
                    continue
                stack.append(c)
                r = rng.random()
                if r < 0.6:
                    c.modified = (1_262_304_000 + rng.randrange(0, 200_000_000), rng.choice(_FRACS))       # 2010 .. 2016
                elif r < 0.8:
                    c.modified = (1_893_456_000 + rng.randrange(0, 30_000_000), rng.choice(_FRACS))        # 2030
                else:
                    c.omit = frozenset(set(c.omit) | {"lastModifiedDateTime"})
                c.created = (min(c.created[0], c.modified[0]) if c.created and c.modified else 1_200_000_000, "")

    def _add_ext_shapes(self, root: Node):
        """``ext_shapes``: file names whose "extension" is not simply the text after the only dot — compound extensions in
        several letter cases, names that are nothing but an extension (dot-files), names equal to an extension without its
        dot, a trailing dot, no dot at all — spread over the root and random folders."""
        rng = self._rng
        folders, stack = [root], [root]
        while stack:
            f = stack.pop()
            for c in f.children:
                if c.kind == "folder":
                    folders.append(c)
                    stack.append(c)
        pool = ["backup.tar.gz", "B.TAR.GZ", "logs 2024.Tar.Gz", "types.d.ts", "app.min.js", "vendor.MIN.JS", ".gitignore", ".htaccess", ".ENV",
                ".tar.gz", "tar.gz", "gz", "archive.tar", "notes.gz", "x.pdf.bak", "report.", "README", "a.b.c.d", "index.d.mts", "säule.tar.gz"]
        rng.shuffle(pool)
        for nm in pool[: rng.randint(8, 14)]:
            f = rng.choice(folders[:1] + folders)
            if nm.lower() not in {c.name.lower() for c in f.children}:
                self._add_child(f, nm, "file")

    def _add_prefix_siblings(self, root: Node):
        rng = self._rng
        folders, stack = [], [root]
        while stack:
            f = stack.pop()
            for c in f.children:
                if c.kind == "folder":
                    folders.append(c)
                    stack.append(c)
        if not folders:                                   # a drive without any folder gets one to start from
            folders.append(self._add_child(root, self._name({c.name.lower() for c in root.children}, False), "folder"))
            self._add_child(folders[0], self._name(set(), True), "file")
        rng.shuffle(folders)
        for f in folders[:3]:
            par = f.parent
            taken = {c.name.lower() for c in par.children}
            names = [f.name + sfx for sfx in rng.sample(["2024", " old", "-v2", "s", "_", ".bak", " (2)", "0"], 2)]
            if len(f.name) > 1 and rng.random() < 0.7:
                names.append(f.name[: rng.randrange(1, len(f.name))].rstrip() or f.name[0])
            for nm in names:
                if nm.lower() in taken or nm != nm.strip() or nm.endswith("."):
                    continue
                taken.add(nm.lower())
                sib = self._add_child(par, nm, "folder")
                t2: set[str] = set()
                for _ in range(rng.randint(1, 3)):
                    self._add_child(sib, self._name(t2, True), "file")
                if rng.random() < 0.5:
                    sub = self._add_child(sib, rng.choice(["Drafts", "Q1", f.name]), "folder")
                    self._add_child(sub, self._name(set(), True), "file")
            if not any(c.kind == "file" for c in f.children):
                self._add_child(f, self._name({c.name.lower() for c in f.children}, True), "file")

    # -------------------------------------------------------------------------------- reference access
    def drive(self, drive_id: str | None) -> Drive | None:
        if drive_id is None:
            return self.default_drive
        for d in self.drives:
            if d.id == drive_id:
                return d
        return None

    @staticmethod
    def walk_files(folder: Node, parent_path: str):
        """Reference walk: yield (file node, parent path) for every file below ``folder``."""
        stack = [(folder, parent_path)]
        while stack:
            f, pp = stack.pop()
            for c in f.children:
                if c.kind == "file":
                    yield c, pp
                elif c.kind == "folder":
                    stack.append((c, f"{pp}/{c.name}" if pp else c.name))

    def stats(self) -> dict:
        d = self.default_drive
        depth = max([len(n.ancestors()) for n in d.by_id.values() if n.parent is not None] + [0])
        return {"files": len(d.files()), "folders": len(d.folders()), "depth": depth,
                "max_children": max(len(n.children) for n in d.by_id.values()), "drives": len(self.drives)}


# ----------------------------------------------------------------------------------------------
# response objects
# ----------------------------------------------------------------------------------------------
def _headers(pairs) -> http.client.HTTPMessage:
    m = http.client.HTTPMessage()
    for k, v in pairs:
        m[k] = v
    return m


class SimResponse:
    """What ``urlopen`` returns, with counters.  ``read_raises`` makes read() fail after delivering half the body."""

    def __init__(self, idx, url, status, body: bytes, content_type="application/json", read_raises: str | None = None):
        self.idx, self.url, self.status, self._body = idx, url, status, body
        self.code = status
        self.reason = self.msg = _HTTP_MSG.get(status, "OK")
        self._ctype = content_type
        self._headers = None
        self.version = 11
        self._pos = 0
        self._read_raises = read_raises
        self.reads = self.closes = self.enters = self.exits = self.reads_after_close = 0

    @property
    def headers(self):
        if self._headers is None:
            self._headers = _headers([("Content-Type", self._ctype), ("Content-Length", str(len(self._body))), ("request-id", f"sim-{self.idx}")])
        return self._headers

    # -- accounting
    @property
    def released(self) -> bool:
        return self.closes > 0 or self.exits > 0

    @property
    def closed(self) -> bool:
        return self.released

    # -- http.client.HTTPResponse / addinfourl surface
    def read(self, amt=None):
        self.reads += 1
        if self.released:
            self.reads_after_close += 1
            return b""
        if self._read_raises == "read_incomplete":
            half = self._body[: len(self._body) // 2]
            raise http.client.IncompleteRead(half, len(self._body) - len(half))
        if self._read_raises == "read_timeout":
            raise TimeoutError("The read operation timed out")
        if amt is None or amt < 0:
            out, self._pos = self._body[self._pos:], len(self._body)
        else:
            out, self._pos = self._body[self._pos:self._pos + amt], min(len(self._body), self._pos + amt)
        return out

    def read1(self, n=-1):
        return self.read(n)

    def readinto(self, b):
        data = self.read(len(b))
        b[: len(data)] = data
        return len(data)

    def readline(self, limit=-1):
        rest = self._body[self._pos:]
        i = rest.find(b"\n")
        n = len(rest) if i < 0 else i + 1
        if limit is not None and limit >= 0:
            n = min(n, limit)
        return self.read(n)

    def readlines(self, hint=-1):
        return self.read().splitlines(True)

    def __iter__(self):
        while True:
            ln = self.readline()
            if not ln:
                return
            yield ln

    def close(self):
        self.closes += 1

    def __enter__(self):
        self.enters += 1
        return self

    def __exit__(self, *a):
        self.exits += 1
        return False

    def getcode(self):
        return self.status

    def geturl(self):
        return self.url

    def info(self):
        return self.headers

    def getheader(self, name, default=None):
        return self.headers.get(name, default)

    def getheaders(self):
        return list(self.headers.items())

    def readable(self):
        return True

    def isclosed(self):
        return self.released

    def fileno(self):
        raise OSError("simulated response has no file descriptor")


class SimErrorBody(io.BytesIO):
    """Body of a raised HTTPError; counts what the catcher does with it."""

    def __init__(self, data: bytes):
        super().__init__(data)
        self.reads = self.closes = 0

    def read(self, *a):
        self.reads += 1
        return super().read(*a)

    def close(self):
        self.closes += 1
        super().close()


# ----------------------------------------------------------------------------------------------
# the service
# ----------------------------------------------------------------------------------------------
class GraphSim:
    def __init__(self, lib: Library, fault: Fault | None = None, page_size: int | None = None, cache: dict | None = None):
        self.lib = lib
        self.fault = fault
        self.page_size = page_size or lib.page_size
        self.log: list[dict] = []            # one entry per request: i, method, url, label
        self.responses: list[SimResponse] = []
        self.error_bodies: list[SimErrorBody] = []
        self.tokens: set[str] = set()
        self._cache = cache if cache is not None else {}
        self.timeouts_seen: list = []

    # -------------------------------------------------------------------------------- entry point
    def __call__(self, request, data=None, timeout=None, **kw):
        idx = len(self.log)
        if isinstance(request, str):
            url, method, headers, body = request, ("POST" if data is not None else "GET"), {}, data
        else:
            url, method, body = request.full_url, request.get_method(), request.data
            headers = {k.lower(): v for k, v in request.header_items()}
            if body is None:
                body = data
        self.timeouts_seen.append(timeout)
        entry = {"i": idx, "method": method, "url": url, "label": "?"}
        self.log.append(entry)
        # what http.client does to a URL that was not quoted
        m = _BAD_URL_CHAR.search(url)
        if m is not None:
            entry["label"] = "invalid-url"
            ch = m.group()
            if ord(ch) <= 0x20 or ord(ch) == 0x7F:
                raise http.client.InvalidURL(f"URL can't contain control characters. {url!r} (found at least {ch!r})")
            raise UnicodeEncodeError("ascii", url, m.start(), m.start() + 1, "ordinal not in range(128)")
        status, payload, label, ctype = self._route(method, url, headers, body)
        entry["label"] = label
        f = self.fault
        if f is not None and not f.fired and f.k == idx:
            f.fired = True
            entry["fault"] = f.kind
            return self._inject(f.kind, idx, url, status, payload, ctype)
        if status == 0:
            raise URLError(OSError(-2, "Name or service not known"))
        if status >= 400:
            raise self._http_error(url, status, payload)
        return self._respond(idx, url, status, payload, ctype)

    def _respond(self, idx, url, status, payload, ctype="application/json", read_raises=None) -> SimResponse:
        r = SimResponse(idx, url, status, payload, ctype, read_raises)
        self.responses.append(r)
        return r

    def _http_error(self, url, code, payload: bytes) -> HTTPError:
        fp = SimErrorBody(payload)
        self.error_bodies.append(fp)
        hdrs = [("Content-Type", "application/json"), ("request-id", "sim-err")]
        if code in (429, 503):
            hdrs.append(("Retry-After", "7"))
        return HTTPError(url, code, _HTTP_MSG.get(code, "Error"), _headers(hdrs), fp)

    @staticmethod
    def _err_payload(code: int, message: str = "") -> bytes:
        return json.dumps({"error": {"code": _GRAPH_CODE.get(code, "generalException"), "message": message or _HTTP_MSG.get(code, "error"),
                                     "innerError": {"request-id": "sim", "date": "2024-01-01T00:00:00"}}}).encode()

    def _inject(self, kind, idx, url, status, payload, ctype):
        if kind.startswith("http"):
            code = int(kind[4:])
            raise self._http_error(url, code, self._err_payload(code, "injected fault"))
        if kind == "urlerror":
            raise URLError(ConnectionRefusedError(111, "Connection refused"))
        if kind == "raise_timeout":
            raise TimeoutError("The read operation timed out")
        if kind == "raise_disconnect":
            raise http.client.RemoteDisconnected("Remote end closed connection without response")
        good = payload if status < 400 and status != 0 else b'{"value": [], "id": "x", "access_token": "x"}'
        if kind == "truncjson":
            return self._respond(idx, url, 200, good[: max(1, len(good) // 2)])
        if kind == "nonjson":
            return self._respond(idx, url, 200, b"<html><head><title>Bad Gateway</title></head><body>upstream error</body></html>", "text/html")
        if kind == "nonjson_nonutf8":
            return self._respond(idx, url, 200, "<html><body>Zugriff verweigert – ungültige Anfrage</body></html>".encode("cp1252"), "text/html; charset=windows-1252")
        if kind in KINDS_RET:
            code = int(kind[3:])
            body = _RET_BODY.get(code, "envelope")
            if body == "envelope":       # a JSON *object*: a client that takes the answer for a success finds no "value"/"id"/"access_token" in it
                return self._respond(idx, url, code, self._err_payload(code, "injected fault"))
            if body == "empty":
                return self._respond(idx, url, code, b"")
            return self._respond(idx, url, code, b"<html><head><title>Object moved</title></head><body><h2>Object moved to <a href=\"https://login.example.invalid/\">here</a>.</h2></body></html>", "text/html")
        if kind in _WRONGTYPE_BODY:
            return self._respond(idx, url, 200, _WRONGTYPE_BODY[kind])
        if kind in ("read_incomplete", "read_timeout"):
            return self._respond(idx, url, 200, good, ctype, read_raises=kind)
        raise AssertionError(kind)

    # -------------------------------------------------------------------------------- routing
    def _route(self, method, url, headers, body):
        """-> (status, payload bytes, label, content type); status 0 = host unreachable."""
        J = "application/json"
        u = urlsplit(url)   # the fragment never reaches a server
        host = (u.hostname or "").lower()
        if u.scheme != "https" or host not in (GRAPH_HOST, LOGIN_HOST):
            return 0, b"", "unknown-host", J
        if host == LOGIN_HOST:
            return self._token(method, u, headers, body) + (J,)
        if not u.path.startswith("/v1.0/"):
            return 404, self._err_payload(404, "unknown API version"), "other", J
        tok = headers.get("authorization", "")
        if not tok.startswith("Bearer ") or tok[7:] not in self.tokens:
            return 401, self._err_payload(401, "Access token is empty or unknown."), "unauthorized", J
        if method == "GET":
            hit = self._cache.get(("route", url))
            if hit is not None:
                return hit
            out = self._route_graph(method, u)
            self._cache[("route", url)] = out
            return out
        return self._route_graph(method, u)

    def _route_graph(self, method, u):
        J = "application/json"
        rest = u.path[len("/v1.0/"):]
        lib = self.lib
        if rest.startswith("sites/"):
            r = rest[len("sites/"):]
            if r == lib.site_id:
                st, p, lab = self._site_json(method)
            elif r.startswith(lib.site_id + "/"):
                st, p, lab, J2 = self._site_scoped(method, r[len(lib.site_id) + 1:], u)
                return st, p, lab, J2
            else:
                ident = unquote(r)
                if ident.endswith(":"):
                    ident = ident[:-1]
                h, _, sp = ident.partition(":")
                if "/" in h:
                    st, p, lab = 400, self._err_payload(400, "Invalid site identifier"), "site"
                elif h.lower() != lib.hostname.lower():
                    st, p, lab = 400, self._err_payload(400, "Invalid hostname for this tenancy"), "site"
                elif sp.rstrip("/").lower() != lib.site_path.lower():
                    st, p, lab = 404, self._err_payload(404, "Requested site could not be found"), "site"
                else:
                    st, p, lab = self._site_json(method)
            return st, p, lab, J
        if rest.startswith("drives/"):
            did, _, tail = rest[len("drives/"):].partition("/")
            d = lib.drive(unquote(did))
            if d is None:
                return 404, self._err_payload(404, "drive not found"), "other", J
            return self._drive_scoped(method, d, tail, u)
        return 400, self._err_payload(400, "Resource not found for the segment"), "other", J

    def _token(self, method, u, headers, body):
        lib = self.lib
        if method != "POST":
            return 405, b'{"error": "invalid_request"}', "token"
        if u.path != f"/{lib.tenant_id}/oauth2/v2.0/token":
            return 400, json.dumps({"error": "invalid_request", "error_description": "AADSTS90002: Tenant not found."}).encode(), "token"
        form = {}
        raw = body.decode("ascii", "replace") if isinstance(body, (bytes, bytearray)) else (body or "")
        for part in raw.split("&"):
            k, _, v = part.partition("=")
            form[unquote(k.replace("+", " "))] = unquote(v.replace("+", " "))
        if form.get("grant_type") != "client_credentials" or not form.get("scope"):
            return 400, json.dumps({"error": "invalid_request", "error_description": "AADSTS900144"}).encode(), "token"
        if form.get("client_id") != lib.client_id or form.get("client_secret") != lib.client_secret:
            return 401, json.dumps({"error": "invalid_client", "error_description": "AADSTS7000215: Invalid client secret provided."}).encode(), "token"
        tok = "eyJ0eXAiOiJKV1Qi." + hashlib.sha1(f"{lib.salt}:{len(self.tokens)}".encode()).hexdigest() + ".sig-_"
        self.tokens.add(tok)
        return 200, json.dumps({"token_type": "Bearer", "expires_in": 3599, "ext_expires_in": 3599, "access_token": tok}).encode(), "token"

    def _site_json(self, method):
        if method != "GET":
            return 405, self._err_payload(405), "site"
        lib = self.lib
        key = ("site",)
        if key not in self._cache:
            self._cache[key] = json.dumps({
                "@odata.context": f"{GRAPH_BASE}/$metadata#sites/$entity", "createdDateTime": "2019-03-01T10:00:00Z",
                "description": "", "id": lib.site_id, "lastModifiedDateTime": "2024-02-02T08:09:10Z",
                "name": lib.site_path.rsplit("/", 1)[-1] or "root", "webUrl": lib.site_url.rstrip("/"),
                "displayName": "Simulated site", "root": {}, "siteCollection": {"hostname": lib.hostname}}).encode()
        return 200, self._cache[key], "site"

    def _drive_json(self, d: Drive) -> dict:
        return {"createdDateTime": "2019-03-01T10:00:00Z", "description": "", "id": d.id, "lastModifiedDateTime": "2024-02-02T08:09:10Z",
                "name": d.name, "webUrl": f"{self.lib.site_url.rstrip('/')}/{quote(d.name)}", "driveType": "documentLibrary",
                "quota": {"deleted": 0, "remaining": 1, "total": 2, "used": 1}}

    def _site_scoped(self, method, tail, u):
        J = "application/json"
        lib = self.lib
        if method != "GET":
            return 405, self._err_payload(405), "other", J
        if tail == "drives":
            body = {"@odata.context": f"{GRAPH_BASE}/$metadata#drives", "value": [self._drive_json(d) for d in lib.drives]}
            return 200, json.dumps(body).encode(), "drives", J
        if tail == "drive":
            return 200, json.dumps(self._drive_json(lib.default_drive)).encode(), "drive", J
        if tail.startswith("drive/"):
            return self._drive_scoped(method, lib.default_drive, tail[len("drive/"):], u)
        if tail.startswith("drives/"):
            did, _, t2 = tail[len("drives/"):].partition("/")
            d = lib.drive(unquote(did))
            if d is None:
                return 404, self._err_payload(404, "drive not found"), "other", J
            return self._drive_scoped(method, d, t2, u)
        return 400, self._err_payload(400, "Resource not found for the segment"), "other", J

    def _drive_scoped(self, method, d: Drive, tail, u):
        J = "application/json"
        if method != "GET":
            return 405, self._err_payload(405), "other", J
        if tail == "":
            return 200, json.dumps(self._drive_json(d)).encode(), "drive", J
        by_path = False
        if tail == "root" or tail.startswith("root/"):
            node, action = d.root, tail[5:]
        elif tail.startswith("root:"):
            by_path = True
            p = tail[5:]
            action = ""
            if ":/" in p:
                p, _, action = p.rpartition(":/")
            elif p.endswith(":"):
                p = p[:-1]
            if not p.startswith("/") and p != "":
                return 400, self._err_payload(400, "malformed path-based address"), "other", J
            path = unquote(p).strip("/")
            node = d.resolve(path) or d.resolve(path, ci=True)
        elif tail.startswith("items/"):
            iid, _, action = tail[len("items/"):].partition("/")
            node = d.by_id.get(unquote(iid))
        else:
            return 400, self._err_payload(400, "Resource not found for the segment"), "other", J
        label = {"": "item-by-path" if by_path else "item", "children": "children", "content": "content"}.get(action)
        if label is None:
            return 400, self._err_payload(400, f"unsupported segment {action!r}"), "other", J
        if node is None:
            return 404, self._err_payload(404, "The resource could not be found."), label, J
        q = self._query(u.query)
        if action == "":
            return 200, json.dumps(self._item_json(d, node, "listitem" in q.get("$expand", "").lower())).encode(), label, J
        if action == "content":
            if node.kind != "file":
                return 400, self._err_payload(400, "not a file"), label, J
            return 200, f"content of {node.id}".encode(), label, "application/octet-stream"
        if node.kind != "folder":
            return 400, self._err_payload(400, "item is not a folder"), label, J
        return self._children(d, node, u, q)

    @staticmethod
    def _query(qs: str) -> dict:
        out = {}
        for part in qs.split("&"):
            if part:
                k, _, v = part.partition("=")
                out[unquote(k)] = unquote(v)
        return out

    def _sig(self, node_id, offset, e) -> str:
        return hashlib.sha1(f"{self.lib.salt}:{node_id}:{offset}:{e}".encode()).hexdigest()[:10]

    def _children(self, d: Drive, node: Node, u, q):
        J = "application/json"
        offset, e = 0, 0
        label = "children"
        if "$skiptoken" in q:
            label = "children-next"
            try:
                parts = dict(p.split("=", 1) for p in q["$skiptoken"].split("&"))
                offset, e = int(parts["p_ID"]), int(parts["e"])
                ok = parts.get("Paged") == "TRUE" and parts.get("g") == self._sig(node.id, offset, e)
            except Exception:
                ok = False
            if not ok:
                return 400, self._err_payload(400, "The $skiptoken is invalid."), label, J
        ps = self.page_size
        if "$top" in q:
            try:
                ps = max(1, min(ps, int(q["$top"])))
            except ValueError:
                return 400, self._err_payload(400, "invalid $top"), label, J
        expand = "listitem" in q.get("$expand", "").lower()
        keep = [p for p in u.query.split("&") if p and not unquote(p.partition("=")[0]) == "$skiptoken"]
        key = ("page", u.path, tuple(keep), d.id, node.id, offset, e, ps, expand)
        hit = self._cache.get(key)
        if hit is not None:
            return 200, hit, label, J
        kids = node.children
        if node.empty_page_at is not None and offset == node.empty_page_at and e == 0 and offset < len(kids):
            page, nxt = [], (offset, 1)             # an empty page that still has a nextLink
        else:
            page = kids[offset:offset + ps]
            if node.empty_page_at is not None and offset < node.empty_page_at < offset + ps:
                page = kids[offset:node.empty_page_at]
            end = offset + len(page)
            nxt = (end, 0) if end < len(kids) else None
        body = {"@odata.context": f"{GRAPH_BASE}/$metadata#sites('{quote(self.lib.site_id)}')/drive/items('{node.id}')/children",
                "value": [self._item_json(d, c, expand) for c in page]}
        if nxt is not None:
            keep = list(keep)
            tok = f"Paged=TRUE&p_ID={nxt[0]}&e={nxt[1]}&g={self._sig(node.id, nxt[0], nxt[1])}"
            keep.append("$skiptoken=" + quote(tok, safe=""))
            body["@odata.nextLink"] = f"https://{GRAPH_HOST}{u.path}?" + "&".join(keep)
        out = json.dumps(body).encode()
        self._cache[key] = out
        return 200, out, label, J

    def _item_json(self, d: Drive, n: Node, expand: bool) -> dict:
        hit = n._json.get(expand)
        if hit is not None:
            return hit
        lib = self.lib
        pp = n.parent_path() if n.parent is not None else ""
        j = {"@odata.etag": f"\"{{{n.id}}},2\"", "id": n.id, "name": n.name, "eTag": f"\"{{{n.id}}},2\"", "cTag": f"\"c:{{{n.id}}},1\"",
             "createdBy": {"user": {"displayName": "Sim User", "email": "sim@contoso.com"}},
             "lastModifiedBy": {"user": {"displayName": "Sim User"}},
             "fileSystemInfo": {"createdDateTime": "2001-01-01T00:00:00Z", "lastModifiedDateTime": "2001-01-01T00:00:01Z"}}
        om = n.omit
        if n.parent is None:
            j["root"] = {}
            om = frozenset()
        if "webUrl" not in om:
            j["webUrl"] = f"{lib.site_url.rstrip('/')}/{quote(d.name)}/{quote(n.path())}" if n.parent is not None else f"{lib.site_url.rstrip('/')}/{quote(d.name)}"
        if "createdDateTime" not in om and n.created:
            j["createdDateTime"] = stamp_text(n.created)
        if "lastModifiedDateTime" not in om and n.modified:
            j["lastModifiedDateTime"] = stamp_text(n.modified)
        if "size" not in om:
            j["size"] = n.size
        if "parentReference" not in om and n.parent is not None:
            j["parentReference"] = {"driveType": "documentLibrary", "driveId": d.id, "id": n.parent.id, "siteId": lib.site_id,
                                    "path": f"/drives/{d.id}/root:" + ("/" + pp if pp else "")}
        if n.kind == "file":
            ext = "." + n.name.rsplit(".", 1)[-1].lower() if "." in n.name else ""
            j["file"] = {} if "facetBody" in om else {"mimeType": _MIMES.get(ext, "application/octet-stream"), "hashes": {"quickXorHash": "AAAA="}}
            if "downloadUrl" not in om:
                j["@microsoft.graph.downloadUrl"] = f"https://{lib.hostname}/_layouts/15/download.aspx?UniqueId={n.id}&tempauth=v1.x"
        elif n.kind == "folder":
            j["folder"] = {} if "facetBody" in om else {"childCount": len(n.children)}
        else:
            j["package"] = {"type": "oneNote"}
        if expand and "listItem" not in om and n.parent is not None:
            fields = {"@odata.etag": "\"x,2\"", "id": str(int(hashlib.sha1(n.id.encode()).hexdigest()[:6], 16) % 9999), "ContentType": "Document" if n.kind == "file" else "Folder",
                      "Created": j.get("createdDateTime", ""), "Modified": j.get("lastModifiedDateTime", ""), "FileLeafRef": n.name,
                      "LinkFilename": n.name, "DocIcon": "x", "_UIVersionString": "1.0", "AuthorLookupId": "6", "EditorLookupId": "6"}
            if n.custom:
                fields.update(n.custom)
            j["listItem"] = {"@odata.etag": "\"x,2\"", "id": fields["id"], "fields": fields, "fields@odata.context": "ctx"}
        n._json[expand] = j
        return j
