"""Mailboxes as multi-unit documents (C02/C03): N hand-written text/plain messages in an mboxrd file.

Each message is one source unit; ``read_mbox_format_mail`` returns one result per message, which the
document-model checks treat as the units of the mailbox (count, order, attribution of every body token).
The mail-specific clauses (headers, encodings, attachments) are C16's business; this writer only varies
what decides the *boundaries*: line terminator, blank lines between messages, a final blank line,
``From `` lines inside bodies (escaped the mboxrd way), separators with and without time zone.
"""
from __future__ import annotations

import random

from .expect import Expect
from .tokens import Tokens

MBOX_FEATURES: dict[str, str] = {}

_DAYS = ["Mon", "Tue", "Wed", "Thu", "Fri", "Sat", "Sun"]


def build_mbox(seed: int, feature: str | None = None, twin: bool = False):
    rng = random.Random(f"mbox:{seed}")
    tk = Tokens()
    exp = Expect("mbox")
    exp.unit_mode = "exact"
    n = rng.randint(1, 7)
    exp.n_units = n
    eol = rng.choice(["\n", "\n", "\r\n"])
    blank_between = rng.choice([1, 1, 2])
    final_blank = rng.random() < 0.7
    out = []
    shape_rng = random.Random(f"mbox-shapes:{seed}")
    id_rng = random.Random(f"mbox-ids:{seed}")
    last_id = None
    for m in range(n):
        sender = f"user{m}@example.org"
        day = rng.randint(1, 28)
        zone = rng.choice(["", "", " +0000"])
        sep = f"From {sender} {_DAYS[(day + m) % 7]} Jan {day:2d} 0{m}:00:00{zone} 2024"
        # the Message-ID is optional (drafts, script-generated mail have none), and two messages may carry the same one (a message
        # filed under two labels): a mailbox message is a message whatever its id says
        id_kind = id_rng.choice(["own"] * 6 + ["none", "none", "same-as-previous"])
        if id_kind == "own" or (id_kind == "same-as-previous" and last_id is None):
            last_id = f"<{exp.ignore(tk.new('t'))}@example.org>"
        mid = [] if id_kind == "none" else [f"Message-ID: {last_id}"]
        hdr = [f"From: Sender {m} <{sender}>", f"To: rcpt{m}@example.org", f"Subject: {exp.ignore(tk.new('t'))} message {m}",
               f"Date: {_DAYS[(day + m) % 7]}, {day:02d} Jan 2024 0{m}:00:00 +0000"] + mid + [
               "MIME-Version: 1.0", "Content-Type: text/plain; charset=us-ascii", "Content-Transfer-Encoding: 7bit"]
        shape = shape_rng.choice(["plain"] * 6 + ["alt-blank-plain", "alt-blank-plain", "html-only", "alt-both"])
        if shape != "plain":
            # the message's text is its HTML part: alone, or with the obligatory text/plain twin that HTML mailers fill with a blank,
            # a no-break space or nothing; with a real plain twin the plain part is the body and the HTML copy is not claimed
            paras = [[exp.text(tk.new("b"), m) for _ in range(shape_rng.randint(1, 3))] for _ in range(shape_rng.randint(1, 3))]
            html = "<html><body>" + "".join("<p>" + " ".join(p) + "</p>" for p in paras) + "</body></html>"
            if shape == "alt-both":
                html = "<html><body><p>" + exp.ignore(tk.new("u")) + "</p></body></html>"
            bnd = f"=_alt{m}"
            plain_twin = shape_rng.choice([" ", "\u00a0", "", "\t", "  " + eol + " "]) if shape == "alt-blank-plain" else " ".join(t for p in paras for t in p)
            if shape == "html-only":
                hdr = hdr[:-2] + ["Content-Type: text/html; charset=utf-8", "Content-Transfer-Encoding: 8bit"]
                body = [html]
            else:
                hdr = hdr[:-2] + [f'Content-Type: multipart/alternative; boundary="{bnd}"']
                body = [f"--{bnd}", "Content-Type: text/plain; charset=utf-8", "Content-Transfer-Encoding: 8bit", "", plain_twin,
                        f"--{bnd}", "Content-Type: text/html; charset=utf-8", "Content-Transfer-Encoding: 8bit", "", html, f"--{bnd}--"]
            out.append(eol.join([sep] + hdr + [""] + body) + eol)
            continue
        body = []
        for _ in range(rng.randint(1, 5)):
            line = " ".join(exp.text(tk.new("b"), m) for _ in range(rng.randint(1, 4)))
            if rng.random() < 0.15:
                line = ">From " + line        # a body line "From ..." as an mboxrd writer stores it
            body.append(line)
            if rng.random() < 0.2:
                body.append("")
        msg = eol.join([sep] + hdr + [""] + body) + eol
        out.append(msg)
    data = (eol * blank_between).join(out)
    if final_blank:
        data += eol
    return data.encode("utf-8"), exp


EML_FEATURES: dict[str, str] = {}


def build_eml(seed: int, feature: str | None = None, twin: bool = False):
    """One message as an .eml document (C02/C03: one unit).  What varies is the *shape of the body*: one text/plain part, or a
    multipart/mixed body of several inline text/plain parts (message text + signature + mailing-list footer) in every transfer
    encoding - base64 and quoted-printable parts need not end in a line break -, or an HTML alternative next to the plain part."""
    import base64
    import quopri
    rng = random.Random(f"eml:{seed}")
    tk = Tokens()
    exp = Expect("eml")
    exp.unit_mode = "exact"
    exp.n_units = 1
    eol = rng.choice(["\n", "\r\n"])
    hdr = [f"From: Sender <sender@example.org>", "To: rcpt@example.org", f"Subject: {exp.ignore(tk.new('t'))} a message",
           "Date: Mon, 01 Jan 2024 10:00:00 +0000", f"Message-ID: <{exp.ignore(tk.new('t'))}@example.org>", "MIME-Version: 1.0"]

    def text_part(final_newline: bool):
        lines = [" ".join(exp.text(tk.new("b"), 0) for _ in range(rng.randint(1, 3))) for _ in range(rng.randint(1, 3))]
        body = "\n".join(lines) + ("\n" if final_newline else "")
        cte = rng.choice(["7bit", "base64", "quoted-printable"])
        if cte == "base64":
            payload = base64.encodebytes(body.encode()).decode().rstrip("\n")
        elif cte == "quoted-printable":
            payload = quopri.encodestring(body.encode()).decode()
            payload = payload if final_newline else payload.rstrip("\n") + "="      # soft line break: the part ends without a line break
        else:
            payload = body.rstrip("\n")       # (7bit: the line break before the boundary belongs to the boundary)
        return ["Content-Type: text/plain; charset=utf-8", f"Content-Transfer-Encoding: {cte}", "Content-Disposition: inline", "", payload]

    shape = rng.choice(["single", "single", "mixed-texts", "mixed-texts", "mixed-texts", "alternative"])
    if shape == "single":
        part = text_part(True)
        lines = hdr + part[:2] + [""] + part[4:]
    elif shape == "alternative":
        bnd = "=_alt"
        part = text_part(True)
        html = "<html><body><p>" + exp.ignore(tk.new("u")) + "</p></body></html>"
        lines = hdr + [f'Content-Type: multipart/alternative; boundary="{bnd}"', "", f"--{bnd}"] + part + [f"--{bnd}", "Content-Type: text/html; charset=utf-8", "", html, f"--{bnd}--"]
    else:
        bnd = "=_mix"
        lines = hdr + [f'Content-Type: multipart/mixed; boundary="{bnd}"', ""]
        for k in range(rng.randint(2, 3)):
            lines += [f"--{bnd}"] + text_part(rng.random() < 0.4)
        lines += [f"--{bnd}--"]
    return (eol.join(lines) + eol).encode("utf-8"), exp


BUILDERS = {"mbox": (build_mbox, MBOX_FEATURES, "mbox", ".mbox"), "eml": (build_eml, EML_FEATURES, "eml", ".eml")}
