"""Hand-written ZIP writer for C11: central-directory sizes are whatever the caller says.

Nothing here uses ``zipfile`` for writing: the local records carry the (tiny) payload that is
really there, the central directory carries the *claimed* (file_size, compress_size), which is all
``ZipFile.__init__``/``infolist()`` ever look at.  Values >= 0xFFFFFFFF get a zip64 extra field.
"""
from __future__ import annotations

import struct
import zlib

M32 = 0xFFFFFFFF


class Entry:
    __slots__ = ("name", "payload", "method", "crc", "real_size", "cd_file_size", "cd_compress_size", "ext_attr", "create_system", "flags")

    def __init__(self, name: str, payload: bytes = b"", method: int = 0, crc: int | None = None,
                 real_size: int | None = None, cd_file_size: int | None = None, cd_compress_size: int | None = None,
                 ext_attr: int | None = None, create_system: int = 0, flags: int = 0):
        """``ext_attr``: external file attributes of the central record (default: 0x10 = MS-DOS directory bit for names ending
        in "/", 0 otherwise); ``create_system``: high byte of "version made by" (0 = MS-DOS/FAT, 3 = Unix, ...); ``flags``: extra general-purpose
        flag bits (0x08 = sizes follow in a data descriptor, 0x06 = compression options, 0x2000 = masked local header)."""
        self.flags = flags                # general-purpose flag bits set in addition to 0x0800 (UTF-8 names), local and central record alike
        self.ext_attr = ext_attr
        self.create_system = create_system
        self.name = name
        self.payload = payload
        self.method = method
        self.real_size = len(payload) if real_size is None else real_size
        self.crc = (zlib.crc32(payload) & M32) if crc is None else crc
        self.cd_file_size = self.real_size if cd_file_size is None else cd_file_size
        self.cd_compress_size = len(payload) if cd_compress_size is None else cd_compress_size


def stored(name: str, data: bytes = b"", **kw) -> Entry:
    return Entry(name, data, 0, **kw)


def deflated(name: str, data: bytes, **kw) -> Entry:
    co = zlib.compressobj(9, zlib.DEFLATED, -15)
    comp = co.compress(data) + co.flush()
    return Entry(name, comp, 8, crc=zlib.crc32(data) & M32, real_size=len(data), **kw)


def _local(e: Entry) -> bytes:
    nm = e.name.encode("utf-8")
    return struct.pack("<IHHHHHIIIHH", 0x04034B50, 20, 0x0800 | (e.flags & 0xFFFF), e.method, 0, 0x21, e.crc,
                       len(e.payload), e.real_size, len(nm), 0) + nm + e.payload


def _central(e: Entry, offset: int) -> bytes:
    nm = e.name.encode("utf-8")
    fs, cs = e.cd_file_size, e.cd_compress_size
    extra = b""
    z = []
    if fs >= M32:
        z.append(fs)
    if cs >= M32:
        z.append(cs)
    if z:
        extra = struct.pack("<HH", 1, 8 * len(z)) + b"".join(struct.pack("<Q", v) for v in z)
    ext_attr = (0x10 if e.name.endswith("/") else 0) if e.ext_attr is None else e.ext_attr & M32
    return struct.pack("<IHHHHHHIIIHHHHHII", 0x02014B50, (45 if z else 20) | (e.create_system & 0xFF) << 8, 45 if z else 20, 0x0800 | (e.flags & 0xFFFF), e.method, 0, 0x21,
                       e.crc, min(cs, M32), min(fs, M32), len(nm), len(extra), 0, 0, 0, ext_attr, offset) + nm + extra


def _eocd(n: int, cd_size: int, cd_off: int) -> bytes:
    assert n < 0xFFFF and cd_off < M32 and cd_size < M32, "zip64 end record not implemented"
    return struct.pack("<IHHHHIIH", 0x06054B50, 0, 0, n, n, cd_size, cd_off, 0)


def raw_zip(entries: list[Entry]) -> bytes:
    """A ZIP whose central directory lists ``entries`` in order with their claimed sizes.

    Identical Entry objects may be repeated (each gets its own local record and a numbered name suffix is
    the caller's business)."""
    body = []
    cd = []
    off = 0
    for e in entries:
        rec = _local(e)
        cd.append(_central(e, off))
        body.append(rec)
        off += len(rec)
    cdb = b"".join(cd)
    return b"".join(body) + cdb + _eocd(len(entries), len(cdb), off)


def split_zip(data: bytes):
    """(local part, central directory bytes, number of entries) of a plain (non-zip64) archive."""
    i = data.rfind(b"PK\x05\x06")
    if i < 0:
        raise ValueError("no end-of-central-directory record")
    _, disk, cd_disk, n_disk, n_total, cd_size, cd_off, clen = struct.unpack("<IHHHHIIH", data[i:i + 22])
    if n_total == 0xFFFF or cd_off == M32 or cd_off + cd_size != i:
        raise ValueError("unsupported layout (zip64 / prepended data)")
    return data[:cd_off], data[cd_off:cd_off + cd_size], n_total


def append_entries(data: bytes, extra: list[Entry], front: bool = False) -> bytes:
    """The archive ``data`` with ``extra`` added (original bytes untouched, original members still readable).

    ``front`` lists the new entries first in the central directory."""
    body, cd, n = split_zip(data)
    recs, new_cd = [], []
    off = len(body)
    for e in extra:
        rec = _local(e)
        new_cd.append(_central(e, off))
        recs.append(rec)
        off += len(rec)
    ncd = b"".join(new_cd)
    cdb = (ncd + cd) if front else (cd + ncd)
    return body + b"".join(recs) + cdb + _eocd(n + len(extra), len(cdb), off)
